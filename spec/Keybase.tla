------------------------------- MODULE Keybase -------------------------------
(***************************************************************************)
(* C19, keybase: the key store of posmint (crypto/keys/keybase.go,         *)
(* lazy_keybase.go, mintkey/mintkey.go) as a sequential machine.           *)
(*                                                                         *)
(* The store maps an address to the public key and the armored private     *)
(* key.  An armor is modelled by what decides every later call: which key  *)
(* it holds and under which passphrase it was encrypted                    *)
(* (scrypt + AES-GCM: decryption succeeds iff the passphrase is the one    *)
(* used for encryption).  A key id IS its address (the address is a        *)
(* function of the key).                                                   *)
(*                                                                         *)
(* One action per public call of dbKeybase, written in the order of the    *)
(* code: Get (not found) -> decrypt (wrong passphrase) -> effect.          *)
(*   keys 1..NKnown  private keys the client holds from the start          *)
(*                   (ImportPrivateKeyObject)                              *)
(*   keys in Secp    those of them that are secp256k1 keys: the keybase    *)
(*                   generates and takes raw ed25519 keys only, a          *)
(*                   secp256k1 key enters it as an armor made elsewhere    *)
(*                   (ArmorRaw = mintkey.EncryptArmorPrivKey by the        *)
(*                   client, then ImportPrivKey)                           *)
(*   other keys      generated inside the keybase by Create (ed25519)      *)
(*   arm             encrypted armors the client holds (exports, and       *)
(*                   armors it made itself from raw keys)                  *)
(*   known           raw private keys the client holds                     *)
(*   prog            scenario runs only: the program (a list of calls)     *)
(*                   still to be performed, see "scenario programs"        *)
(*   cb              the cached coinbase key pair (a COPY: it goes stale   *)
(*                   when the key is deleted or re-encrypted; recorded as  *)
(*                   the code does, not part of the property)              *)
(* The property is StepOK: an implied action checked on every transition   *)
(* TLC generates, and the invariants below.                                *)
(***************************************************************************)
EXTENDS Integers, Sequences, FiniteSets, TLC, Json

CONSTANTS
    NK,        \* key ids 1..NK
    NKnown,    \* 1..NKnown are held by the client, NKnown+1..NK are produced by Create
    Secp,      \* the secp256k1 keys among 1..NKnown (all other keys are ed25519)
    Passes,    \* passphrase NAMES; the replayer binds them so that white space matters:
               \*   "e" the empty passphrase          "w" white space only (= "e" padded)
               \*   "u" a base passphrase (unicode / long / plain, per behaviour)
               \*   "v" "u" with ASCII or unicode white space added before and/or after
               \* all four are DIFFERENT passphrases: "w" never opens a key stored under "e",
               \* "v" never one stored under "u", and a key stored under "w" / "v" opens
               \* under exactly that passphrase
    MaxArm,    \* bound on the number of exported armors kept
    Depth      \* simulation: length of a behaviour

VARIABLES store, arm, known, created, cb, last, hist, prog

vars  == <<store, arm, known, created, cb, last, hist, prog>>
state == <<store, arm, known, created, cb>>

Keys   == 1..NK
NoPass == "-"                 \* store[k] = NoPass: no such key
NoKey  == 0
Armor(k, p) == [k |-> k, p |-> p]
Dom == { k \in Keys : store[k] # NoPass }

\* result of a call: class "ok" or an error class; key: the key id a successful call returns
\* (0 when it returns none); list: the listed keys after the call
Res(class, k) == [class |-> class, key |-> k]
Label(op, k, p, q, a, r) == [op |-> op, k |-> k, p |-> p, q |-> q, a |-> a, res |-> r]
NoArm == Armor(0, NoPass)
\* a call of a scenario program (a label without its result), and "no program"
Call(op, k, p, q, a) == [op |-> op, k |-> k, p |-> p, q |-> q, a |-> a]
NoProg == [tag |-> <<>>, calls |-> <<>>]

ASSUME Secp \subseteq 1..NKnown

TypeOK ==
    /\ store \in [Keys -> Passes \cup {NoPass}]
    /\ arm \subseteq { Armor(k, p) : k \in Keys, p \in Passes } /\ Cardinality(arm) <= MaxArm
    /\ known \subseteq Keys /\ created \subseteq Keys
    /\ cb \in { Armor(k, p) : k \in Keys, p \in Passes } \cup {NoArm}

InitState ==
    /\ store = [k \in Keys |-> NoPass]
    /\ arm = {}
    /\ known = 1..NKnown
    /\ created = {}
    /\ cb = NoArm
    /\ last = Label("Init", 0, NoPass, NoPass, NoArm, Res("ok", 0))
    /\ hist = <<>>
Init == InitState /\ prog = NoProg

\* every action appends its label to the history (simulation) and publishes it in last; a scenario
\* run has performed the first call of its program
Emit(l) == /\ last' = l
           /\ hist' = (IF Len(hist) < Depth THEN Append(hist, [l |-> l, list |-> { k \in Keys : store'[k] # NoPass }, st |-> store']) ELSE hist)
           /\ prog' = (IF prog.calls = <<>> THEN prog ELSE [prog EXCEPT !.calls = Tail(prog.calls)])

\* Create(encryptPassphrase): a fresh key pair generated inside the keybase
Create(p) ==
    /\ \E k \in Keys \ (1..NKnown) : k \notin created
    /\ LET k == CHOOSE c \in Keys \ (1..NKnown) : c \notin created /\ \A d \in Keys \ (1..NKnown) : d \notin created => c <= d
       IN  /\ store' = [store EXCEPT ![k] = p]
           /\ created' = created \cup {k}
           /\ UNCHANGED <<arm, known, cb>>
           /\ Emit(Label("Create", k, p, NoPass, NoArm, Res("ok", k)))

\* ImportPrivateKeyObject(privateKey [64]byte, encryptPassphrase): raw ed25519 keys only
ImportObj(k, p) ==
    /\ k \in known \ Secp
    /\ IF store[k] # NoPass
       THEN UNCHANGED state /\ Emit(Label("ImportObj", k, p, NoPass, NoArm, Res("exists", 0)))
       ELSE /\ store' = [store EXCEPT ![k] = p]
            /\ UNCHANGED <<arm, known, created, cb>>
            /\ Emit(Label("ImportObj", k, p, NoPass, NoArm, Res("ok", k)))

\* ImportPrivKey(armor, decryptPassphrase, encryptPassphrase): decrypt first, then "cannot overwrite"
ImportArm(a, dp, ep) ==
    /\ a \in arm
    /\ IF a.p # dp
       THEN UNCHANGED state /\ Emit(Label("ImportArm", a.k, dp, ep, a, Res("badpass", 0)))
       ELSE IF store[a.k] # NoPass
       THEN UNCHANGED state /\ Emit(Label("ImportArm", a.k, dp, ep, a, Res("exists", 0)))
       ELSE /\ store' = [store EXCEPT ![a.k] = ep]
            /\ UNCHANGED <<arm, known, created, cb>>
            /\ Emit(Label("ImportArm", a.k, dp, ep, a, Res("ok", a.k)))

\* mintkey.EncryptArmorPrivKey(privateKey, passphrase, hint) by the client, outside the keybase: an armor as
\* another keybase or wallet would export it - the only way a secp256k1 key reaches the keybase
ArmorRaw(k, p) ==
    /\ k \in known
    /\ (Armor(k, p) \in arm \/ Cardinality(arm) < MaxArm)                   \* bound of the model
    /\ arm' = arm \cup {Armor(k, p)}
    /\ UNCHANGED <<store, known, created, cb>>
    /\ Emit(Label("ArmorRaw", k, p, NoPass, Armor(k, p), Res("ok", k)))

\* ImportPrivKey with something that is not an armor
ImportJunk(dp, ep) ==
    UNCHANGED state /\ Emit(Label("ImportJunk", 0, dp, ep, NoArm, Res("badarmor", 0)))

\* Update(address, oldpass, newpass)
Update(k, old, new) ==
    IF store[k] = NoPass
    THEN UNCHANGED state /\ Emit(Label("Update", k, old, new, NoArm, Res("notfound", 0)))
    ELSE IF store[k] # old
    THEN UNCHANGED state /\ Emit(Label("Update", k, old, new, NoArm, Res("badpass", 0)))
    ELSE /\ store' = [store EXCEPT ![k] = new]          \* writeLocalKeyPair overwrites the entry
         /\ UNCHANGED <<arm, known, created, cb>>
         /\ Emit(Label("Update", k, old, new, NoArm, Res("ok", k)))

\* ExportPrivKeyEncryptedArmor(address, decryptPassphrase, encryptPassphrase, hint)
ExportArm(k, dp, ep) ==
    IF store[k] = NoPass
    THEN UNCHANGED state /\ Emit(Label("ExportArm", k, dp, ep, NoArm, Res("notfound", 0)))
    ELSE IF store[k] # dp
    THEN UNCHANGED state /\ Emit(Label("ExportArm", k, dp, ep, NoArm, Res("badpass", 0)))
    ELSE /\ (Armor(k, ep) \in arm \/ Cardinality(arm) < MaxArm)           \* bound of the model
         /\ arm' = arm \cup {Armor(k, ep)}
         /\ UNCHANGED <<store, known, created, cb>>
         /\ Emit(Label("ExportArm", k, dp, ep, Armor(k, ep), Res("ok", k)))

\* ExportPrivateKeyObject(address, passphrase)
ExportObj(k, p) ==
    IF store[k] = NoPass
    THEN UNCHANGED state /\ Emit(Label("ExportObj", k, p, NoPass, NoArm, Res("notfound", 0)))
    ELSE IF store[k] # p
    THEN UNCHANGED state /\ Emit(Label("ExportObj", k, p, NoPass, NoArm, Res("badpass", 0)))
    ELSE /\ known' = known \cup {k}
         /\ UNCHANGED <<store, arm, created, cb>>
         /\ Emit(Label("ExportObj", k, p, NoPass, NoArm, Res("ok", k)))

\* Delete(address, passphrase)
Delete(k, p) ==
    IF store[k] = NoPass
    THEN UNCHANGED state /\ Emit(Label("Delete", k, p, NoPass, NoArm, Res("notfound", 0)))
    ELSE IF store[k] # p
    THEN UNCHANGED state /\ Emit(Label("Delete", k, p, NoPass, NoArm, Res("badpass", 0)))
    ELSE /\ store' = [store EXCEPT ![k] = NoPass]
         /\ UNCHANGED <<arm, known, created, cb>>
         /\ Emit(Label("Delete", k, p, NoPass, NoArm, Res("ok", 0)))

\* Sign(address, passphrase, msg): a successful call returns a signature by key k
Sign(k, p) ==
    /\ UNCHANGED state
    /\ IF store[k] = NoPass THEN Emit(Label("Sign", k, p, NoPass, NoArm, Res("notfound", 0)))
       ELSE IF store[k] # p THEN Emit(Label("Sign", k, p, NoPass, NoArm, Res("badpass", 0)))
       ELSE Emit(Label("Sign", k, p, NoPass, NoArm, Res("ok", k)))

\* Get(address)
Get(k) ==
    /\ UNCHANGED state
    /\ IF store[k] = NoPass THEN Emit(Label("Get", k, NoPass, NoPass, NoArm, Res("notfound", 0)))
       ELSE Emit(Label("Get", k, NoPass, NoPass, NoArm, Res("ok", k)))

\* SetCoinbase(address): caches a copy of the key pair
SetCoinbase(k) ==
    IF store[k] = NoPass
    THEN UNCHANGED state /\ Emit(Label("SetCoinbase", k, NoPass, NoPass, NoArm, Res("notfound", 0)))
    ELSE /\ cb' = Armor(k, store[k])
         /\ UNCHANGED <<store, arm, known, created>>
         /\ Emit(Label("SetCoinbase", k, NoPass, NoPass, NoArm, Res("ok", k)))

\* GetCoinbase(): the cached copy, else the first listed key (the model only lets it happen
\* when the choice is determined: at most one key listed)
GetCoinbase ==
    IF cb # NoArm
    THEN UNCHANGED state /\ Emit(Label("GetCoinbase", 0, NoPass, NoPass, NoArm, Res("ok", cb.k)))
    ELSE IF Dom = {}
    THEN UNCHANGED state /\ Emit(Label("GetCoinbase", 0, NoPass, NoPass, NoArm, Res("nokeys", 0)))
    ELSE /\ Cardinality(Dom) = 1
         /\ LET k == CHOOSE d \in Dom : TRUE
            IN  /\ cb' = Armor(k, store[k])
                /\ UNCHANGED <<store, arm, known, created>>
                /\ Emit(Label("GetCoinbase", 0, NoPass, NoPass, NoArm, Res("ok", k)))

Next ==
    \/ \E p \in Passes : Create(p)
    \/ \E k \in Keys, p \in Passes : ImportObj(k, p)
    \/ \E a \in arm, dp \in Passes, ep \in Passes : ImportArm(a, dp, ep)
    \/ \E k \in Keys, p \in Passes : ArmorRaw(k, p)
    \/ \E dp \in Passes, ep \in Passes : ImportJunk(dp, ep)
    \/ \E k \in Keys, old \in Passes, new \in Passes : Update(k, old, new)
    \/ \E k \in Keys, dp \in Passes, ep \in Passes : ExportArm(k, dp, ep)
    \/ \E k \in Keys, p \in Passes : ExportObj(k, p)
    \/ \E k \in Keys, p \in Passes : Delete(k, p)
    \/ \E k \in Keys, p \in Passes : Sign(k, p)
    \/ \E k \in Keys : Get(k)
    \/ \E k \in Keys : SetCoinbase(k)
    \/ GetCoinbase

Spec == Init /\ [][Next]_vars

-----------------------------------------------------------------------------
(* The property, on every transition (l = last' is the call and its result) *)

\* the passphrase the call presented for an existing key / armor was wrong
WrongPass(l) ==
    \/ l.op \in {"Update", "ExportArm", "ExportObj", "Delete", "Sign"} /\ store[l.k] # NoPass /\ store[l.k] # l.p
    \/ l.op = "ImportArm" /\ l.a.p # l.p
RightPass(l) ==
    \/ l.op \in {"Update", "ExportArm", "ExportObj", "Delete", "Sign"} /\ store[l.k] # NoPass /\ store[l.k] = l.p
    \/ l.op = "ImportArm" /\ l.a.p = l.p /\ store[l.a.k] = NoPass

StepProp ==
    LET l == last' IN
    \* a wrong passphrase never yields a key (no successful result) and never deletes or alters one
    /\ WrongPass(l) => l.res.class # "ok" /\ store' = store /\ arm' = arm /\ known' = known
    \* no failed call leaves a trace
    /\ l.res.class # "ok" => store' = store /\ arm' = arm /\ known' = known /\ cb' = cb
    \* the right passphrase works
    /\ RightPass(l) => l.res.class = "ok"
    \* a call touches only the key it names
    /\ \A k \in Keys : store'[k] # store[k] => k = l.k
    \* an import never overwrites a key that is in the store - of either type, whatever the passphrases
    /\ (l.op \in {"ImportArm", "ImportObj"} /\ store[l.k] # NoPass) => l.res.class # "ok" /\ store' = store
    \* created / imported keys are listed and usable under the encryption passphrase given
    /\ (l.op \in {"Create", "ImportObj"} /\ l.res.class = "ok") => store'[l.k] = l.p
    \* importing an export under the right passphrase yields the same key (= the same address)
    /\ (l.op = "ImportArm" /\ l.res.class = "ok") => l.res.key = l.a.k /\ store'[l.a.k] = l.q
    \* Update re-encrypts: afterwards exactly the new passphrase opens the key
    /\ (l.op = "Update" /\ l.res.class = "ok") => store'[l.k] = l.q
    \* an exported armor opens under its encryption passphrase (the empty one included: no other
    \* passphrase is ever substituted) and holds the exported key
    /\ (l.op = "ExportArm" /\ l.res.class = "ok") => Armor(l.k, l.q) \in arm' /\ l.a = Armor(l.k, l.q)
    /\ (l.op = "ArmorRaw" /\ l.res.class = "ok") => Armor(l.k, l.p) \in arm'
    \* Delete removes exactly the named key, and only under its passphrase
    /\ (l.op = "Delete" /\ l.res.class = "ok") => store[l.k] = l.p /\ store'[l.k] = NoPass
    \* signing, exporting and looking up change nothing in the store
    /\ l.op \in {"Sign", "Get", "ExportObj", "ExportArm", "ArmorRaw", "SetCoinbase", "GetCoinbase", "ImportJunk"} => store' = store

StepOK == [][StepProp]_vars

\* raw keys and armors in the client's hands only ever come from successful calls
Inv_KnownFromExports == \A k \in known : k <= NKnown \/ k \in created
Inv_ArmorsOfKnownKeys == \A a \in arm : a.k <= NKnown \/ a.k \in created

-----------------------------------------------------------------------------
(* Scenario programs: the export / import round trip and the life of a key  *)
(* as CASE TABLES.  A program is a list of calls; a scenario run starts     *)
(* with one program of the table (InitProg) and performs its calls in       *)
(* order with the actions above (NextProg), so the results, List() and the  *)
(* store after every call are those of this specification, StepOK is        *)
(* checked on every step, and the finished run is printed for the replayer. *)
(* k ranges over all keys, i.e. over the three ways a key gets in: raw      *)
(* ed25519 key (ImportObj), armored secp256k1 key (ArmorRaw + ImportArm),   *)
(* generated inside (Create).  All passphrase parameters range over ALL     *)
(* passphrases, the empty one included.                                     *)

\* how key k first enters the keybase and ends up stored under s (x: the passphrase of the foreign armor)
Enter(k, x, s) ==
    IF k \in Secp THEN << Call("ArmorRaw", k, x, NoPass, NoArm), Call("ImportArm", k, x, s, Armor(k, x)) >>
    ELSE IF k <= NKnown THEN << Call("ImportObj", k, s, NoPass, NoArm) >>
    ELSE << Call("Create", k, s, NoPass, NoArm) >>
\* the same key offered again while it is stored, to be re-encrypted under q: must be refused
ReEnter(k, x, q) ==
    IF k \in Secp THEN << Call("ImportArm", k, x, q, Armor(k, x)) >>
    ELSE IF k <= NKnown THEN << Call("ImportObj", k, q, NoPass, NoArm) >>
    ELSE << >>
EnterPasses(k) == IF k \in Secp THEN Passes ELSE {NoPass}

\* round trip: the key stored under s is exported under ep; the export is offered back with decrypt
\* passphrase dp / encrypt passphrase q while the key is still there (refused, nothing changes, the owner's
\* passphrase still signs), the key is deleted, the export is imported (works iff dp = ep; then exactly q opens it)
RoundTrip(k, x, s, ep, dp, q) ==
    Enter(k, x, s) \o ReEnter(k, x, q) \o
    << Call("ExportArm", k, s, ep, NoArm),
       Call("ImportArm", k, dp, q, Armor(k, ep)),
       Call("Sign", k, s, NoPass, NoArm),
       Call("Delete", k, s, NoPass, NoArm),
       Call("ImportArm", k, dp, q, Armor(k, ep)),
       Call("Sign", k, q, NoPass, NoArm),
       Call("Sign", k, s, NoPass, NoArm) >>

\* life of a key: stored under s, re-encrypted under n, every use tried with both passphrases
Life(k, x, s, n) ==
    Enter(k, x, s) \o
    << Call("Get", k, NoPass, NoPass, NoArm),
       Call("Sign", k, n, NoPass, NoArm),
       Call("Update", k, n, s, NoArm),
       Call("Update", k, s, n, NoArm),
       Call("ExportArm", k, s, n, NoArm),
       Call("Sign", k, s, NoPass, NoArm),
       Call("Sign", k, n, NoPass, NoArm),
       Call("ExportObj", k, s, NoPass, NoArm),
       Call("ExportObj", k, n, NoPass, NoArm),
       Call("SetCoinbase", k, NoPass, NoPass, NoArm),
       Call("Delete", k, s, NoPass, NoArm),
       Call("Delete", k, n, NoPass, NoArm),
       Call("Get", k, NoPass, NoPass, NoArm) >>

Programs ==
    { [tag |-> <<"RoundTrip", k, x, s, ep, dp, q>>, calls |-> RoundTrip(k, x, s, ep, dp, q)] :
          k \in Keys, x \in Passes \cup {NoPass}, s \in Passes, ep \in Passes, dp \in Passes, q \in Passes }
    \cup
    { [tag |-> <<"Life", k, x, s, n>>, calls |-> Life(k, x, s, n)] :
          k \in Keys, x \in Passes \cup {NoPass}, s \in Passes, n \in Passes }

\* the action a call stands for
Do(c) ==
    CASE c.op = "Create"      -> Create(c.p)
      [] c.op = "ImportObj"   -> ImportObj(c.k, c.p)
      [] c.op = "ArmorRaw"    -> ArmorRaw(c.k, c.p)
      [] c.op = "ImportArm"   -> ImportArm(c.a, c.p, c.q)
      [] c.op = "Update"      -> Update(c.k, c.p, c.q)
      [] c.op = "ExportArm"   -> ExportArm(c.k, c.p, c.q)
      [] c.op = "ExportObj"   -> ExportObj(c.k, c.p)
      [] c.op = "Delete"      -> Delete(c.k, c.p)
      [] c.op = "Sign"        -> Sign(c.k, c.p)
      [] c.op = "Get"         -> Get(c.k)
      [] c.op = "SetCoinbase" -> SetCoinbase(c.k)

InitProg == InitState /\ prog \in { pr \in Programs : pr.tag[3] \in EnterPasses(pr.tag[2]) }
\* a finished run stutters; a program with a call that cannot be made deadlocks (CHECK_DEADLOCK TRUE)
NextProg == IF prog.calls = <<>> THEN UNCHANGED vars ELSE Do(Head(prog.calls))
SpecProg == InitProg /\ [][NextProg]_vars
\* the history of a scenario run records every call of its program (Depth is large enough)
Inv_ProgFits == prog.tag # <<>> => Len(hist) + Len(prog.calls) <= Depth
\* a finished run is printed: the calls with their results, List() and the store after each
PrintProgram == (prog.tag # <<>> /\ prog.calls = <<>>) => PrintT(ToJson([program |-> hist, tag |-> prog.tag]))

\* ---- output for the replayer ----------------------------------------------
\* simulation: print the behaviour when it has reached its length
Behaviour == PrintT(ToJson([behaviour |-> hist]))
PrintAtDepth == Len(hist) = Depth => Behaviour
\* every generated transition with its label (exhaustive run): evaluated once per successor
PrintEdge == PrintT(ToJson([pre |-> [s |-> store, a |-> arm, kn |-> known, cb |-> cb],
                            l |-> last', list |-> { k \in Keys : store'[k] # NoPass }]))

\* simulation only (ACTION_CONSTRAINT): of the many calls that fail with "not found" or on a junk armor keep
\* one representative per operation and key, so that random walks spend their steps on stored keys
SimBias ==
    LET l == last' IN
    (l.res.class \in {"notfound", "badarmor"}) => (l.p \in {"e", NoPass} /\ l.q \in {"e", NoPass})

View == state
=============================================================================
