-------------------------- MODULE Trace_MultiStore --------------------------
(***************************************************************************)
(* Trace validation (code -> spec) for MultiStore: `storedrv record` runs   *)
(* seeded random histories on the real rootmulti/iavl/transient stores and  *)
(* logs one event per call / per durable write of a Commit; this module     *)
(* replays the log through the actions of MultiStore.  State-changing       *)
(* events must be enabled spec actions (otherwise the trace is rejected at  *)
(* that line); every logged result is compared with what the spec computes  *)
(* and with the property predicates, mismatches are collected in `bad`      *)
(* (line, kind) and printed at the end.  Tokens are the real store hashes.  *)
(***************************************************************************)
EXTENDS MultiStore

Trace == ndJsonDeserialize("trace.ndjson")

VARIABLES l, bad, mh   \* line, mismatches, multistore hash reported by the Commit of each version
tvars == <<vars, l, bad, mh>>

Ev == Trace[l]
Is(a) == l <= Len(Trace) /\ Ev.a = a
Step == l' = l + 1

(* checks: a sequence of <<holds, kind>>; the failed ones are appended to bad *)
RECURSIVE Failed(_, _)
Failed(cs, line) == IF cs = <<>> THEN <<>>
                    ELSE (IF Head(cs)[1] THEN <<>> ELSE <<[line |-> line, kind |-> Head(cs)[2]]>>)
                         \o Failed(Tail(cs), line)
Checks(cs) == bad' = bad \o Failed(cs, l)

SameMap(a, b) == DOMAIN a = DOMAIN b /\ \A k \in DOMAIN a : a[k] = b[k]
SameStores(a, b) == \A s \in Stores : SameMap(a[s], b[s])
AsSet(seq) == {seq[i] : i \in DOMAIN seq}

TraceInit ==
    /\ Init
    /\ l = 1 /\ bad = <<>> /\ mh = [v \in {} |-> ""]

TraceReset ==
    /\ Is("reset") /\ Step /\ bad' = bad /\ mh' = [v \in {} |-> ""]
    (* the options of the history: the pair handed to the store, or - when the history was configured
       with a strategy string - what the TRANSCRIPTION of NewPruningOptionsFromString makes of it
       (the real store got its options from the real function; Ev.kr / Ev.ke then only say what
       that returned) *)
    /\ strat' = Ev.strat
    /\ kr' = IF Ev.strat = NoStrategy THEN Ev.kr ELSE StrategyOpts(Ev.strat)[1]
    /\ ke' = IF Ev.strat = NoStrategy THEN Ev.ke ELSE StrategyOpts(Ev.strat)[2]
    /\ spal' = Ev.spal
    /\ PrintT(<<"CONF", ToJson([line |-> l, strat |-> Ev.strat, kr |-> kr', ke |-> ke',
                                same |-> (kr' = Ev.kr /\ ke' = Ev.ke)])>>)
    /\ disk' = [s \in Stores |-> [v \in {} |-> 0]]
    /\ cinfo' = [v \in {} |-> 0]
    /\ latest' = 0
    /\ up' = FALSE /\ bricked' = FALSE
    /\ VolatileReset
    /\ blocks' = <<>> /\ committed' = <<>> /\ block' = <<>> /\ started' = FALSE /\ todo' = <<>>
    /\ crashes' = 0 /\ dirty' = FALSE /\ budget' = MaxWrites /\ cplan' = {} /\ lleft' = 0
    /\ hist' = <<>> /\ fin' = FALSE

TraceOpen ==
    /\ Is("open") /\ Step /\ mh' = mh
    /\ Reopen
    /\ Checks(<< <<Ev.ok = up', "reopen-fails">>,
                 <<(Ev.ok /\ up') => Ev.ver = hver', "reopen-wrong-version">>,
                 <<(Ev.ok /\ up') => SameStores(Ev.stores, work'), "reopen-wrong-content">>,
                 <<(Ev.ok /\ up') => SameMap(Ev.trans, trans'), "transient-not-empty-after-reopen">>,
                 <<(Ev.ok /\ up' /\ Ev.ver \in DOMAIN mh) => Ev.hash = mh[Ev.ver], "reopen-hash-differs-from-commit">> >>)

TraceWrite ==
    /\ Is("write") /\ Step /\ mh' = mh
    /\ Write(Op(Ev.s, Ev.k, Ev.v, Ev.del))
    /\ Checks(<< <<SameStores(Ev.stores, work'), "working-content-differs">>,
                 <<SameMap(Ev.trans, trans'), "transient-content-differs">> >>)

TraceCommitStart ==
    /\ Is("commitstart") /\ Step /\ mh' = mh /\ bad' = bad
    /\ CommitStart

TraceSave ==
    /\ Is("save") /\ Step /\ mh' = mh
    /\ CommitSave(Ev.s, Ev.tok)
    /\ Checks(<< <<~bricked', "save-conflict">>,
                 <<tver'[Ev.s] = Ev.v, "save-wrong-iavl-version">>,
                 <<Ev.wrote = (disk' # disk), "model:save-write-differs">> >>)

TracePrune ==
    /\ Is("prune") /\ Step /\ mh' = mh
    /\ CommitPrune(Ev.s)
    /\ Checks(<< <<ToRelease(Ev.s) = Ev.v, "prune-rule-differs">> >>)

TraceTCommit ==
    /\ Is("tcommit") /\ Step /\ mh' = mh /\ bad' = bad
    /\ CommitTransient

TraceFlush ==
    /\ Is("flush") /\ Step
    /\ CommitFlush
    /\ mh' = Extend(mh, Ev.ver, Ev.hash)
    /\ Checks(<< <<hver' = Ev.ver, "version-step">>,
                 <<SameStores(Ev.stores, work'), "commit-changes-content">>,
                 <<SameMap(Ev.trans, trans') /\ DOMAIN Ev.trans = {}, "transient-not-empty-after-commit">>,
                 <<Ev.nops = 2, "flush-not-atomic">> >>)

(* observations: the state does not change *)
TraceLoad ==
    /\ Is("load") /\ Step /\ mh' = mh /\ UNCHANGED vars
    /\ LET r == LoadObs(Ev.v) w == ViewObs(Ev.v)
           ret == Ev.v \in 1..hver /\ Retained(Ev.v, hver) IN
       Checks(<< (* the property *)
                 <<(ret /\ ~dirty) => Ev.ok, "retained-version-unreadable">>,
                 <<(~ret /\ ~dirty) => ~Ev.ok, "pruned-version-readable">>,
                 <<Ev.ok => (Ev.v <= Len(committed) /\ SameStores(Ev.stores, committed[Ev.v]) /\ Ev.ver = Ev.v),
                   "loaded-version-wrong-content">>,
                 <<(Ev.ok /\ Ev.v \in DOMAIN mh) => Ev.hash = mh[Ev.v], "loaded-version-hash-differs-from-commit">>,
                 <<(ret /\ ~dirty) => Ev.vok, "retained-version-unreadable-live">>,
                 <<Ev.vok => (Ev.v <= Len(committed) /\ SameStores(Ev.vstores, committed[Ev.v])),
                   "versioned-view-wrong-content">>,
                 (* conformance with the implementation-shaped operators *)
                 <<r.ok = Ev.ok, "model:load-outcome-differs">>,
                 <<w.ok = Ev.vok, "model:view-outcome-differs">> >>)

TraceQuery ==
    /\ Is("query") /\ Step /\ mh' = mh /\ UNCHANGED vars
    /\ LET r == IF Ev.via = "app" THEN QueryApp(Ev.s, Ev.k, Ev.h, Ev.p) ELSE QueryMS(Ev.s, Ev.k, Ev.h, Ev.p)
           ver == IF r.proof THEN {v \in DOMAIN cinfo : Verifies(Ev.s, r, MsTok(cinfo[v]))} ELSE {}
           got == AsSet(Ev.verifies)
           hq == IF Ev.h = 0 /\ Ev.via = "app" THEN hver ELSE Ev.h IN
       Checks(<< <<r.err = Ev.err, "query-error-differs">>,
                 <<(~r.err /\ ~Ev.err) => r.height = Ev.height, "query-wrong-height">>,
                 <<(~r.err /\ ~Ev.err) => r.value = Ev.value, "query-wrong-value">>,
                 <<(~r.err /\ ~Ev.err) => r.proof = Ev.proof, "query-proof-presence-differs">>,
                 (* the property, directly on the logged answer *)
                 <<(~Ev.err /\ (Ev.value # "<nil>" \/ Ev.proof) /\ ~dirty) =>
                       (Ev.height \in 1..hver /\ Ev.value = CommittedVal(Ev.height, Ev.s, Ev.k)),
                   "query-not-the-committed-value">>,
                 <<((hq > hver \/ (hq # 0 /\ ~Retained(hq, hver))) /\ ~dirty) => (Ev.value = "<nil>" /\ ~Ev.proof),
                   "query-data-for-pruned-or-future-height">>,
                 <<Ev.proof => Ev.height \in got, "proof-does-not-verify-at-its-height">>,
                 <<Ev.proof => (Ev.height \in DOMAIN mh /\ \A v \in got : v \in DOMAIN mh /\ mh[v] = mh[Ev.height]), "proof-verifies-wrong-height">>,
                 <<(Ev.proof /\ r.proof) => got = ver, "model:verifying-heights-differ">>,
                 <<Ev.proof => Len(Ev.forged) = 0, "proof-proves-something-else">> >>)

(* "/subspace" query: the state does not change.  Ev.kv: the returned pairs as a map, Ev.n: how
   many pairs the list had, Ev.sorted: strictly ascending in the real byte order *)
TraceSubspace ==
    /\ Is("subspace") /\ Step /\ mh' = mh /\ UNCHANGED vars
    /\ LET r == SubspaceMS(Ev.s, Ev.p)
           c == ContentAt(hver)[Ev.s]
           want == Restrict(c, {k \in DOMAIN c : HasPrefix(k, Ev.p)}) IN
       Checks(<< (* the property, directly on the logged answer *)
                 <<(~dirty /\ ~rolled /\ hver >= 1) => (Ev.ok /\ SameMap(Ev.kv, want)), "subspace-not-the-committed-pairs">>,
                 <<Ev.ok => (Ev.sorted /\ Ev.n = Cardinality(DOMAIN Ev.kv)), "subspace-not-in-key-order">>,
                 (* conformance with the implementation-shaped operator *)
                 <<r.ok = Ev.ok, "model:subspace-answered-differs">>,
                 <<(r.ok /\ Ev.ok) => SameMap(Ev.kv, r.kv), "model:subspace-result-differs">> >>)

(* LoadVersion(v) on the live handle; the event carries the handle's state before (p...) and after *)
TraceLiveLoad ==
    /\ Is("liveload") /\ Step /\ mh' = mh
    /\ LiveLoad(Ev.v)
    /\ LET r == LoadMS(Ev.v)
           ret == Ev.v \in 1..latest /\ Retained(Ev.v, latest)
           agree == r.ok = Ev.ok IN
       Checks(<< (* the property *)
                 <<(ret /\ ~dirty) => Ev.ok, "retained-version-unreadable">>,
                 <<(~ret /\ ~dirty) => ~Ev.ok, "pruned-version-readable">>,
                 <<~Ev.ok => (Ev.ver = Ev.pver /\ Ev.hash = Ev.phash /\ SameStores(Ev.stores, Ev.pstores)
                              /\ SameMap(Ev.trans, Ev.ptrans)), "failed-load-changes-handle">>,
                 <<Ev.ok => Ev.ver = Ev.v, "live-load-wrong-version">>,
                 <<Ev.ok => (Ev.v <= Len(committed) /\ SameStores(Ev.stores, committed[Ev.v]) /\ DOMAIN Ev.trans = {}),
                   "live-load-wrong-content">>,
                 <<(Ev.ok /\ Ev.v \in DOMAIN mh) => Ev.hash = mh[Ev.v], "live-load-hash-differs-from-commit">>,
                 (* conformance with the implementation-shaped operators *)
                 <<agree, "model:load-outcome-differs">>,
                 <<agree => (Ev.ver = hver' /\ SameStores(Ev.stores, work') /\ SameMap(Ev.trans, trans')),
                   "model:live-load-state-differs">> >>)

(* a durable write of Commit that is none of the protocol's (logged for the write-log checks of
   C13), or a query that panicked (judged outside: `query-panics`): no step of the model, the state
   does not change *)
TraceOther ==
    /\ (Is("otherwrite") \/ Is("querypanic")) /\ Step /\ mh' = mh /\ bad' = bad /\ UNCHANGED vars

TraceRestart ==
    /\ Is("restart") /\ Step /\ mh' = mh /\ bad' = bad
    /\ Idle /\ Crash

TraceDone ==
    /\ l = Len(Trace) + 1 /\ Step /\ mh' = mh /\ bad' = bad /\ UNCHANGED vars
    /\ PrintT(<<"TRACE-END", ToJson([lines |-> Len(Trace), bad |-> bad])>>)

TraceNext ==
    \/ TraceReset \/ TraceOpen \/ TraceWrite \/ TraceCommitStart \/ TraceSave \/ TracePrune
    \/ TraceTCommit \/ TraceFlush \/ TraceLoad \/ TraceQuery \/ TraceSubspace \/ TraceLiveLoad \/ TraceRestart \/ TraceOther
    \/ TraceDone

TraceSpec == TraceInit /\ [][TraceNext]_tvars
=============================================================================
