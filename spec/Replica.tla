------------------------------- MODULE Replica -------------------------------
(***************************************************************************)
(* Replicated, restartable execution (C01).  Replica A (`st`) executes the *)
(* requests Tendermint delivers and thereby defines the shared request log;*)
(* replica B consumes the same log later, may be stopped and reopened      *)
(* after any Commit (its volatile state is dropped and rebuilt from what    *)
(* was committed) and serves read-only CheckTx/Query traffic in between;    *)
(* it may also die INSIDE a block (CrashB): everything since its last       *)
(* Commit is lost, the requests of the interrupted block are delivered to   *)
(* it again and the responses of the second execution are the ones that     *)
(* count.                                                                   *)
(* Sources of nondeterminism the code must neutralise are explicit: the     *)
(* order in which no-longer-staked validators are reported (a Go map is     *)
(* iterated; the code sorts by address) - with "UnsortedGone" in Dev any    *)
(* order may come out and TLC refutes SameOutputs.                          *)
(***************************************************************************)
EXTENDS Posmint

CONSTANTS MaxLag, MaxCrashB
VARIABLES rb,      \* replica B's state
          log,     \* requests delivered so far (defined by A)
          outA, outB,  \* the consensus-relevant outputs of each replica, per request
          cb,      \* what B has durably committed: its state then and how many requests it had answered
          ncr      \* crashes of B so far

\* the persisted part of a state (what a reopened instance recovers; stands for the app hash)
Persisted(s) == [f \in {"bal", "supply", "val", "pidx", "prev", "prevTotal", "uq", "sinfo", "bits",
                         "awardQ", "burnQ", "proposer", "pkrel"} |-> s[f]]

\* the ordered update list of an EndBlock/InitChain: changed validators in power-index order,
\* then the no-longer-staked ones - sorted by address, or in any order under the deviation
Orderings(S) == {q \in [1..Cardinality(S) -> S] : \A i, j \in 1..Cardinality(S) : i # j => q[i] # q[j]}
Sorted(q, Before(_, _)) == \A i, j \in 1..Len(q) : i < j => Before(q[i], q[j])
UpdLists(s) ==
  LET live == {u \in s.lastUpd : u[2] > 0}
      gone == {u \in s.lastUpd : u[2] = 0}
      ls == {q \in Orderings(live) : Sorted(q, LAMBDA e, f : RankBefore(<<e[2], e[1]>>, <<f[2], f[1]>>))}
      gs == IF "UnsortedGone" \in Dev THEN Orderings(gone)
            ELSE {q \in Orderings(gone) : Sorted(q, LAMBDA e, f : e[1] < f[1])}
  IN {l \o g : l \in ls, g \in gs}

Outs(s, a) ==
  IF a.a \in {"EndBlock", "InitChain"}
  THEN {[res |-> s.lastRes, upd |-> u, halt |-> s.halt, hash |-> << >>] : u \in UpdLists(s)}
  ELSE {[res |-> s.lastRes, upd |-> << >>, halt |-> s.halt, hash |-> IF a.a = "Commit" THEN Persisted(s) ELSE << >>]}

\* what a stop-and-reopen loses: everything volatile
Reopen(s) == [s EXCEPT !.ntx = 0, !.next = 0, !.nro = 0, !.lastRes = "n/a", !.jailedNow = {}, !.slashLog = << >>, !.lastUpd = {}]

RInit == /\ st = PreGenesis /\ rb = PreGenesis /\ log = << >> /\ outA = << >> /\ outB = << >>
         /\ cb = [ok |-> FALSE, s |-> PreGenesis, n |-> 0] /\ ncr = 0

Lead == /\ Len(log) - Len(outB) < MaxLag
        /\ \E a \in Acts(st) : LET s2 == Step(st, a) IN
             \E o \in Outs(s2, a) :
               /\ st' = s2 /\ log' = Append(log, a) /\ outA' = Append(outA, o)
               /\ UNCHANGED <<rb, outB, cb, ncr>>
Follow == /\ Len(outB) < Len(log)
          /\ LET a == log[Len(outB) + 1]  s2 == Step(rb, a) IN
               /\ \E o \in Outs(s2, a) : rb' = s2 /\ outB' = Append(outB, o)
               /\ cb' = IF a.a = "Commit" THEN [ok |-> TRUE, s |-> s2, n |-> Len(outB) + 1] ELSE cb
          /\ UNCHANGED <<st, log, outA, ncr>>
Restart == /\ rb.phase = "committed" /\ rb.lastRes # "reopened"
           /\ rb' = [Reopen(rb) EXCEPT !.lastRes = "reopened"]
           /\ UNCHANGED <<st, log, outA, outB, cb, ncr>>
ReadOnlyB == /\ rb.nro < 1 /\ rb.phase # "init"
             /\ rb' = [rb EXCEPT !.nro = @ + 1]
             /\ UNCHANGED <<st, log, outA, outB, cb, ncr>>
\* B dies inside a block: it comes back with exactly what it had committed and is handed the
\* requests after that Commit again (its earlier answers to them never counted)
CrashB == /\ cb.ok /\ ncr < MaxCrashB /\ rb.phase \in {"begun", "ended"}
          /\ rb' = Reopen(cb.s) /\ outB' = SubSeq(outB, 1, cb.n) /\ ncr' = ncr + 1
          /\ UNCHANGED <<st, log, outA, cb>>

RNext == Lead \/ Follow \/ Restart \/ ReadOnlyB \/ CrashB
RSpec == RInit /\ [][RNext]_<<st, rb, log, outA, outB, cb, ncr>>

Norm(o) == [o EXCEPT !.res = IF @ = "reopened" THEN "n/a" ELSE @]
SameOutputs == \A k \in 1..Len(outB) : Norm(outA[k]) = Norm(outB[k])
SameState == Len(outB) = Len(log) => Persisted(st) = Persisted(rb)
=============================================================================
