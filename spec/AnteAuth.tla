------------------------------ MODULE AnteAuth ------------------------------
(***************************************************************************)
(* Who can authorise a transaction (C03): a decision model of              *)
(* x/auth/ante.go ValidateTransaction + DeductFees over the complete       *)
(* cross product of message types, key types, who signed and how, where    *)
(* the public key comes from, single-field mutations after signing, fee    *)
(* and balance levels, fee-multiplier settings and replays.                *)
(* Accepts(c) transcribes the code (guards in the code's order);           *)
(* Authorised(c) is the property's definition.                             *)
(***************************************************************************)
EXTENDS Integers, FiniteSets, TLC, Json

CONSTANTS Dev,      \* named deviations of the code: "NoSignerCheck", "MultisigFeeSkip"
          SigLimit, \* auth/TxSigLimit
          MsgSel, KeySel, MutSel   \* the part of the table to enumerate (all of it in the thorough tier)

MsgKinds == {"stake", "unstake", "unjail", "send", "changeparam", "upgrade", "daotransfer"}
\* msmax: the largest flat multisig TxSigLimit allows; msbig: one sub-key more
KeyTypes == {"ed", "secp", "ms2", "msn", "msmax", "msbig"}
IsMulti(k) == k \in {"ms2", "msn", "msmax", "msbig"}
\* number of keys recSignDepth counts (a nested multisig key counts itself and its sub-keys)
SubKeys(k) == CASE k = "ms2" -> 2 [] k = "msn" -> 4 [] k = "msmax" -> SigLimit - 1 [] k = "msbig" -> SigLimit [] OTHER -> 1

\* who produced the signature and how
Whos(k) == {"own", "other"} \cup (IF IsMulti(k) THEN {"ms_missing", "ms_swapped", "ms_onebad", "ms_dup"} ELSE {})
\* where the verifying public key comes from
PkSrcs == {"sig_signer",   \* in the signature: the public key of whoever signed
           "sig_own",      \* in the signature: the declared signer's own public key
           "state",        \* not in the signature: looked up from the signer's account
           "state_nokey",  \* not in the signature, and the signer's account has no public key
           "state_foreign"} \* not in the signature; the signer's account (e.g. from a genesis file) carries ANOTHER key
Muts == {"none", "chain", "msg", "fee", "memo", "entropy", "sig"}

\* fx: the fee is the stake denomination only ("plain"), or carries an additional coin of another
\*     denomination that the signer holds ("extra"), or consists ONLY of the other denomination ("foreign")
\* rp: the transaction is new ("no"), or the tx index already holds it with a successful result
\*     ("ok") or with a failed one ("failed": its handler failed after the fee had been charged)
Cases == {[msg |-> m, ktype |-> k, who |-> w, pksrc |-> p, mut |-> u, feeD |-> f, balD |-> b, mult |-> x, rp |-> r, fx |-> y] :
            m \in MsgSel, k \in KeySel, w \in {"own", "other", "ms_missing", "ms_swapped", "ms_onebad", "ms_dup"},
            p \in PkSrcs, u \in MutSel, f \in {-1, 0, 1}, b \in {-1, 0, 1}, x \in {1, 2}, r \in {"no", "ok", "failed"},
            y \in {"plain", "extra", "foreign"}}
WellFormed(c) == c.who \in Whos(c.ktype) /\ (c.fx = "foreign" => c.feeD = -1)
Replayed(c) == c.rp # "no"
\* does the fee cover the requirement in the stake denomination? (a foreign-only fee pays nothing of it)
FeeCovers(c) == c.feeD >= 0 /\ c.fx # "foreign"

\* the property's definition: the signature is by the declared signer's own key(s), every listed
\* key in its own position, over exactly the content that was submitted
Authorised(c) == c.who = "own" /\ c.mut = "none"

\* the public key the ante handler ends up verifying against: "own", "attacker" or "none"
PkUsed(c) == CASE c.pksrc = "sig_signer" -> (IF c.who = "other" THEN "attacker" ELSE "own")
               [] c.pksrc = "sig_own" -> "own"
               [] c.pksrc = "state" -> "own"
               [] c.pksrc = "state_nokey" -> "none"
               [] c.pksrc = "state_foreign" -> "attacker"

\* does the signature verify under PkUsed over the submitted bytes?
Verifies(c) ==
  /\ c.mut = "none"
  /\ \/ (PkUsed(c) = "own" /\ c.who = "own")
     \/ (PkUsed(c) = "attacker" /\ c.who = "other")

\* x/auth/ante.go, guards in order
Accepts(c) ==
  /\ PkUsed(c) # "none"                                              \* ErrEmptyPublicKey
  /\ ("NoSignerCheck" \in Dev \/ PkUsed(c) = "own")                  \* public key must be the declared signer's
  /\ ~Replayed(c)                                                    \* ErrDuplicateTx
  /\ (FeeCovers(c) \/ ("MultisigFeeSkip" \in Dev /\ IsMulti(c.ktype)))  \* ErrInsufficientFee
  /\ (IsMulti(c.ktype) => SubKeys(c.ktype) + 1 <= SigLimit)          \* ErrTooManySignatures (recSignDepth counts from 1)
  /\ Verifies(c)                                                     \* signature verification
  /\ c.balD >= 0                                                     \* DeductFees: ErrInsufficientBalance

\* C03
OnlySignerAuthorises(c) == Accepts(c) => Authorised(c)
PaysRequiredFee(c)      == Accepts(c) => FeeCovers(c)
NoReplay(c)             == Accepts(c) => ~Replayed(c)

VARIABLE c
Init == c \in {x \in Cases : WellFormed(x)}
Next == UNCHANGED c
Spec == Init /\ [][Next]_c

Inv_C03 == OnlySignerAuthorises(c) /\ PaysRequiredFee(c) /\ NoReplay(c)
\* prints every case with the specification's verdicts (the decision table replayed on the real code)
EmitCase == PrintT(<< "CASE", ToJson([case |-> c, accepts |-> Accepts(c), authorised |-> Authorised(c)]) >>)
=============================================================================
