\* labelled state graph: 2 keys (one a prefix of the other), 1 wrapper, 1 open iterator interleaved with writes, every range
SPECIFICATION ASpec
CONSTANTS
  Keys <- K2
  Bounds <- B2
  OpenRanges <- OR2
  BaseInit <- BaseA
  SetVals <- ValById
  MaxW = 1
  MaxDepth = 1
  MaxIt = 1
  BaseOps = TRUE
VIEW AView
INVARIANTS TypeOK Inv_IterationIsView Inv_ReadsAreView
PROPERTY AProp
ACTION_CONSTRAINT EdgeOut
