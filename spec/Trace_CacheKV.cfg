SPECIFICATION TSpec
CONSTANTS
  Keys <- TraceKeys
  Bounds <- B2
  OpenRanges <- OR1
  BaseInit <- BaseA
  SetVals <- AnyVal
  MaxW = 4
  MaxDepth = 8
  MaxIt = 3
  BaseOps = TRUE
INVARIANT Done
CHECK_DEADLOCK FALSE
