\* branch probe (Probe is switched on by the check): same constants as the simulation
SPECIFICATION HSpec
CONSTANTS
  Keys <- K3
  Bounds <- B3
  OpenRanges <- OR3
  BaseInit <- BaseA
  SetVals <- ValTwo
  MaxW = 3
  MaxDepth = 3
  MaxIt = 2
  BaseOps = TRUE
  HistLen = 30
  Probe = TRUE
INVARIANTS TypeOK Inv_Refines Inv_SortedCache Inv_ImplReadsAreView Inv_IterationIsView Inv_ReadsAreView
PROPERTY IProp
CONSTRAINT HistOut
