\* C18 the code as it is, thorough: P = 100
CONSTANTS
    P = 100
    IntBits = 20
    IntMax = 1048575
    UintMax = 2097151
    DecMax = 1073741823
    I64Max = 524287
    U64Max = 1048575
    PR = 100
    R = 260
    RY = 120
    UPrintR = 261
    EdgeMax = 0
    PrintR = 121
    Dev = {"QuoDoubleRounding", "QuoRoundUpTruncFirst", "CeilNoRangeCheck"}
INIT Init
NEXT Next
CHECK_DEADLOCK FALSE
INVARIANTS
    Inv_DecAdd Inv_DecSub Inv_DecMul Inv_DecMulTruncate Inv_DecMulInt Inv_DecQuoTruncate Inv_DecQuoInt
    Inv_DecUnary Inv_Int Inv_Uint Inv_Chop Inv_Unique
    PrintCase
