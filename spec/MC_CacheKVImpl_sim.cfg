\* simulation of the implementation-level spec: nesting depth 3, 3 keys, 2 values per wrapper, 2 open iterators; behaviours printed (HIST) and replayed
SPECIFICATION HSpec
CONSTANTS
  Keys <- K3
  Bounds <- B3
  OpenRanges <- OR3
  BaseInit <- BaseA
  SetVals <- ValTwo
  MaxW = 3
  MaxDepth = 3
  MaxIt = 2
  BaseOps = TRUE
  HistLen = 30
  Probe = FALSE
INVARIANTS TypeOK Inv_Refines Inv_SortedCache Inv_ImplReadsAreView Inv_IterationIsView Inv_ReadsAreView
PROPERTY IProp
CONSTRAINT HistOut
