------------------------------ MODULE Trace_Gov ------------------------------
(* Resynchronising trace monitor for Gov.tla (see Trace_Posmint.tla).        *)
EXTENDS Gov, Json
CONSTANT TraceFile
VARIABLE l
Trace == ndJsonDeserialize(TraceFile)
ObsG == {"bal", "supply", "params", "acl", "aclExtra", "daoOwner"}
RealOf(p) == [bal |-> p.bal, supply |-> p.supply, params |-> p.gov.params, acl |-> p.gov.acl,
              aclExtra |-> p.gov.aclExtra, daoOwner |-> p.gov.daoOwner]
Adopt(pred, r) == [pred EXCEPT !.bal = r.bal, !.supply = r.supply, !.params = r.params, !.acl = r.acl,
                               !.aclExtra = r.aclExtra, !.daoOwner = r.daoOwner]
Failed(q) == {q[i][1] : i \in {j \in 1..Len(q) : ~q[j][2]}}
TraceInit == gs = GInit0 /\ l = 1
TraceNext ==
  /\ l <= Len(Trace)
  /\ l' = l + 1
  /\ LET e == Trace[l]
         a == e.act
         pre == IF a.a = "InitChain" THEN GInit0 ELSE gs
         pred == GStepP(pre, a)
         r == RealOf(e.post)
         post0 == [Adopt(pred, r) EXCEPT !.accex = e.post.accex]
         post == IF a.a = "Tx" THEN [post0 EXCEPT !.lastRes = e.res.class] ELSE post0
         div == {f \in ObsG : pred[f] # r[f]} \cup (IF a.a = "Tx" /\ pred.lastRes # e.res.class THEN {"lastRes"} ELSE {})
                \cup (IF e.res.class = "halt" THEN {"halt"} ELSE {})
         bad == Failed(<< << "C17.ParamChangeOnlyByOwner", a.a = "InitChain" \/ ParamChangeOnlyByOwner(pre, post, a) >>,
                          << "C17.DaoOnlyByOwner", a.a = "InitChain" \/ DaoOnlyByOwner(pre, post, a) >>,
                          << "C17.RejectedChangesNothing", RejectedChangesNothing(pre, post, a) >>,
                          << "C17.SupplyIsSum", a.a = "InitChain" \/ SupplyIsSumG(post) >> >>)
     IN /\ gs' = post
        /\ (IF div # {} \/ bad # {} THEN PrintT("DIV " \o ToJson([l |-> l, b |-> e.b, div |-> div, bad |-> bad, note |-> ""])) ELSE TRUE)
TraceSpec == TraceInit /\ [][TraceNext]_<<gs, l>>
TraceAccepted == TLCGet("stats").diameter - 1 = Len(Trace)
=============================================================================
