\* C18 coin sets, design level (intended meaning: Dev = {}): 3 denominations, amounts 1..3 (0 = absent)
CONSTANTS
    ND = 3
    MaxAmt = 3
    MaxLen = 3
    Dev = {}
INIT Init
NEXT Next
CHECK_DEADLOCK FALSE
INVARIANTS
    Inv_Add Inv_SafeSub Inv_Sub Inv_Inverse Inv_AllGT Inv_AllGTE Inv_AllLT Inv_AllLTE Inv_AnyGT Inv_AnyGTE
    Inv_Equal Inv_Subset Inv_AmountOf Inv_Valid Inv_NewCoins Inv_Order PrintCase
