----------------------------- MODULE MultiStore -----------------------------
(***************************************************************************)
(* rootmulti.Store over N IAVL stores + 1 transient store: working trees,  *)
(* durable IAVL versions, commit infos, latest marker, the commit protocol *)
(* as separate durable writes, pruning, crash, reopen, LoadVersion, Query. *)
(* Properties C12, C13, C14 of /verif/properties.jsonl.                    *)
(*                                                                         *)
(* Implementation shaped.  Transcribed from                                *)
(*   store/rootmulti/store.go  Commit, commitStores, LoadVersion, Query    *)
(*   store/iavl/store.go       Commit (SaveVersion + pruning rule), Query  *)
(*   tendermint/iavl v0.12.4   MutableTree.LoadVersion / SaveVersion /     *)
(*                             DeleteVersion, nodeDB (one batch per call)  *)
(*   store/transient/store.go  Commit                                      *)
(*   baseapp/baseapp.go        handleQueryStore                            *)
(*                                                                         *)
(* Hashes are not modelled.  A store hash is the abstract token "history   *)
(* of the writes applied to that tree, per saved IAVL version"; equal      *)
(* tokens must give equal real hashes, nothing is assumed about unequal    *)
(* ones.  The hash of the multistore is the map store -> store token.      *)
(* In trace-validation mode the tokens are the real store hashes taken     *)
(* from the log (CommitSave takes the token as a parameter).               *)
(*                                                                         *)
(* Named deviations of the code from the crash-safe design (DESIGN 6.3):   *)
(*  "PruneBeforeFlush"    iavl.Store.Commit deletes version               *)
(*        (new-1-keepRecent) right after SaveVersion, i.e. BEFORE the      *)
(*        commit info of the new version is flushed.  With keepRecent = 0  *)
(*        that is the version the latest marker still points to.           *)
(*        Without the switch pruning happens after the flush.              *)
(*  "LoadZeroLoadsLatest" rootmulti.LoadVersion(0) (no commit info yet)    *)
(*        calls iavl LoadVersion(0), which loads the LATEST saved IAVL      *)
(*        version, not the empty version 0.  Without the switch an empty   *)
(*        tree at version 0 is loaded.                                     *)
(* With Dev = {} the C13 invariants hold (MC_MultiStore_C13*.cfg); with    *)
(* the switches on the model does what the code does, the C12 and C14      *)
(* invariants hold (they speak about histories without a crash inside a    *)
(* Commit) and TLC prints the shortest violation of the C13 invariants     *)
(* (MC_MultiStore_C13dev_*.cfg), which the check replays on the real code. *)
(* Not modelled: the content of IAVL proofs.  Verifies() says what a proof *)
(* chain must amount to; whether a returned proof really verifies is       *)
(* decided by the real proof runtime on the real hashes.                   *)
(* Observed on the code and not normative here: after a crash inside       *)
(* Commit the reopened IAVL trees still know the half-committed version    *)
(* n+1, so a non-proof query at height n+1 answers from it (dirty states   *)
(* are excluded from the C14 invariants).                                  *)
(*                                                                         *)
(* LoadVersion on the LIVE handle (action LiveLoad(v), v >= 1): the call   *)
(* is all-or-nothing.  If the target cannot be loaded (no commit info:     *)
(* never committed / in the future; or some sub-store's IAVL version is    *)
(* gone: pruned) it returns an error and NOTHING changes - version, hash,  *)
(* working content including uncommitted writes, transient content, the    *)
(* sub-store trees - so the next Commit produces what it would have        *)
(* produced without the call; the handle keeps being used (writes, Commit, *)
(* queries, reopen).  If the target loads, the handle moves to version v:  *)
(* fresh sub-stores at cinfo[v] (uncommitted writes and the transient      *)
(* content are gone), lastCommitID = commit id of v.  For v = latest this  *)
(* is a reload and the history continues.  For v < latest the handle is    *)
(* `rolled` back: its state (version, hash, content) is specified and      *)
(* compared, and the only continuations modelled are further LoadVersion   *)
(* calls (failing ones leave the rolled handle unchanged too; loading the  *)
(* latest version ends the excursion) and dropping the handle (Crash,      *)
(* Reopen).  EXCLUDED: writes and Commit on a rolled-back handle (a        *)
(* rollback: iavl refuses to overwrite the later versions unless the       *)
(* re-executed block is identical, commit infos of later versions are      *)
(* overwritten - not use of the store the properties speak about), and     *)
(* LoadVersion(0) on a live handle (see "LoadZeroLoadsLatest").            *)
(*                                                                         *)
(* Keys are opaque NAMES here ("a", "ab", "b").  Nothing depends on the     *)
(* bytes a name stands for except the prefix relation between names       *)
(* (HasPrefix, for "/subspace" queries): the drivers map names to bytes     *)
(* letter by letter through a per-program palette of prefix-free images    *)
(* (identity, or images with bytes 0x00 / 0xFE / 0xFF: a first byte 0xFF in *)
(* at least a third of the programs), which is injective and preserves     *)
(* that relation, for IAVL and transient stores alike, and translate back  *)
(* what they report.                                                       *)
(*                                                                         *)
(* The pruning options of a behaviour are either a pair <<keepRecent,      *)
(* keepEvery>> handed to the store directly (strat = NoStrategy) or a      *)
(* STRATEGY STRING as found in a node's configuration, resolved by         *)
(* store.NewPruningOptionsFromString (store/store.go), transcribed in      *)
(* StrategyOpts: the model's (kr, ke) come from the transcription, the     *)
(* real store's from the real function (the driver calls it).              *)
(***************************************************************************)
EXTENDS Integers, Sequences, FiniteSets, TLC, Json

CONSTANTS
    Stores,      \* names of the IAVL stores
    TStore,      \* name of the transient store
    Keys, Vals,  \* keys and values the model writes
    Prunings,    \* set of <<keepRecent, keepEvery>> the run may be configured with
    Strategies,  \* set of pruning strategy strings the run may be configured with instead
    MaxVer,      \* bound: multistore versions
    MaxWrites,   \* bound: writes per block
    MaxCrashes,  \* bound: crashes per behaviour
    Dev,         \* active deviations
    Record,      \* TRUE: keep the history variable (simulation); FALSE: hist stays empty
    HistLen,     \* length at which a recorded behaviour is finished and printed
    CrashPlan,   \* TRUE (recording only): crash exactly at the steps chosen at Init (uniform
                 \* placement for simulation); FALSE: a crash may happen at any step
    CrashKind,   \* "any": crashes may hit a running Commit; "clean": only between commits (restarts)
    ObsKind,     \* which observation tables a recorded behaviour carries: subset of {"loads","queries"}
    TransientFirst, \* TRUE: explore only "transient store commits first" (see CommitSave)
    PrunSel,     \* indices into PruningSeq (a cfg cannot write tuples); Prunings <- PruningsSel
    MaxLoads,    \* bound (recording only): LoadVersion calls on the live handle per block
    LoadScope    \* "any": LoadVersion on the live handle at any idle moment (recording, traces);
                 \* "blockstart": only while the running block has no writes yet (the exhaustive
                 \* configurations: with uncommitted writes the step differs only in keeping them
                 \* (failure) or dropping them (success), by construction of the action), and a
                 \* rolled-back handle only returns to the latest version

AllStores == Stores \cup {TStore}

VARIABLES
    kr, ke,          \* pruning options (chosen at Init)
    strat,           \* the strategy string they were resolved from (NoStrategy: the pair was given)
    spal,            \* the options are given to the store AFTER LoadVersion (SetPruning on the live
                     \* store forwards them to the loaded sub-stores) instead of before it: the rule
                     \* the sub-stores prune by is the same in both orders (varied when recording)
    (* durable *)
    disk,            \* disk[s] : saved IAVL versions of store s: version -> [c, tok]
    cinfo,           \* commit infos: version -> [s \in Stores -> [ver, tok]]
    latest,          \* the "s/latest" marker (0 = absent)
    (* volatile: the live handle *)
    up,              \* a handle exists
    rolled,          \* the live handle was moved to a version older than the latest by LoadVersion
    bricked,         \* reopening failed or Commit panicked: the node cannot come up any more
    hver, htok,      \* rootmulti lastCommitID (version, hash token)
    work,            \* work[s]  : working content of IAVL store s
    wops,            \* wops[s]  : writes applied to the working tree of s since its base version
    tver,            \* tver[s]  : tree.version
    tvers,           \* tvers[s] : tree.versions (in-memory set of versions the tree knows)
    trans,           \* content of the transient store
    pc,              \* pc[s] : commit progress of store s: idle|todo|saved|done|post
    cids,            \* cids[s]: CommitID returned by store s in the running commit
    (* ghost: the reference semantics and the environment *)
    blocks,          \* the blocks decided so far (sequence of sequences of writes)
    committed,       \* committed[v] : reference content after applying blocks 1..v
    block,           \* writes of the running block
    started,         \* the running block's commit has begun (the block is fixed)
    todo,            \* writes still to be re-executed after a crash
    crashes, dirty,  \* number of crashes; some crash hit a running commit
    budget,          \* writes the running block may have (varied only when recording)
    cplan,           \* steps at which the recorded behaviour crashes (CrashPlan)
    lleft,           \* LoadVersion calls on the live handle still to come in this block (recording)
    (* recording *)
    hist, fin

durable  == <<disk, cinfo, latest>>
volatile == <<up, rolled, bricked, hver, htok, work, wops, tver, tvers, trans, pc, cids>>
ghost    == <<blocks, committed, block, started, todo, crashes, dirty, budget, cplan, lleft>>
conf     == <<kr, ke, spal, strat>>
vars     == <<conf, durable, volatile, ghost, hist, fin>>
(* strat is not in the view: two configurations with the same options behave alike *)
view     == <<kr, ke, spal, durable, volatile, ghost>>

-----------------------------------------------------------------------------
(* maps: functions whose domain is the set of present keys *)
EmptyMap == [x \in {} |-> ""]
MapSet(m, k, v) == [x \in DOMAIN m \cup {k} |-> IF x = k THEN v ELSE m[x]]
MapDel(m, k)    == [x \in DOMAIN m \ {k} |-> m[x]]
MapGet(m, k)    == IF k \in DOMAIN m THEN m[k] ELSE "<nil>"
Restrict(f, S)  == [x \in S |-> f[x]]
Extend(f, k, v) == [x \in DOMAIN f \cup {k} |-> IF x = k THEN v ELSE f[x]]
Max(S) == CHOOSE x \in S : \A y \in S : y <= x

Op(s, k, v, del) == [s |-> s, k |-> k, v |-> v, del |-> del]
ApplyOp(m, o) == IF o.del THEN MapDel(m, o.k) ELSE MapSet(m, o.k, o.v)
OpsOf(s, ops) == SelectSeq(ops, LAMBDA o : o.s = s)

RECURSIVE ApplyOps(_, _)
ApplyOps(m, ops) == IF ops = <<>> THEN m ELSE ApplyOps(ApplyOp(m, Head(ops)), Tail(ops))

EmptyAll == [s \in Stores |-> EmptyMap]
ContentAt(v) == IF v = 0 THEN EmptyAll ELSE committed[v]

(* the documented retention policy (store/types/pruning.go, store/iavl/store.go comments):
   with L the latest version, keep L, the keepRecent versions before it, and every
   keepEvery-th version (keepEvery = 0: no waypoints, keepEvery = 1: everything) *)
Retained(v, L) == v = L \/ (v < L /\ L - v <= kr) \/ (ke # 0 /\ v % ke = 0)

(* store.NewPruningOptionsFromString (store/store.go) with the shipped options of
   store/types/pruning.go, transcribed:
     switch strategy { case "nothing": PruneNothing (0, 1)   case "everything": PruneEverything (0, 0)
                       case "syncable": PruneSyncable (100, 10000)   default: PruneSyncable }
   the comparison is exact: the empty string, another capitalisation and unknown words are "default" *)
StrategyOpts(s) ==
    CASE s = "nothing"    -> <<0, 1>>
      [] s = "everything" -> <<0, 0>>
      [] s = "syncable"   -> <<100, 10000>>
      [] OTHER            -> <<100, 10000>>
NoStrategy == "<pair>"
(* the configurations a behaviour may start from: <<strategy string, keepRecent, keepEvery>> *)
Configs == {<<NoStrategy, p[1], p[2]>> : p \in Prunings}
           \cup {<<s, StrategyOpts(s)[1], StrategyOpts(s)[2]>> : s \in Strategies}

-----------------------------------------------------------------------------
(* tokens *)
BaseTok(s) == IF tver[s] = 0 THEN <<>> ELSE disk[s][tver[s]].tok
(* token of the version SaveVersion would write now; Trace_MultiStore overrides it *)
ModelTok(s) == Append(BaseTok(s), wops[s])
MsTok(ci) == [s \in Stores |-> ci[s].tok]
NoTok == [s \in Stores |-> <<>>]
IdealTok(s, v) == [i \in 1..v |-> OpsOf(s, blocks[i])]
IdealMsTok(v) == [s \in Stores |-> IdealTok(s, v)]

-----------------------------------------------------------------------------
(* iavl MutableTree.LoadVersion(target), non lazy: every root on disk becomes a known version *)
LoadTree(s, target) ==
    LET roots == DOMAIN disk[s] IN
    IF roots = {} THEN [ok |-> TRUE, ver |-> 0, vers |-> {}]
    ELSE IF target = 0 /\ "LoadZeroLoadsLatest" \notin Dev
         THEN [ok |-> TRUE, ver |-> 0, vers |-> roots]
    ELSE LET cand == {v \in roots : target = 0 \/ v <= target}
             lv   == IF cand = {} THEN 0 ELSE Max(cand) IN
         IF target # 0 /\ lv # target THEN [ok |-> FALSE, ver |-> lv, vers |-> {}]
         ELSE [ok |-> TRUE, ver |-> lv, vers |-> roots]

TreeContent(s, v) == IF v = 0 THEN EmptyMap ELSE disk[s][v].c

(* rootmulti.Store.LoadVersion(ver) on a fresh handle *)
LoadMS(ver) ==
    IF ver = 0 THEN
        LET t == [s \in Stores |-> LoadTree(s, 0)] IN
        [ok |-> TRUE, ver |-> 0, tok |-> NoTok, trees |-> t,
         c |-> [s \in Stores |-> TreeContent(s, t[s].ver)]]
    ELSE IF ver \notin DOMAIN cinfo THEN [ok |-> FALSE]
    ELSE LET t == [s \in Stores |-> LoadTree(s, cinfo[ver][s].ver)] IN
         IF \E s \in Stores : ~t[s].ok THEN [ok |-> FALSE]
         ELSE [ok |-> TRUE, ver |-> ver, tok |-> MsTok(cinfo[ver]), trees |-> t,
               c |-> [s \in Stores |-> TreeContent(s, t[s].ver)]]

(* what an observer of LoadVersion sees *)
LoadObs(v) == LET r == LoadMS(v) IN
    IF r.ok THEN [ok |-> TRUE, ver |-> r.ver, tok |-> r.tok, stores |-> r.c] ELSE [ok |-> FALSE]

(* CacheMultiStoreWithVersion(v) on the live handle: GetImmutable(v) of every IAVL store *)
ViewObs(v) ==
    IF \A s \in Stores : v \in tvers[s] /\ v \in DOMAIN disk[s]
    THEN [ok |-> TRUE, stores |-> [s \in Stores |-> disk[s][v].c]] ELSE [ok |-> FALSE]

-----------------------------------------------------------------------------
(* Query, transcribed: iavl.Store.Query + getHeight, then rootmulti.Store.Query *)
EffHeight(s, h) == IF h # 0 THEN h ELSE IF (tver[s] - 1) \in tvers[s] THEN tver[s] - 1 ELSE tver[s]

QueryMS(s, k, h, prove) ==
    LET eh == EffHeight(s, h) IN
    IF eh \notin tvers[s] THEN
        (* iavl: log "version does not exist", no value, no proof; rootmulti with prove: error *)
        IF prove THEN [err |-> TRUE, value |-> "<nil>", proof |-> FALSE, height |-> 0]
        ELSE [err |-> FALSE, value |-> "<nil>", proof |-> FALSE, height |-> eh]
    ELSE LET val == MapGet(disk[s][eh].c, k) IN
         IF ~prove THEN [err |-> FALSE, value |-> val, proof |-> FALSE, height |-> eh]
         ELSE IF eh \notin DOMAIN cinfo
              THEN [err |-> TRUE, value |-> "<nil>", proof |-> FALSE, height |-> 0]
              ELSE [err |-> FALSE, value |-> val, proof |-> TRUE, height |-> eh,
                    (* the proof chain: iavl proof of (k,val) in the tree saved as IAVL version eh,
                       multistore op built from the commit info of multistore version eh *)
                    ptree |-> disk[s][eh].tok, pinfo |-> cinfo[eh]]

(* iavl.Store.Query "/subspace" (rootmulti.Store.Query routes it; no proof is required for this
   path): the pairs of the LATEST COMMITTED version of the tree - tree.GetImmutable(tree.Version()),
   never the working tree with the uncommitted writes of the running block - whose key has the
   prefix, in key order; the requested height is ignored (the repository's TestIAVLStoreQuery pins
   that).  The answer is a map here; that the real list is in key order and duplicate free is
   checked where the real answer is seen.  baseapp.handleQueryStore in front of it only replaces
   height 0 (which is ignored anyway). *)
HasPrefix(k, p) == Len(p) <= Len(k) /\ SubSeq(k, 1, Len(p)) = p
SubspaceMS(s, p) ==
    IF tver[s] \notin DOMAIN disk[s]
    THEN [ok |-> FALSE, kv |-> EmptyMap]     \* ErrVersionDoesNotExist (nothing saved yet): no answer
    ELSE LET c == disk[s][tver[s]].c IN
         [ok |-> TRUE, kv |-> Restrict(c, {k \in DOMAIN c : HasPrefix(k, p)})]

(* the real verifier is the oracle; this is what the chain must amount to *)
Verifies(s, r, root) == r.proof /\ r.pinfo[s].tok = r.ptree /\ MsTok(r.pinfo) = root

(* baseapp.handleQueryStore in front of it *)
QueryApp(s, k, h, prove) ==
    LET rh == IF h = 0 THEN hver ELSE h IN
    IF rh <= 1 /\ prove THEN [err |-> TRUE, value |-> "<nil>", proof |-> FALSE, height |-> 0]
    ELSE LET r == QueryMS(s, k, rh, prove) IN
         IF r.err THEN r ELSE [r EXCEPT !.height = rh]

-----------------------------------------------------------------------------
Idle == \A s \in AllStores : pc[s] = "idle"
Obs == [ver |-> hver, tok |-> htok, stores |-> work, trans |-> trans]
ObsW == [ver |-> hver, stores |-> work, trans |-> trans]

(* everything an observer can ask for in the current state (recorded behaviours only):
   LoadVersion(v) on a fresh handle and CacheMultiStoreWithVersion(v) on the live one for every
   v up to one beyond the newest, and every query *)
QEntry(via, s, k, h, p) ==
    LET r == IF via = "app" THEN QueryApp(s, k, h, p) ELSE QueryMS(s, k, h, p) IN
    (* <<via, store, key, height, prove,  err, value, proof, height', heights it verifies against>> *)
    <<via, s, k, h, p, r.err, r.value, r.proof, r.height,
      IF r.proof THEN {v \in DOMAIN cinfo : Verifies(s, r, MsTok(cinfo[v]))} ELSE {}>>
(* prefixes asked: every key (a prefix equal to a whole key; "a" has its successor "b" stored) and
   one nobody has *)
QPrefixes == Keys \cup {"c"}
SEntry(via, s, p, h) ==
    LET r == SubspaceMS(s, p) IN <<via, s, p, h, r.ok, r.kv>>
FullObs ==
    LET top == Len(committed) + 1 IN
    [loads |-> IF "loads" \notin ObsKind THEN <<>> ELSE
                [i \in 1..top |->
                   [v |-> i, load |-> LoadObs(i), view |-> ViewObs(i),
                    retained |-> (i \in 1..hver /\ Retained(i, hver))]],
     queries |-> IF "queries" \notin ObsKind THEN {} ELSE
                {QEntry(via, s, k, h, p) : via \in {"ms", "app"}, s \in Stores, k \in Keys,
                                           h \in 0..top, p \in BOOLEAN},
     subs |-> IF "queries" \notin ObsKind THEN {} ELSE
                {SEntry(via, s, p, h) : via \in {"ms", "app"}, s \in Stores, p \in QPrefixes,
                                        h \in {0, 1, hver, top}},
     clean |-> ~dirty]

Rec(e) == /\ hist' = IF Record THEN Append(hist, e) ELSE hist
          /\ fin' = fin
Running == ~fin /\ (~Record \/ Len(hist) < HistLen)
MustCrash == CrashPlan /\ up /\ (Len(hist) + 1) \in cplan /\ (CrashKind = "clean" => Idle)
Go == Running /\ ~MustCrash
BudgetSet == IF Record THEN 0..MaxWrites ELSE {MaxWrites}
(* recording: the number of LoadVersion calls of a block is 0 in a good half of the blocks *)
LoadSet == IF Record THEN 0..(2 * MaxLoads) ELSE {0}
LoadsOf(x) == IF x > MaxLoads THEN 0 ELSE x
CrashPlans ==
    IF ~CrashPlan \/ MaxCrashes = 0 THEN {{}}
    ELSE IF MaxCrashes = 1 THEN {{}} \cup {{a} : a \in 2..HistLen}
    ELSE {{}} \cup {{a, b} : a \in 2..HistLen, b \in 2..HistLen}

Init ==
    /\ \E c \in Configs : strat = c[1] /\ kr = c[2] /\ ke = c[3]
    /\ spal \in (IF Record THEN BOOLEAN ELSE {FALSE})
    /\ disk = [s \in Stores |-> [v \in {} |-> 0]]
    /\ cinfo = [v \in {} |-> 0]
    /\ latest = 0
    /\ up = FALSE /\ bricked = FALSE /\ rolled = FALSE
    /\ hver = 0 /\ htok = NoTok
    /\ work = EmptyAll /\ wops = [s \in Stores |-> <<>>]
    /\ tver = [s \in Stores |-> 0] /\ tvers = [s \in Stores |-> {}]
    /\ trans = EmptyMap
    /\ pc = [s \in AllStores |-> "idle"]
    /\ cids = [s \in Stores |-> [ver |-> 0, tok |-> <<>>]]
    /\ blocks = <<>> /\ committed = <<>> /\ block = <<>> /\ started = FALSE /\ todo = <<>>
    /\ crashes = 0 /\ dirty = FALSE /\ budget = MaxWrites
    /\ cplan \in CrashPlans
    /\ lleft = 0
    /\ hist = <<>> /\ fin = FALSE

VolatileReset ==
    /\ rolled' = FALSE
    /\ hver' = 0 /\ htok' = NoTok
    /\ work' = EmptyAll /\ wops' = [s \in Stores |-> <<>>]
    /\ tver' = [s \in Stores |-> 0] /\ tvers' = [s \in Stores |-> {}]
    /\ trans' = EmptyMap
    /\ pc' = [s \in AllStores |-> "idle"]
    /\ cids' = [s \in Stores |-> [ver |-> 0, tok |-> <<>>]]

(* ---- writes ------------------------------------------------------------ *)
DoOp(o) ==
    IF o.s = TStore
    THEN /\ trans' = ApplyOp(trans, o)
         /\ UNCHANGED <<work, wops>>
    ELSE /\ work' = [work EXCEPT ![o.s] = ApplyOp(@, o)]
         /\ wops' = [wops EXCEPT ![o.s] = Append(@, o)]
         /\ UNCHANGED trans

Write(o) ==
    /\ Go /\ up /\ Idle /\ todo = <<>> /\ ~started /\ ~rolled
    /\ Len(block) < budget
    /\ UNCHANGED <<conf, durable, up, rolled, bricked, hver, htok, tver, tvers, pc, cids,
                   blocks, committed, started, todo, crashes, dirty, budget, cplan, lleft>>
    /\ DoOp(o)
    /\ block' = Append(block, o)
    /\ Rec([a |-> "write", op |-> o, exp |-> ObsW'])

(* re-execution of the interrupted block after a crash: the same writes again *)
ReExec ==
    /\ Go /\ up /\ Idle /\ todo # <<>>
    /\ UNCHANGED <<conf, durable, up, rolled, bricked, hver, htok, tver, tvers, pc, cids,
                   blocks, committed, block, started, crashes, dirty, budget, cplan, lleft>>
    /\ DoOp(Head(todo))
    /\ todo' = Tail(todo)
    /\ Rec([a |-> "write", op |-> Head(todo), re |-> TRUE, exp |-> ObsW'])

(* ---- Commit ------------------------------------------------------------ *)
RefNext == [s \in Stores |-> ApplyOps(ContentAt(Len(committed))[s], OpsOf(s, block))]

CommitStart ==
    /\ Go /\ up /\ Idle /\ todo = <<>> /\ ~rolled
    (* recording: the LoadVersion calls chosen for this block come before its Commit *)
    /\ lleft = 0
    /\ hver < MaxVer /\ Len(committed) < MaxVer + (IF started THEN 1 ELSE 0)
    /\ UNCHANGED <<conf, durable, up, rolled, bricked, hver, htok, work, wops, tver, tvers, trans,
                   block, todo, crashes, dirty, budget, cplan, lleft>>
    /\ pc' = [s \in AllStores |-> "todo"]
    /\ cids' = [s \in Stores |-> [ver |-> 0, tok |-> <<>>]]
    /\ IF started THEN UNCHANGED <<blocks, committed>>
       ELSE /\ blocks' = Append(blocks, block)
            /\ committed' = Append(committed, RefNext)
    /\ started' = TRUE
    /\ Rec([a |-> "commitstart", n |-> Len(committed') - 1, re |-> started,
            pre |-> ContentAt(Len(committed) - (IF started THEN 1 ELSE 0)),
            post |-> committed'[Len(committed')],
            itok |-> [s \in Stores |-> [i \in 1..Len(blocks') |-> OpsOf(s, blocks'[i])]],
            (* the state a client sees between the transactions of a block *)
            obs |-> FullObs])

(* iavl.Store.Commit, first half: tree.SaveVersion() -- one nodedb batch *)
CommitSave(s, tk) ==
    /\ Go /\ up /\ s \in Stores /\ pc[s] = "todo"
    (* transient.Store.Commit touches nothing but the transient map, so it commutes with every
       other step of the commit; the exhaustive configurations explore only "transient first" *)
    /\ TransientFirst => pc[TStore] # "todo"
    (* SaveVersion and the pruning delete are both inside iavl.Store.Commit: the next store is
       not saved before the previous one has pruned *)
    /\ "PruneBeforeFlush" \in Dev => \A t \in Stores \ {s} : pc[t] # "saved"
    /\ UNCHANGED <<conf, cinfo, latest, rolled, hver, htok, work, trans, ghost>>
    /\ LET v == tver[s] + 1 IN
       IF v \in tvers[s] THEN
           IF disk[s][v].tok = tk THEN
               (* "Same hash means idempotent. Return success." -- nothing is written *)
               /\ tver' = [tver EXCEPT ![s] = v]
               /\ cids' = [cids EXCEPT ![s] = [ver |-> v, tok |-> tk]]
               /\ wops' = [wops EXCEPT ![s] = <<>>]
               /\ pc' = [pc EXCEPT ![s] = "saved"]
               /\ UNCHANGED <<disk, tvers, up, bricked>>
               /\ Rec([a |-> "save", s |-> s, v |-> v, w |-> "", idem |-> TRUE])
           ELSE
               (* "version %d was already saved to different hash" -> Commit panics *)
               /\ up' = FALSE /\ bricked' = TRUE
               /\ UNCHANGED <<disk, tver, tvers, cids, wops, pc>>
               /\ Rec([a |-> "save", s |-> s, v |-> v, w |-> "", panic |-> TRUE])
       ELSE
           /\ disk' = [disk EXCEPT ![s] = Extend(@, v, [c |-> work[s], tok |-> tk])]
           /\ tver' = [tver EXCEPT ![s] = v]
           /\ tvers' = [tvers EXCEPT ![s] = @ \cup {v}]
           /\ cids' = [cids EXCEPT ![s] = [ver |-> v, tok |-> tk]]
           /\ wops' = [wops EXCEPT ![s] = <<>>]
           /\ pc' = [pc EXCEPT ![s] = "saved"]
           /\ UNCHANGED <<up, bricked>>
           /\ Rec([a |-> "save", s |-> s, v |-> v, w |-> "save"])

(* iavl.Store.Commit, second half -- the pruning rule, transcribed:
     previous := version - 1
     if numRecent < previous { toRelease := previous - numRecent
        if storeEvery == 0 || toRelease % storeEvery != 0 { tree.DeleteVersion(toRelease) } }
   DeleteVersion of a version the tree does not know is ErrVersionDoesNotExist, which is ignored;
   otherwise it is one nodedb batch. *)
ToRelease(s) ==
    LET prev == tver[s] - 1 rel == prev - kr IN
    IF kr < prev /\ (ke = 0 \/ rel % ke # 0) /\ rel \in tvers[s] THEN rel ELSE 0

CommitPrune(s) ==
    /\ Go /\ up /\ s \in Stores
    /\ IF "PruneBeforeFlush" \in Dev THEN pc[s] = "saved" ELSE pc[s] = "post"
    /\ UNCHANGED <<conf, cinfo, latest, up, rolled, bricked, hver, htok, work, wops, tver, trans, cids, ghost>>
    /\ pc' = [pc EXCEPT ![s] = IF "PruneBeforeFlush" \in Dev THEN "done" ELSE "idle"]
    /\ LET rel == ToRelease(s) IN
       /\ IF rel # 0
          THEN /\ disk' = [disk EXCEPT ![s] = Restrict(@, DOMAIN @ \ {rel})]
               /\ tvers' = [tvers EXCEPT ![s] = @ \ {rel}]
          ELSE UNCHANGED <<disk, tvers>>
       /\ Rec([a |-> "prune", s |-> s, v |-> rel, w |-> IF rel # 0 THEN "prune" ELSE ""])

(* transient.Store.Commit: a fresh MemDB *)
CommitTransient ==
    /\ Go /\ up /\ pc[TStore] = "todo"
    /\ UNCHANGED <<conf, durable, up, rolled, bricked, hver, htok, work, wops, tver, tvers, cids,
                   blocks, committed, block, started, todo, crashes, dirty, budget, cplan>>
    /\ trans' = EmptyMap
    /\ pc' = [pc EXCEPT ![TStore] = "done"]
    (* recording: how many LoadVersion calls the NEXT block will see is decided here, once per commit
       (a step whose record is small; the steps that record observation tables have few successors) *)
    /\ \E n \in LoadSet : lleft' = LoadsOf(n)
    /\ Rec([a |-> "tcommit", w |-> ""])

(* rootmulti.Store.Commit after commitStores: commit info and latest marker in ONE batch *)
CommitFlush ==
    /\ Go /\ up
    /\ pc[TStore] = "done"
    /\ \A s \in Stores : pc[s] = IF "PruneBeforeFlush" \in Dev THEN "done" ELSE "saved"
    /\ UNCHANGED <<conf, disk, up, rolled, bricked, work, wops, tver, tvers, trans, cids,
                   blocks, committed, todo, crashes, dirty, cplan, lleft>>
    /\ LET v == hver + 1 IN
       /\ cinfo' = Extend(cinfo, v, cids)
       /\ latest' = v
       /\ hver' = v
       /\ htok' = MsTok(cids)
    /\ pc' = [s \in AllStores |-> IF "PruneBeforeFlush" \in Dev \/ s = TStore THEN "idle" ELSE "post"]
    /\ block' = <<>> /\ started' = FALSE
    /\ \E b \in BudgetSet : budget' = b
    /\ Rec([a |-> "flush", w |-> "flush", v |-> hver', exp |-> Obs',
            obs |-> IF "PruneBeforeFlush" \in Dev THEN FullObs' ELSE [none |-> TRUE]])

(* ---- crash and recovery ---------------------------------------------- *)
Crash ==
    /\ Running /\ up /\ crashes < MaxCrashes
    /\ CrashPlan => MustCrash
    /\ CrashKind = "clean" => Idle
    /\ UNCHANGED <<conf, durable, bricked, blocks, committed, block, started, todo, budget, cplan>>
    /\ up' = FALSE
    /\ VolatileReset
    /\ crashes' = crashes + 1
    /\ lleft' = 0
    /\ dirty' = (dirty \/ ~Idle)
    /\ Rec([a |-> "crash", incommit |-> ~Idle])

(* NewStore + mounts + LoadLatestVersion on the durable state; also the very first open *)
Reopen ==
    /\ Go /\ ~up /\ ~bricked
    /\ UNCHANGED <<conf, durable, blocks, committed, crashes, dirty, cplan>>
    /\ LET r == LoadMS(latest)
           allowed == IF started THEN {Len(committed) - 1, Len(committed)} ELSE {Len(committed)} IN
       IF ~r.ok THEN
           /\ bricked' = TRUE
           /\ UNCHANGED <<up, rolled, hver, htok, work, wops, tver, tvers, trans, pc, cids, block, started,
                          todo, budget, lleft>>
           /\ Rec([a |-> "reopen", exp |-> [ok |-> FALSE], allowed |-> allowed, after |-> crashes])
       ELSE
           /\ up' = TRUE /\ bricked' = FALSE /\ rolled' = FALSE
           /\ hver' = r.ver /\ htok' = r.tok
           /\ tver' = [s \in Stores |-> r.trees[s].ver]
           /\ tvers' = [s \in Stores |-> r.trees[s].vers]
           /\ work' = r.c
           /\ wops' = [s \in Stores |-> <<>>]
           /\ trans' = EmptyMap
           /\ pc' = [s \in AllStores |-> "idle"]
           /\ cids' = [s \in Stores |-> [ver |-> 0, tok |-> <<>>]]
           /\ IF started /\ r.ver >= Len(committed)
              THEN block' = <<>> /\ started' = FALSE /\ todo' = <<>>
              ELSE block' = block /\ started' = started /\ todo' = block
           /\ \E b \in BudgetSet : budget' = IF b < Len(block') THEN Len(block') ELSE b
           (* no LoadVersion excursions in the first block of a fresh handle (nor while an interrupted
              block awaits its re-execution) *)
           /\ lleft' = 0
           /\ Rec([a |-> "reopen", exp |-> [ok |-> TRUE] @@ Obs', allowed |-> allowed,
                   after |-> crashes, obs |-> FullObs'])

(* ---- LoadVersion(v) on the live, idle handle (rootmulti.Store.LoadVersion, v >= 1) ------------
   the commit info is read, every sub-store is loaded into a NEW map, and only when all of them
   have loaded are lastCommitID and the store map replaced: all or nothing.  What "loads" means is
   LoadMS, the same operator a fresh handle uses (the new sub-stores are fresh trees over the same
   database; rs.pruningOpts are handed to them as at the first load). *)
LiveLoad(v) ==
    /\ Go /\ up /\ Idle /\ todo = <<>> /\ ~started
    /\ v \in 1..(Len(committed) + 1)
    /\ LoadScope = "blockstart" => (block = <<>> /\ (rolled => v = latest))
    (* recording: as many calls as were chosen for this block; a rolled-back handle may always
       return to the latest version *)
    /\ Record => (lleft > 0 \/ (rolled /\ v = latest))
    /\ UNCHANGED <<conf, durable, up, bricked, pc, cids, blocks, committed, started, todo, crashes,
                   dirty, budget, cplan>>
    /\ lleft' = IF lleft > 0 THEN lleft - 1 ELSE 0
    /\ LET r == LoadMS(v) IN
       IF ~r.ok THEN
           (* an error, and nothing has changed: not the commit id, not the stores with their
              uncommitted writes, hence not what the next Commit produces *)
           /\ UNCHANGED <<rolled, hver, htok, work, wops, tver, tvers, trans, block>>
           /\ Rec([a |-> "liveload", v |-> v, ok |-> FALSE, hasinfo |-> v \in DOMAIN cinfo,
                   retained |-> (v \in 1..latest /\ Retained(v, latest)), clean |-> ~dirty,
                   nblock |-> Len(block), rolled |-> rolled', exp |-> Obs'])
       ELSE
           /\ hver' = r.ver /\ htok' = r.tok
           /\ tver' = [s \in Stores |-> r.trees[s].ver]
           /\ tvers' = [s \in Stores |-> r.trees[s].vers]
           /\ work' = r.c
           /\ wops' = [s \in Stores |-> <<>>]
           /\ trans' = EmptyMap
           (* the uncommitted writes of the running block are gone with the old sub-stores *)
           /\ block' = <<>>
           /\ rolled' = (v # latest)
           /\ Rec([a |-> "liveload", v |-> v, ok |-> TRUE, hasinfo |-> TRUE,
                   retained |-> (v \in 1..latest /\ Retained(v, latest)), clean |-> ~dirty,
                   nblock |-> Len(block), rolled |-> rolled', exp |-> Obs'])

Finish ==
    /\ Record /\ ~fin /\ (Len(hist) >= HistLen \/ bricked)
    /\ fin' = TRUE
    /\ UNCHANGED <<conf, durable, volatile, ghost, hist>>

AnyOp == {Op(s, k, v, FALSE) : s \in AllStores, k \in Keys, v \in Vals}
         \cup {Op(s, k, "", TRUE) : s \in AllStores, k \in Keys}

Next ==
    \/ \E o \in AnyOp : Write(o)
    \/ ReExec
    \/ CommitStart
    \/ \E s \in Stores : CommitSave(s, ModelTok(s))
    \/ \E s \in Stores : CommitPrune(s)
    \/ CommitTransient
    \/ CommitFlush
    \/ \E v \in 1..(MaxVer + 1) : LiveLoad(v)
    \/ Crash
    \/ Reopen
    \/ Finish

Spec == Init /\ [][Next]_vars

(* values for the cfg files (a cfg cannot write tuples) *)
(* 1 = PruneEverything, 2 = PruneNothing, 13 = PruneSyncable, 1..12 = {0,1,2} x {0,1,2,3} *)
PruningSeq == << <<0, 0>>, <<0, 1>>, <<0, 2>>, <<0, 3>>, <<1, 0>>, <<1, 1>>, <<1, 2>>, <<1, 3>>,
                 <<2, 0>>, <<2, 1>>, <<2, 2>>, <<2, 3>>, <<100, 10000>> >>
PruningsSel == {PruningSeq[i] : i \in PrunSel}
(* CONSTRAINT of the recording configurations: one line per finished behaviour *)
PrintHist == fin => PrintT(<<"HIST", ToJson([kr |-> kr, ke |-> ke, spal |-> spal, strat |-> strat, steps |-> hist])>>)
(* invariant wrapper for the deviation runs: print the recorded behaviour that violates P *)
Witness(P) == P \/ (PrintT(<<"WITNESS", ToJson([kr |-> kr, ke |-> ke, spal |-> spal, strat |-> strat, steps |-> hist])>>) /\ FALSE)

-----------------------------------------------------------------------------
(* type and protocol sanity *)
TypeOK ==
    /\ latest \in 0..MaxVer /\ hver \in 0..MaxVer
    /\ DOMAIN cinfo \subseteq 1..MaxVer
    /\ \A s \in Stores : tvers[s] \subseteq DOMAIN disk[s] /\ (tver[s] = 0 \/ tver[s] \in tvers[s])
    /\ Len(committed) = Len(blocks)
    /\ started => Len(committed) >= 1
    /\ <<strat, kr, ke>> \in Configs
    (* a rolled-back handle sits idle at an older committed version with nothing uncommitted *)
    /\ rolled => /\ up /\ Idle /\ ~started /\ todo = <<>> /\ block = <<>>
                 /\ hver \in DOMAIN cinfo /\ hver < latest /\ htok = MsTok(cinfo[hver])
                 /\ \A s \in Stores : wops[s] = <<>> /\ tver[s] = cinfo[hver][s].ver

(* ---- C12 ---------------------------------------------------------------- *)
(* Commit advances the version by exactly one; the only other way the version of a live handle
   changes is a LoadVersion that SUCCEEDS: nothing durable changes and the handle shows exactly
   what a fresh handle loading that version shows (action property) *)
Act_VersionStep ==
    [][ (hver' # hver /\ up /\ up') =>
          \/ (~Idle /\ hver' = hver + 1 /\ latest' = hver' /\ hver' \in DOMAIN cinfo')
          \/ (Idle /\ Idle' /\ durable' = durable /\ hver' >= 1 /\
              LET r == LoadMS(hver') IN r.ok /\ r.ver = hver' /\ htok' = r.tok /\ work' = r.c
                                        /\ trans' = EmptyMap /\ rolled' = (hver' # latest)) ]_vars
(* a LoadVersion on the live handle whose target cannot be loaded changes nothing (every step
   that keeps the handle idle and its version either is a write or changes nothing volatile) *)
Act_IdleStepsKeepCommitID ==
    [][ (up /\ up' /\ Idle /\ Idle' /\ hver' = hver) => (htok' = htok /\ tver' = tver /\ rolled' = rolled) ]_vars

(* the id Commit returned (= LastCommitID) is what a freshly reopened store reports *)
Inv_HashAgreement ==
    (up /\ Idle /\ ~dirty /\ ~rolled) =>
        LET r == LoadMS(latest) IN r.ok /\ r.ver = hver /\ r.tok = htok /\ latest = hver

(* every version the policy retains is loadable by a fresh handle with exactly its content *)
Inv_RetainedReadable ==
    (up /\ Idle /\ ~dirty /\ ~rolled) =>
        \A v \in 1..hver : Retained(v, hver) =>
            LET r == LoadMS(v) IN r.ok /\ r.ver = v /\ r.c = committed[v]
(* ... and so is the latest after reopening, with every store; and the version a LoadVersion on
   the live handle moved it to (no ~rolled here) *)
Inv_LatestReadable ==
    (up /\ Idle /\ ~dirty /\ \A s \in Stores : wops[s] = <<>>) => work = ContentAt(hver)

(* versions the policy prunes are unreadable; and NEVER wrong data, whatever happened *)
Inv_PrunedUnreadable ==
    (up /\ Idle /\ ~dirty /\ ~rolled) => \A v \in 1..hver : ~Retained(v, hver) => ~LoadMS(v).ok
Inv_NeverWrongData ==
    \A v \in 1..(MaxVer + 1) : LET r == LoadMS(v) IN
        r.ok => (v <= Len(committed) /\ r.c = committed[v])
Inv_ViewAgrees ==
    (up /\ Idle) => \A v \in 1..(MaxVer + 1) : LET r == ViewObs(v) IN
        r.ok => (v <= Len(committed) /\ (~dirty => r.stores = committed[v]))

Inv_TransientEmptyAfterCommit ==
    (up /\ Idle /\ block = <<>> /\ todo = <<>>) => trans = EmptyMap

(* ---- C13 ---------------------------------------------------------------- *)
(* reopening always succeeds *)
Inv_NoBrick == ~bricked
(* a handle that has executed nothing yet shows exactly one committed version: the previous or
   (if the interrupted commit got as far as the flush) the new one -- all stores together *)
Inv_RecoverAtomic ==
    (up /\ Idle /\ (\A s \in Stores : wops[s] = <<>>)) =>
        LET L == Len(committed) IN
        /\ ~rolled => hver \in (IF started THEN {L - 1, L} ELSE {L})
        /\ work = ContentAt(hver)
(* whatever was (re-)executed, every commit id ever flushed or reported is the one of the
   uninterrupted run *)
Inv_ReexecuteSameHash ==
    /\ \A v \in DOMAIN cinfo : v <= Len(blocks) /\ MsTok(cinfo[v]) = IdealMsTok(v)
    /\ (up /\ hver > 0) => htok = IdealMsTok(hver)
(* the flush is atomic and nothing of a commit becomes visible before it *)
Inv_FlushAtomic == latest \in DOMAIN cinfo \cup {0} /\ (up /\ Idle /\ ~rolled => hver = latest)

(* ---- C14 ---------------------------------------------------------------- *)
QArgs == [s : Stores, k : Keys, h : 0..(MaxVer + 1), p : BOOLEAN]
QRes(via, q) == IF via = "app" THEN QueryApp(q.s, q.k, q.h, q.p) ELSE QueryMS(q.s, q.k, q.h, q.p)
CommittedVal(h, s, k) == MapGet(committed[h][s], k)

(* a query answers with the value committed at the height it reports, whatever is uncommitted *)
P_QueryIsCommitted(via, q, r) ==
        /\ (~r.err /\ (r.value # "<nil>" \/ r.proof)) =>
               /\ r.height \in 1..hver
               /\ (q.h # 0 => r.height = q.h)
               /\ r.value = CommittedVal(r.height, q.s, q.k)
        (* retained heights must be answered *)
        /\ (q.h \in 1..hver /\ Retained(q.h, hver) /\ ~(via = "app" /\ q.p /\ q.h <= 1)) =>
               (~r.err /\ r.height = q.h /\ r.value = CommittedVal(q.h, q.s, q.k) /\ r.proof = q.p)
        (* height 0: rootmulti defaults to latest-1 when retained else latest; baseapp to latest *)
        /\ (q.h = 0 /\ hver >= 1 /\ ~(via = "app" /\ q.p /\ hver <= 1)) =>
               (~r.err /\ r.height = (IF via = "app" THEN hver
                                      ELSE IF hver >= 2 /\ Retained(hver - 1, hver) THEN hver - 1 ELSE hver))

(* a proof verifies against the hash of the height it reports and against no differing one *)
P_ProofBindsHeight(via, q, r) ==
        r.proof => /\ Verifies(q.s, r, IdealMsTok(r.height))
                   /\ \A v \in 1..hver : IdealMsTok(v) # IdealMsTok(r.height) => ~Verifies(q.s, r, IdealMsTok(v))

(* pruned and future heights: no value and no proof *)
P_NoDataForPrunedOrFuture(via, q, r) ==
        (q.h > hver \/ (q.h # 0 /\ ~Retained(q.h, hver))) => (r.value = "<nil>" /\ ~r.proof)

QState == up /\ Idle /\ ~dirty /\ ~rolled
(* a subspace query answers with exactly the committed pairs of the latest version under the
   prefix - whatever is uncommitted *)
P_SubspaceIsCommitted(s, p) ==
    LET r == SubspaceMS(s, p) c == ContentAt(hver)[s] IN
    hver >= 1 => (r.ok /\ r.kv = Restrict(c, {k \in DOMAIN c : HasPrefix(k, p)}))
Inv_QueryIsCommitted ==
    QState => \A via \in {"ms", "app"} : \A q \in QArgs : P_QueryIsCommitted(via, q, QRes(via, q))
Inv_ProofBindsHeight ==
    QState => \A via \in {"ms", "app"} : \A q \in QArgs : P_ProofBindsHeight(via, q, QRes(via, q))
Inv_NoDataForPrunedOrFuture ==
    QState => \A via \in {"ms", "app"} : \A q \in QArgs : P_NoDataForPrunedOrFuture(via, q, QRes(via, q))
(* the three together, each query evaluated once (what the configurations check) *)
Inv_C14 ==
    QState => \A via \in {"ms", "app"} : \A q \in QArgs : LET r == QRes(via, q) IN
        P_QueryIsCommitted(via, q, r) /\ P_ProofBindsHeight(via, q, r) /\ P_NoDataForPrunedOrFuture(via, q, r)
Inv_SubspaceIsCommitted ==
    QState => \A s \in Stores : \A p \in QPrefixes : P_SubspaceIsCommitted(s, p)

W_NoBrick == Witness(Inv_NoBrick)
W_RecoverAtomic == Witness(Inv_RecoverAtomic)
W_ReexecuteSameHash == Witness(Inv_ReexecuteSameHash)
=============================================================================
