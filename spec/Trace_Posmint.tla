---------------------------- MODULE Trace_Posmint ----------------------------
(***************************************************************************)
(* Resynchronising trace monitor: validates executions recorded from the   *)
(* REAL application against Posmint.tla.                                   *)
(*                                                                          *)
(* Every line of the trace is one public call of the real code:            *)
(*   [b |-> behaviour number, act |-> the action record (same shape as the *)
(*    specification's), res |-> what the call returned, post |-> the real  *)
(*    stores projected into the specification's variables]                 *)
(* For each line the monitor computes pred = Step(pre, act) with the        *)
(* specification's own operators from the REAL pre-state, compares it with  *)
(* the real post-state variable by variable (div), ADOPTS the real state    *)
(* and evaluates the listed properties' predicates on that real state and  *)
(* on the real transition (bad).  Nothing is ever left unexamined after a  *)
(* mismatch, and a mismatch is attributed to named variables.  Findings    *)
(* are printed as DIV lines; the python side turns them into verdicts.     *)
(***************************************************************************)
EXTENDS Posmint, Json

CONSTANT TraceFile
VARIABLE l

Trace == ndJsonDeserialize(TraceFile)

ObsFields == {"bal", "supply", "val", "pidx", "prev", "prevTotal", "uq", "sinfo", "bits",
              "awardQ", "burnQ", "proposer", "pkrel", "par", "denomAlt", "posmAcc"}

PairSet(q) == {<< q[i][1], q[i][2] >> : i \in 1..Len(q)}

\* the projected real state as a record with the specification's value shapes
RealOf(p) ==
  [ bal |-> p.bal, supply |-> p.supply, val |-> p.val, pidx |-> PairSet(p.pidx),
    prev |-> p.prev, prevTotal |-> p.prevTotal,
    uq |-> {[t |-> p.uq[i].t, ids |-> p.uq[i].ids] : i \in 1..Len(p.uq)},
    sinfo |-> p.sinfo, bits |-> [v \in Users |-> SeqToSet(p.bits[v])],
    awardQ |-> p.awardQ, burnQ |-> p.burnQ, proposer |-> p.proposer, pkrel |-> SeqToSet(p.pkrel),
    dAuth |-> p.dAuth, dRest |-> p.dRest, accex |-> p.accex, par |-> [maxVals |-> p.maxVals, minStake |-> p.minStake],
    denomAlt |-> p.denomAlt, posmAcc |-> p.posmAcc ]

Adopt(pred, r) ==
  [pred EXCEPT !.bal = r.bal, !.supply = r.supply, !.val = r.val, !.pidx = r.pidx, !.prev = r.prev,
               !.prevTotal = r.prevTotal, !.uq = r.uq, !.sinfo = r.sinfo, !.bits = r.bits,
               !.awardQ = r.awardQ, !.burnQ = r.burnQ, !.proposer = r.proposer, !.pkrel = r.pkrel,
               !.dAuth = r.dAuth, !.dRest = r.dRest, !.accex = r.accex, !.par = r.par, !.denomAlt = r.denomAlt, !.posmAcc = r.posmAcc]

Obs(s) == [f \in ObsFields |-> s[f]]

-----------------------------------------------------------------------------
(* property predicates on the real transition pre -> post under action a with result res *)

\* C11: a rejected transaction leaves the state exactly as it was, except for the fee of one
\* that passed the ante handler
RejectedNoTrace(pre, post, a, res) ==
  \* (with a zero fee a transaction that passed the ante handler is indistinguishable from one that
  \* did not: paying the zero fee may still rewrite account records, so only then the auth digest is exempt)
  (a.a = "Tx" /\ res.class = "rej_pre") =>
     Obs(post) = Obs(pre) /\ (a.fee > 0 => post.dAuth = pre.dAuth) /\ post.dRest = pre.dRest
     /\ \A i \in DOMAIN post.accex : (i # FEE \/ a.fee > 0) => post.accex[i] = pre.accex[i]
RejectedOnlyFee(pre, post, a, res) ==
  (a.a = "Tx" /\ res.class = "rej_post") =>
     /\ \A f \in ObsFields \ {"bal"} : post[f] = pre[f]
     /\ post.bal = [pre.bal EXCEPT ![a.from] = @ - a.fee, ![FEE] = @ + a.fee]
     /\ post.dRest = pre.dRest
     \* no account record appears or disappears (but the fee collector's, which the first fee creates)
     /\ \A i \in DOMAIN post.accex : i # FEE => post.accex[i] = pre.accex[i]
\* C11: CheckTx, Simulate and Query never change state (byte-for-byte digests of every store)
ReadOnlyNoTrace(pre, post, a, res) ==
  a.a \in {"CheckTx", "Simulate", "Query"} =>
     Obs(post) = Obs(pre) /\ post.dAuth = pre.dAuth /\ post.dRest = pre.dRest /\ post.accex = pre.accex

\* C06: status changes only along the legal edges
LegalTransitions(pre, post, a, res) ==
  \A v \in Users :
    LET p == pre.val[v]  q == post.val[v]
        ps == IF p.ex THEN p.status ELSE -1
        qs == IF q.ex THEN q.status ELSE -1
    IN ps = qs \/
       \* new / unstaked -> staked : by its own stake of at least the minimum, fully funded
       (ps \in {-1, Unstaked} /\ qs = Staked /\ a.a = "Tx" /\ a.kind = "stake" /\ a.from = v /\ res.class = "ok"
          /\ a.amt >= pre.par.minStake /\ q.tokens = (IF p.ex THEN p.tokens ELSE 0) + a.amt) \/
       \* staked -> unstaking : by its own begin-unstake
       (ps = Staked /\ qs = Unstaking /\ a.a = "Tx" /\ a.kind = "unstake" /\ a.from = v /\ res.class = "ok"
          /\ q.uat = pre.time + UnstakeTime /\ q.tokens = p.tokens) \/
       \* unstaking -> removed : at EndBlock, not before its completion time, whole stake returned
       (ps = Unstaking /\ qs = -1 /\ a.a = "EndBlock" /\ p.uat <= pre.time /\ post.bal[v] = pre.bal[v] + p.tokens) \/
       \* any -> unstaked : forced unstake while slashing in BeginBlock, remainder burned
       (ps \in {Staked, Unstaking} /\ qs = Unstaked /\ a.a = "BeginBlock" /\ q.tokens = 0) \/
       (a.a \in {"InitChain", "Crash"})

\* C06: a mature validator is paid out at the first block at or after its completion time
PayoutNotLate(pre, post, a, res) ==
  a.a = "EndBlock" => \A v \in Users : (post.val[v].ex /\ post.val[v].status = Unstaking) => post.val[v].uat > pre.time

\* C09: unjail succeeds only under the stated conditions, and restores the index entry
UnjailGuard(pre, post, a, res) ==
  (a.a = "Tx" /\ a.kind = "unjail" /\ res.class = "ok") =>
     /\ UnjailAllowed([pre EXCEPT !.bal = post.bal], a.from)
     /\ ~post.val[a.from].jailed
UnjailNoSpuriousReject(pre, post, a, res) ==
  (a.a = "Tx" /\ a.kind = "unjail" /\ res.class = "rej_post") => ~UnjailAllowed(pre, a.from)
TombstoneForever(pre, post, a, res) ==
  a.a # "Crash" => \A v \in Users : pre.sinfo[v].tomb => post.sinfo[v].tomb
\* a node reopened after a crash has exactly what it had committed, byte for byte
CrashRecoversCommitted(pre, post, a, res) ==
  a.a = "Crash" => (Obs(post) = Obs(pre.snap[1]) /\ post.dAuth = pre.snap[1].dAuth /\ post.dRest = pre.snap[1].dRest)

\* C10: at BeginBlock(H+1) the whole fee collector balance goes to the previous proposer (or
\* stays in the pos module account), and queued awards are minted exactly once
FeesToProposer(pre, post, a, res) ==
  (a.a = "BeginBlock" /\ pre.height >= 1) =>
     /\ post.bal[FEE] = pre.awardQ[FEE]
     /\ LET f == pre.bal[FEE]
            p == pre.proposer
            known == p \in Users /\ pre.val[p].ex
        IN /\ \A x \in Users : post.bal[x] = pre.bal[x] + pre.awardQ[x] + (IF known /\ x = p THEN f ELSE 0)
           /\ post.bal[POSM] = pre.bal[POSM] + pre.awardQ[POSM] + (IF known THEN 0 ELSE f)
AwardsMintedOnce(pre, post, a, res) ==
  a.a = "BeginBlock" =>
     /\ \A x \in Accts : post.awardQ[x] = 0
     /\ (pre.height = 0 => \A x \in Users : post.bal[x] = pre.bal[x] + pre.awardQ[x])
     /\ post.supply + (post.burned - pre.burned) = pre.supply + SumOver(Accts, LAMBDA x : pre.awardQ[x])
NoAwardOutsideBegin(pre, post, a, res) ==
  a.a \in {"Tx", "EndBlock", "Commit"} => post.supply <= pre.supply

\* C02: only mint and burn move the supply; balances of bystanders unchanged by a slash is
\* covered by conformance on `bal`
SupplyMoves(pre, post, a, res) ==
  a.a # "InitChain" => post.supply - pre.supply = (post.minted - pre.minted) - (post.burned - pre.burned)

\* C12 one level up (what a reader sees at a version is what was committed at it): a query for the latest
\* committed height gets the answer it got right after that Commit, whatever the block in progress has written
QAnswer(q, kind) == LET S == {i \in 1..Len(q) : q[i][1] = kind} IN IF S = {} THEN "" ELSE q[CHOOSE i \in S : TRUE][2]
QueryAnswersCommitted(pre, post, a, res) ==
  (a.a = "Query" /\ Len(pre.qans) > 0) =>
     LET want == QAnswer(pre.qans, a.kind)
     IN want = "" \/ (IF res.class = "ro-panic" THEN want = "panic" ELSE res.qd = want)

\* C08: "slashed and jailed for downtime at exactly the first block ...": whether a validator loses
\* stake in a BeginBlock that carries no evidence against it and finds no burn queued for it is
\* decided by its window alone - the real transition must agree with the specification's step from
\* the same real pre-state (pd) on WHETHER it was slashed (the amount is C07's subject)
DowntimeSlashExactlyWhenDue(pre, post, a, pd) ==
  (a.a = "BeginBlock" /\ pd.halt = "") =>
     \A v \in Users :
        (pre.val[v].ex /\ pre.burnQ[v] = -1 /\ ~(\E i \in 1..Len(a.evs) : a.evs[i].v = v)) =>
           ((post.val[v].tokens < pre.val[v].tokens) <=> (pd.val[v].tokens < pre.val[v].tokens))

ActionProps(pre, post, a, res, pd) ==
  << << "C11.RejectedNoTrace", RejectedNoTrace(pre, post, a, res) >>,
     << "C11.RejectedOnlyFee", RejectedOnlyFee(pre, post, a, res) >>,
     << "C11.ReadOnlyNoTrace", ReadOnlyNoTrace(pre, post, a, res) >>,
     << "C06.LegalTransitions", LegalTransitions(pre, post, a, res) >>,
     << "C06.PayoutNotLate", PayoutNotLate(pre, post, a, res) >>,
     << "C09.UnjailGuard", UnjailGuard(pre, post, a, res) >>,
     << "C09.UnjailNoSpuriousReject", UnjailNoSpuriousReject(pre, post, a, res) >>,
     << "C09.TombstoneForever", TombstoneForever(pre, post, a, res) >>,
     << "C10.FeesToProposer", FeesToProposer(pre, post, a, res) >>,
     << "C10.AwardsMintedOnce", AwardsMintedOnce(pre, post, a, res) >>,
     << "C10.NoAwardOutsideBegin", NoAwardOutsideBegin(pre, post, a, res) >>,
     << "C02.SupplyMoves", SupplyMoves(pre, post, a, res) >>,
     << "C12.CrashRecoversCommitted", CrashRecoversCommitted(pre, post, a, res) >>,
     << "C12.QueryAnswersCommitted", QueryAnswersCommitted(pre, post, a, res) >>,
     << "C08.DowntimeSlashExactlyWhenDue", DowntimeSlashExactlyWhenDue(pre, post, a, pd) >> >>

StateProps(s) ==
  << << "C02.SupplyIsSum", SupplyIsSum(s) >>,
     << "C02.NonNeg", NonNeg(s) >>,
     << "C04.PoolBacksStake", PoolBacksStake(s) >>,
     << "C05.TmIsTopN", TmIsTopN(s) >>,
     << "C05.UpdatesApplicable", UpdatesApplicable(s) >>,
     << "C06.IndexExact", IndexExact(s) >>,
     << "C06.QueueComplete", QueueComplete(s) >>,
     << "C06.MinStakeHeld", MinStakeHeld(s) >>,
     << "C06.NoEarlyPayout", NoEarlyPayout(s) >>,
     << "C08.CounterIsPopcount", CounterIsPopcount(s) >>,
     << "C09.JailedPowerless", JailedPowerless(s) >>,
     << "C09.TombstoneJailed", TombstoneJailed(s) >>,
     << "C10.FeesAccounted", FeesAccounted(s) >> >>

Failed(q) == {q[i][1] : i \in {j \in 1..Len(q) : ~q[j][2]}}

-----------------------------------------------------------------------------
TraceInit == st = PreGenesis /\ l = 1

TraceNext ==
  /\ l <= Len(Trace)
  /\ l' = l + 1
  /\ LET e == Trace[l]
         a == e.act
         pre == IF a.a = "InitChain" THEN PreGenesis ELSE st
         pred0 == Step(pre, a)
         realHalt == e.res.class = "halt"
         \* the specification halts but the real node went on: report it and keep validating from the real state
         pred == IF ~realHalt /\ pred0.halt # "" THEN [pred0 EXCEPT !.halt = ""] ELSE pred0
     IN IF realHalt
        THEN \* a dead node: the partially written state is not compared; only whether both died
             /\ st' = [pred EXCEPT !.halt = "halted"]
             /\ (IF pred0.halt = ""
                 THEN PrintT("DIV " \o ToJson([l |-> l, b |-> e.b, div |-> {"halt"}, bad |-> {}, note |-> pred0.halt])) ELSE TRUE)
        ELSE
          LET r == RealOf(e.post)
              post == Adopt(pred, r)
              div0 == IF pred0.halt # "" THEN {} ELSE {f \in ObsFields : pred[f] # r[f]}
              div1 == IF a.a = "Tx" /\ pred.lastRes # e.res.class THEN {"lastRes"} ELSE {}
              div2 == IF a.a \in {"EndBlock", "InitChain", "ExportImport"} /\ pred.lastUpd # PairSet(e.res.updates) THEN {"lastUpd"} ELSE {}
              div3 == IF a.a \in {"EndBlock", "InitChain", "ExportImport"} /\ e.res.upddup THEN {"updDup"} ELSE {}
              \* Tendermint's own ValidatorSet.UpdateWithChangeSet is the oracle for "can be applied"
              \* (its refusal to end up with an EMPTY set is not among the conditions C05 lists)
              tmbad == IF a.a \in {"EndBlock", "InitChain", "ExportImport"} /\ e.res.tmerr # "" /\ e.res.tmerr # "applying the validator changes would result in empty set"
                       THEN {"C05.TendermintAccepts"} ELSE {}
              div4 == IF e.post.anomalies > 0 THEN {"anomalies"} ELSE {}
              \* the Tendermint side follows the REAL updates
              post2 == IF a.a \in {"EndBlock", "InitChain", "ExportImport"} /\ div2 # {}
                       THEN LET upd == PairSet(e.res.updates)
                                base == IF a.a = "InitChain" THEN pre.vs[3] ELSE pre.vs[3]
                                ok == \A u \in upd : u[1] \in Users /\ Applicable(base, {u})
                                set == IF \A u \in upd : u[1] \in Users THEN ApplyUpd(base, upd) ELSE base
                            IN [post EXCEPT !.lastUpd = upd, !.updOk = ok,
                                            !.vs = IF a.a = "InitChain" THEN << pre.vs[1], set, set >>
                                                   ELSE << pre.vs[2], pre.vs[3], set >>]
                       ELSE post
              div5 == IF pred0.halt # "" THEN {"halt"} ELSE {}
              div == div0 \cup div1 \cup div2 \cup div3 \cup div4 \cup div5
              bad == Failed(StateProps(post2)) \cup Failed(ActionProps(pre, post2, a, e.res, pred0)) \cup tmbad
              \* the real state at a Commit is what a crashed node must come back with
              postq == IF a.a = "Commit" THEN [post2 EXCEPT !.qans = e.res.qans] ELSE post2
              post3 == IF a.a = "Commit" /\ MaxCrashes > 0 THEN [postq EXCEPT !.snap = << Strip(postq) >>] ELSE postq
          IN /\ st' = post3
             /\ (IF div # {} \/ bad # {} THEN PrintT("DIV " \o ToJson([l |-> l, b |-> e.b, div |-> div, bad |-> bad, note |-> pred0.halt])) ELSE TRUE)

TraceSpec == TraceInit /\ [][TraceNext]_<<st, l>>

\* every line of the trace was consumed
TraceAccepted == TLCGet("stats").diameter - 1 = Len(Trace)
=============================================================================
