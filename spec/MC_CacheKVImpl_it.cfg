\* refinement, exhaustive: 3 keys, 1 wrapper, 1 open iterator interleaved with writes, few ranges
SPECIFICATION ISpecH
CONSTANTS
  Keys <- K3
  Bounds <- BNone
  OpenRanges <- OR3b
  BaseInit <- BaseA
  SetVals <- ValById
  MaxW = 1
  MaxDepth = 1
  MaxIt = 1
  BaseOps = TRUE
  HistLen = 0
  Probe = FALSE
VIEW IViewVars
INVARIANTS TypeOK Inv_Refines Inv_SortedCache Inv_ImplReadsAreView Inv_IterationIsView Inv_ReadsAreView
PROPERTY IProp
