\* refinement, exhaustive: 3 keys, 1 wrapper, 1 open iterator (full range, both directions) interleaved with writes
SPECIFICATION ISpecH
CONSTANTS
  Keys <- K3
  Bounds <- BNone
  OpenRanges <- OR1
  BaseInit <- BaseA
  SetVals <- ValById
  MaxW = 1
  MaxDepth = 1
  MaxIt = 1
  BaseOps = FALSE
  HistLen = 0
  Probe = FALSE
VIEW IViewVars
INVARIANTS TypeOK Inv_Refines Inv_SortedCache Inv_ImplReadsAreView Inv_IterationIsView Inv_ReadsAreView
PROPERTY IProp
