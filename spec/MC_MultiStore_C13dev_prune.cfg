\* deviation witness (expected to FAIL): shortest crash history that breaks C13 when the model does what the code does
SPECIFICATION Spec
CONSTANTS
  Stores = {"s1", "s2"}
  TStore = "t1"
  Keys = {"a"}
  Vals = {"x", "y"}
  Prunings <- PruningsSel
  Strategies = {}
  PrunSel = {1, 2, 3, 4, 5, 6, 7, 8, 9, 10, 11, 12, 13}
  MaxVer = 3
  MaxWrites = 1
  MaxCrashes = 1
  Dev = {"PruneBeforeFlush"}
  Record = TRUE
  HistLen = 1000
  CrashPlan = FALSE
  CrashKind = "any"
  TransientFirst = FALSE
  MaxLoads = 0
  LoadScope = "blockstart"
  ObsKind = {}
VIEW view
INVARIANTS
  W_NoBrick
  W_RecoverAtomic
  W_ReexecuteSameHash
CHECK_DEADLOCK FALSE
