\* labelled state graph: 1 wrapper, 3 keys, every range and direction
SPECIFICATION ASpec
CONSTANTS
  Keys <- K3
  Bounds <- B3
  OpenRanges <- OR1
  BaseInit <- BaseA
  SetVals <- ValById
  MaxW = 1
  MaxDepth = 1
  MaxIt = 0
  BaseOps = TRUE
VIEW AView
INVARIANTS TypeOK Inv_IterationIsView Inv_ReadsAreView
PROPERTY AProp
ACTION_CONSTRAINT EdgeOut
