\* C19 keybase, exhaustive: 3 keys (1 raw ed25519 and 1 secp256k1 held by the client, 1 created inside), 4 passphrases (empty, white space only, a base
\* passphrase, the base padded with white space), at most 1 exported armor kept; every transition is checked against StepOK (VIEW leaves the label and the history out)
CONSTANTS
    NK = 3
    NKnown = 2
    Secp = {2}
    Passes = {"e", "w", "u", "v"}
    MaxArm = 1
    Depth = 0
SPECIFICATION Spec
VIEW View
CHECK_DEADLOCK FALSE
INVARIANTS TypeOK Inv_KnownFromExports Inv_ArmorsOfKnownKeys
PROPERTIES StepOK
