-------------------------- MODULE Trace_CacheKVConc --------------------------
(***************************************************************************)
(* C15, concurrency clause: "concurrent Get/Has/Set/Delete calls on one      *)
(* wrapper from several goroutines ... each take effect atomically".         *)
(*                                                                         *)
(* Two specifications over the operators of CacheKV.tla (one wrapper, id 1,  *)
(* over the base):                                                          *)
(*  GSpec  the concurrent configuration: every call is invoked, takes effect *)
(*         in ONE atomic step (the abstract Get/Has/Set/Delete) and returns. *)
(*         Its simulated behaviours give the sets of overlapping calls       *)
(*         (programs per goroutine) that kvdrv runs on a real cachekv.Store. *)
(*  LSpec  validation of the observed histories: kvdrv logs inv/ret events   *)
(*         (global order by an atomic counter, goroutine id, real result).   *)
(*         TLC searches a linearization: inv and ret events are consumed in  *)
(*         the logged order, the atomic step of each pending call is a       *)
(*         silent action placed anywhere between them, and the call must     *)
(*         return what the atomic step returned.  A history for which the    *)
(*         search reaches the end prints LIN <run>; a history without LIN is *)
(*         not explainable by atomic operations.                             *)
(* Data races in the Go memory model are invisible to a specification with   *)
(* atomic actions; that clause is observed by the race detector on the same  *)
(* runs (DESIGN.md 7/C15).                                                   *)
(***************************************************************************)
EXTENDS CacheKV

CONSTANTS NThreads, MaxOps, MaxPre, GenLen

VARIABLES pend,   \* [0..NThreads -> [st : "idle"|"inv"|"lin", op, k, v, r]]   thread 0 = the sequential prologue/epilogue
          nops,   \* GSpec: calls made per thread
          phase,  \* GSpec: "pre" | "conc"
          run,    \* LSpec: index of the history being validated
          l,      \* LSpec: next event
          chist   \* GSpec: history

cvars == <<base, par, ov, used, its, res, act, pend, nops, phase, run, l, chist>>
CView == <<base, par, ov, pend, nops, phase, run, l>>

Runs == ndJsonDeserialize("conc.ndjson")

Idle == [st |-> "idle", op |-> "", k |-> <<>>, v |-> "", r |-> ""]
T0 == 0..NThreads

\* the atomic effect of one call on wrapper 1
Atomic(o) ==
  \/ o.op = "Get" /\ Get(1, o.k)
  \/ o.op = "Has" /\ Has(1, o.k)
  \/ o.op = "Set" /\ Set(1, o.k, o.v)
  \/ o.op = "Delete" /\ Delete(1, o.k)
  \/ o.op = "IterAll" /\ IterAll(1, None, None, TRUE)

StoreInit(b) ==
  /\ base = b
  /\ par = [w \in W |-> 0]          \* MaxW = 1: the wrapper exists from the start
  /\ ov = [w \in W |-> EmptyOv]
  /\ used = [w \in W |-> FALSE]
  /\ its = [i \in 1..MaxIt |-> NoIt]
  /\ res = "init"
  /\ act = "none"

\* ---- GSpec: the concurrent configuration -------------------------------------------------------
CallOps == {[op |-> o, k |-> k, v |-> ""] : o \in {"Get", "Has", "Delete"}, k \in Keys}
           \cup {[op |-> "Set", k |-> k, v |-> v] : k \in Keys, v \in SetVals(1)}

GInit ==
  /\ \E b \in [Keys -> OptVals(BaseInit)] : StoreInit(b)
  /\ pend = [t \in T0 |-> Idle]
  /\ nops = [t \in T0 |-> 0]
  /\ phase = "pre"
  /\ run = 0 /\ l = 0
  /\ chist = <<[e |-> "init", t |-> 0, op |-> "", k |-> <<>>, v |-> "", r |-> ToJson(base)]>>

GPre(o) ==        \* sequential prologue on the wrapper (creates dirty and memoised entries)
  /\ phase = "pre" /\ nops[0] < MaxPre
  /\ Atomic(o)
  /\ nops' = [nops EXCEPT ![0] = @ + 1]
  /\ chist' = Append(chist, [e |-> "pre", t |-> 0, op |-> o.op, k |-> o.k, v |-> o.v, r |-> ToJson(res')])
  /\ UNCHANGED <<pend, phase, run, l>>
GStart == phase = "pre" /\ phase' = "conc" /\ UNCHANGED <<base, par, ov, used, its, res, pend, nops, run, l, chist>>
GInv(t, o) ==
  /\ phase = "conc" /\ pend[t].st = "idle" /\ nops[t] < MaxOps
  /\ pend' = [pend EXCEPT ![t] = [st |-> "inv", op |-> o.op, k |-> o.k, v |-> o.v, r |-> ""]]
  /\ nops' = [nops EXCEPT ![t] = @ + 1]
  /\ chist' = Append(chist, [e |-> "inv", t |-> t, op |-> o.op, k |-> o.k, v |-> o.v, r |-> ""])
  /\ UNCHANGED <<base, par, ov, used, its, res, phase, run, l>>
GLin(t) ==
  /\ pend[t].st = "inv"
  /\ Atomic(pend[t])
  /\ pend' = [pend EXCEPT ![t].st = "lin", ![t].r = ToJson(res')]
  /\ chist' = Append(chist, [e |-> "lin", t |-> t, op |-> pend[t].op, k |-> pend[t].k, v |-> pend[t].v, r |-> ToJson(res')])
  /\ UNCHANGED <<nops, phase, run, l>>
GRet(t) ==
  /\ pend[t].st = "lin"
  /\ pend' = [pend EXCEPT ![t] = Idle]
  /\ chist' = Append(chist, [e |-> "ret", t |-> t, op |-> pend[t].op, k |-> pend[t].k, v |-> pend[t].v, r |-> pend[t].r])
  /\ UNCHANGED <<base, par, ov, used, its, res, nops, phase, run, l>>
GNext ==
  /\ \/ \E o \in CallOps : GPre(o)
     \/ GStart
     \/ \E t \in 1..NThreads, o \in CallOps : GInv(t, o)
     \/ \E t \in 1..NThreads : GLin(t) \/ GRet(t)
  /\ act' = "g"
GSpec == GInit /\ [][GNext]_cvars
\* a completed concurrent history (all calls returned, at least two calls made) is printed
Calls == LET f[t \in 0..NThreads] == IF t = 0 THEN 0 ELSE f[t - 1] + nops[t] IN f[NThreads]
GenOut == (phase = "conc" /\ Calls >= GenLen /\ \A t \in 1..NThreads : pend[t].st = "idle") => PrintT(<<"CASE", ToJson(chist)>>)
\* atomic calls leave the store coherent: the view is always a function of the calls linearized so far
GInv_TypeOK == TypeOK

\* ---- LSpec: is the observed history explainable by atomic calls? -----------------------------------
Ev == Runs[run].ev
InitOf(r) == [k \in Keys |-> IF \E j \in 1..Len(r.init) : r.init[j].k = k
                             THEN Some((CHOOSE x \in {r.init[j] : j \in 1..Len(r.init)} : x.k = k).v) ELSE None]
LInit ==
  /\ run \in 1..Len(Runs)
  /\ StoreInit(InitOf(Runs[run]))
  /\ pend = [t \in T0 |-> Idle]
  /\ nops = [t \in T0 |-> 0]
  /\ phase = "lin"
  /\ l = 1
  /\ chist = <<>>

LInvoke ==
  /\ l <= Len(Ev) /\ Ev[l].e = "inv" /\ pend[Ev[l].t].st = "idle"
  /\ pend' = [pend EXCEPT ![Ev[l].t] = [st |-> "inv", op |-> Ev[l].op, k |-> Ev[l].k, v |-> Ev[l].v, r |-> ""]]
  /\ l' = l + 1
  /\ UNCHANGED <<base, par, ov, used, its, res>>
LLin(t) ==            \* the silent atomic step of a pending call
  /\ pend[t].st = "inv"
  /\ Atomic(pend[t])
  /\ pend' = [pend EXCEPT ![t].st = "lin", ![t].r = ToJson(res')]
  /\ l' = l
LReturn ==
  /\ l <= Len(Ev) /\ Ev[l].e = "ret" /\ pend[Ev[l].t].st = "lin"
  /\ pend[Ev[l].t].r = ToJson(Ev[l].res)              \* the call returned what its atomic step returned
  /\ pend' = [pend EXCEPT ![Ev[l].t] = Idle]
  /\ l' = l + 1
  /\ UNCHANGED <<base, par, ov, used, its, res>>
LNext ==
  /\ LInvoke \/ LReturn \/ \E t \in T0 : LLin(t)
  /\ act' = "l" /\ UNCHANGED <<nops, phase, run, chist>>
LSpec == LInit /\ [][LNext]_cvars
Linearized == (phase = "lin" /\ l = Len(Ev) + 1) => PrintT(<<"LIN", run>>)

\* constants
KC == {<<1>>, <<1, 1>>}
ValBC(s) == {"b", "c"}
=============================================================================
