\* refinement, exhaustive: 3 keys, 1 wrapper, every range and direction (atomic iterations)
SPECIFICATION ISpecH
CONSTANTS
  Keys <- K3
  Bounds <- B3
  OpenRanges <- OR1
  BaseInit <- BaseA
  SetVals <- ValById
  MaxW = 1
  MaxDepth = 1
  MaxIt = 0
  BaseOps = TRUE
  HistLen = 0
  Probe = FALSE
VIEW IViewVars
INVARIANTS TypeOK Inv_Refines Inv_SortedCache Inv_ImplReadsAreView Inv_IterationIsView Inv_ReadsAreView
PROPERTY IProp
