SPECIFICATION TSpec
CONSTANTS
  Stacks <- TrStacks
  Meters <- TrMeters
  UserKeys <- TrUserKeys
  U <- TrU
  Bounds <- BndSmall
  Vals <- V2
  Inits <- InitsFew
  GasCap = 0
  OpenIts = TRUE
  HistLen = 0
INVARIANT Done
CHECK_DEADLOCK FALSE
