\* C19 signatures, thorough B: up to 3 atoms, all damaged forms, one-atom inner multisignatures as well
CONSTANTS
    NK = 3
    MaxLeaves = 3
    Msg = 1
    OtherMsg = 2
    Damaged = {"mut", "trunc", "empty"}
    SingleInner = TRUE
INIT Init
NEXT Next
CHECK_DEADLOCK FALSE
INVARIANTS Inv_VerifyIffSignedInPosition Inv_BindsMessage Inv_EmptySlotNeverVerifies Inv_AllGoodSlotsVerify PrintCase
