\* quick tier: refinement, exhaustive: 2 keys (one a prefix of the other), 1 wrapper, 1 open iterator, all ranges
SPECIFICATION ISpecH
CONSTANTS
  Keys <- K2
  Bounds <- B2
  OpenRanges <- OR2
  BaseInit <- BaseA
  SetVals <- ValById
  MaxW = 1
  MaxDepth = 1
  MaxIt = 1
  BaseOps = TRUE
  HistLen = 0
  Probe = FALSE
VIEW IViewVars
INVARIANTS TypeOK Inv_Refines Inv_SortedCache Inv_ImplReadsAreView Inv_IterationIsView Inv_ReadsAreView
PROPERTY IProp
