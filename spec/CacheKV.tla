------------------------------- MODULE CacheKV -------------------------------
(***************************************************************************)
(* C15, abstract level: cache-wrapped stores as a tree of overlays over a   *)
(* base map (store/cachekv, store/cachemulti over store/dbadapter{MemDB}).  *)
(*                                                                         *)
(* Store 0 is the base; stores 1..MaxW are cache wrappers, par[w] is the    *)
(* store w wraps.  A wrapper's overlay ov[w] holds its own sets and         *)
(* tombstones.  View(w) = the parent's view overlaid with ov[w].            *)
(*                                                                         *)
(* Encoding: an optional x is <<>> (nil / absent) or <<x>>.  Keys and       *)
(* bounds are sequences of bytes, compared like bytes.Compare.              *)
(*                                                                         *)
(* What is IN the KVStore / CacheWrap contract (and therefore generated):   *)
(*  - Get/Has/Set/Delete/Iterator/ReverseIterator on any usable store, any  *)
(*    range: nil bounds, start >= end ("Start must be less than end, or the *)
(*    Iterator is invalid" -> empty), bounds between keys;                  *)
(*  - Set/Delete/Get on a wrapper while iterators on THAT wrapper are open: *)
(*    an open iterator is a snapshot taken at creation and is not disturbed;*)
(*  - Write, CacheWrap (nesting), discard;                                  *)
(*  - REFUSED calls on a cache wrapper (any depth): Set with a nil value    *)
(*    (types.AssertValidValue) and Get/Has/Set/Delete with a nil key        *)
(*    (types.AssertValidKey).  cachekv.Store refuses them with a panic      *)
(*    before it reads the parent or touches its cache, so the call yields   *)
(*    res = "panic" and has NO effect: a refused call is not one of the     *)
(*    wrapper's sets or deletes, the view of every store, the open          *)
(*    iterators and the memoisation state (used) are what they were, and    *)
(*    the wrapper stays usable (the caller recovers, as baseapp.runTx does).*)
(*    Labels: SetNil(s, k), GetNoKey(s), HasNoKey(s), DeleteNoKey(s),       *)
(*    SetNoKey(s, v).  Not generated on store 0: dbadapter.Store{MemDB}     *)
(*    does not refuse them (tm-db nonNilBytes turns a nil value into an     *)
(*    empty value and a nil key into the empty key).                        *)
(* What is OUT of contract (never generated; the spec drops the objects):   *)
(*  - reading an iterator after a store it reads through (any proper        *)
(*    ancestor of its wrapper) was mutated, or after its wrapper was        *)
(*    written ("No writes may happen within a domain while an iterator      *)
(*    exists over it" applies to the parent iterators it holds);            *)
(*  - using a wrapper that has been used since its creation/last Write      *)
(*    (used[w]) after one of its ancestors was mutated by somebody else:    *)
(*    a cachekv.Store memoises parent reads, the SDK's rule is that the     *)
(*    parent is not modified while a cache wrap is in use.  A pristine      *)
(*    wrapper (fresh or just written) stays usable.                         *)
(***************************************************************************)
EXTENDS Integers, Sequences, FiniteSets, TLC, Json

CONSTANTS Keys,          \* finite set of keys (byte sequences)
          Bounds,        \* byte sequences used as iterator bounds (nil is added)
          OpenRanges,    \* set of <<optStart, optEnd>> for iterators that stay open
          BaseInit,      \* set of values the base may hold initially
          SetVals(_),    \* values that may be Set on store s
          MaxW,          \* wrapper ids 1..MaxW
          MaxDepth,      \* maximal nesting depth
          MaxIt,         \* iterator slots 1..MaxIt
          BaseOps        \* TRUE: Set/Delete directly on store 0 are generated

VARIABLES base,   \* [Keys -> optional value]
          par,    \* [1..MaxW -> -1..MaxW]   -1 = slot free
          ov,     \* [1..MaxW -> [Keys -> [d : BOOLEAN, v : optional value]]]  d = dirty, v=<<>> tombstone
          used,   \* [1..MaxW -> BOOLEAN]  touched since creation / last Write
          its,    \* [1..MaxIt -> [w : -1..MaxW, rest : Seq(<<key, value>>)]]
          res,    \* result of the last operation (observation)
          act     \* label of the last operation   (observation)

avars == <<base, par, ov, used, its>>
allvars == <<base, par, ov, used, its, res, act>>

None == <<>>
Some(x) == <<x>>

RECURSIVE Cmp(_, _)
Cmp(a, b) == IF a = <<>> THEN (IF b = <<>> THEN 0 ELSE -1)
             ELSE IF b = <<>> THEN 1
             ELSE IF a[1] < b[1] THEN -1
             ELSE IF a[1] > b[1] THEN 1
             ELSE Cmp(Tail(a), Tail(b))

\* tm-db IsKeyInDomain: key >= start (a nil start compares below everything) and (end = nil or key < end)
InDomain(k, st, en) == (st = None \/ Cmp(k, st[1]) >= 0) /\ (en = None \/ Cmp(k, en[1]) < 0)

MinKey(S) == CHOOSE k \in S : \A j \in S : Cmp(k, j) <= 0
RECURSIVE SortAsc(_)
SortAsc(S) == IF S = {} THEN <<>> ELSE LET m == MinKey(S) IN <<m>> \o SortAsc(S \ {m})
Rev(s) == [i \in 1..Len(s) |-> s[Len(s) + 1 - i]]

OptBounds == {None} \cup {Some(b) : b \in Bounds}
NoEnt == [d |-> FALSE, v |-> None]
EmptyOv == [k \in Keys |-> NoEnt]
NoIt == [w |-> -1, rest |-> <<>>]
W == 1..MaxW

\* ---- the tree ---------------------------------------------------------------------------
RECURSIVE AncIn(_, _)
AncIn(p, s) == IF s = 0 THEN {} ELSE {p[s]} \cup AncIn(p, p[s])
Anc(s) == AncIn(par, s)
Desc(s) == {d \in W : par[d] # -1 /\ s \in Anc(d)}
Depth(s) == Cardinality(Anc(s))
Exists(s) == IF s = 0 THEN TRUE ELSE (s \in W /\ par[s] # -1)   \* IF, not \/: TLC splits disjunctions in actions
Usable(s) == Exists(s)       \* wrappers that left the contract are dropped at once (see Gone)

\* ---- views ------------------------------------------------------------------------------
RECURSIVE ViewIn(_, _, _, _)
ViewIn(b, p, o, s) == IF s = 0 THEN b
                      ELSE LET pv == ViewIn(b, p, o, p[s])
                           IN [k \in Keys |-> IF o[s][k].d THEN o[s][k].v ELSE pv[k]]
View(s) == ViewIn(base, par, ov, s)

\* the items an iteration over [st, en) of a map yields: sorted, only existing keys
RangeItems(view, st, en, asc) ==
  LET ks == {k \in Keys : view[k] # None /\ InDomain(k, st, en)}
      sk == SortAsc(ks)
      sq == IF asc THEN sk ELSE Rev(sk)
  IN [i \in 1..Len(sq) |-> <<sq[i], view[sq[i]][1]>>]

HeadOpt(s) == IF s = <<>> THEN None ELSE Some(s[1])

\* ---- contract bookkeeping -----------------------------------------------------------------
\* stores touched by an operation on s: s and its wrapper ancestors (reads are memoised upwards)
Touch(s) == [d \in W |-> IF d = s \/ d \in Anc(s) THEN TRUE ELSE used[d]]
\* The content of store s is changed by somebody; `ex` (a writer and what is stacked on it) stays
\* coherent.  A wrapper below s that was used (or reads through a used one) has memoised reads of
\* the old content: it leaves the contract and is dropped from the model (drivers discard it).
Gone(s, ex) == {d \in Desc(s) \ ex : \E x \in (({d} \cup Anc(d)) \cap Desc(s)) \ ex : used[x]}
\* every iterator on a proper descendant of a mutated store reads through it: dropped
ItDead(i, s, gone) == its[i].w \in Desc(s) \/ its[i].w \in gone

Lbl(op, s, k, v, st, en, asc, it) ==
  [op |-> op, s |-> s, k |-> k, v |-> v, st |-> st, en |-> en, asc |-> asc, it |-> it]

\* ---- operations (abstract variables and res only; act is set by Next) ----------------------
Get(s, k) ==
  /\ Usable(s)
  /\ res' = View(s)[k]
  /\ used' = Touch(s)
  /\ UNCHANGED <<base, par, ov, its>>

Has(s, k) ==
  /\ Usable(s)
  /\ res' = (View(s)[k] # None)
  /\ used' = Touch(s)
  /\ UNCHANGED <<base, par, ov, its>>

Put(s, k, optv) ==       \* Set (optv = <<v>>) or Delete (optv = <<>>)
  /\ Usable(s)
  /\ LET gone == Gone(s, {}) IN
     /\ base' = IF s = 0 THEN [base EXCEPT ![k] = optv] ELSE base
     /\ ov' = [d \in W |-> IF d \in gone THEN EmptyOv
                           ELSE IF d = s THEN [ov[s] EXCEPT ![k] = [d |-> TRUE, v |-> optv]] ELSE ov[d]]
     /\ par' = [d \in W |-> IF d \in gone THEN -1 ELSE par[d]]
     /\ used' = [d \in W |-> IF d \in gone THEN FALSE ELSE Touch(s)[d]]
     /\ its' = [i \in 1..MaxIt |-> IF ItDead(i, s, gone) THEN NoIt ELSE its[i]]
  /\ res' = "ok"

Set(s, k, v) == Put(s, k, Some(v))
Delete(s, k) == Put(s, k, None)

IterAll(s, st, en, asc) ==      \* create, drain, close in one go
  /\ Usable(s)
  /\ res' = RangeItems(View(s), st, en, asc)
  /\ used' = Touch(s)
  /\ UNCHANGED <<base, par, ov, its>>

FreeIt == {i \in 1..MaxIt : its[i].w = -1}
IterOpen(s, st, en, asc) ==
  /\ s # 0 /\ Usable(s)
  /\ FreeIt # {}
  /\ LET i == CHOOSE x \in FreeIt : \A y \in FreeIt : x <= y
         items == RangeItems(View(s), st, en, asc)
     IN /\ its' = [its EXCEPT ![i] = [w |-> s, rest |-> items]]
        /\ res' = [it |-> i, cur |-> HeadOpt(items)]
  /\ used' = Touch(s)
  /\ UNCHANGED <<base, par, ov>>

IterNext(i) ==
  /\ its[i].w # -1 /\ its[i].rest # <<>>
  /\ its' = [its EXCEPT ![i].rest = Tail(its[i].rest)]
  /\ res' = HeadOpt(Tail(its[i].rest))
  /\ UNCHANGED <<base, par, ov, used>>

IterClose(i) ==
  /\ its[i].w # -1
  /\ its' = [its EXCEPT ![i] = NoIt]
  /\ res' = "ok"
  /\ UNCHANGED <<base, par, ov, used>>

Write(w) ==
  /\ w \in W /\ Usable(w)
  /\ LET p == par[w]
         gone == Gone(p, {w} \cup Desc(w))
         t == Touch(w)
     IN
     /\ base' = IF p = 0 THEN View(w) ELSE base
     /\ ov' = [d \in W |-> IF d \in gone \/ d = w THEN EmptyOv
                           ELSE IF d = p THEN [k \in Keys |-> IF ov[w][k].d THEN ov[w][k] ELSE ov[p][k]]
                           ELSE ov[d]]
     /\ par' = [d \in W |-> IF d \in gone THEN -1 ELSE par[d]]
     /\ used' = [d \in W |-> IF d \in gone \/ d = w THEN FALSE ELSE t[d]]
     /\ its' = [i \in 1..MaxIt |-> IF ItDead(i, p, gone) THEN NoIt ELSE its[i]]
  /\ res' = "ok"

\* a call the wrapper refuses with a panic (nil value / nil key): no effect whatsoever.  `used` is
\* untouched as well: AssertValidKey/AssertValidValue run before the parent is read or the cache written.
RefusedOps == {"SetNil", "GetNoKey", "HasNoKey", "DeleteNoKey", "SetNoKey"}
Refused(s) ==
  /\ s \in W /\ Usable(s)
  /\ res' = "panic"
  /\ UNCHANGED <<base, par, ov, used, its>>

FreeW == {n \in W : par[n] = -1}
CacheWrap(s) ==
  /\ Usable(s) /\ Depth(s) < MaxDepth /\ FreeW # {}
  /\ LET n == CHOOSE x \in FreeW : \A y \in FreeW : x <= y IN
     /\ par' = [par EXCEPT ![n] = s]
     /\ res' = n
  /\ UNCHANGED <<base, ov, used, its>>

Discard(w) ==          \* drop w and everything stacked on it
  /\ w \in W /\ par[w] # -1
  /\ LET gone == {w} \cup Desc(w) IN
     /\ par' = [d \in W |-> IF d \in gone THEN -1 ELSE par[d]]
     /\ ov' = [d \in W |-> IF d \in gone THEN EmptyOv ELSE ov[d]]
     /\ used' = [d \in W |-> IF d \in gone THEN FALSE ELSE used[d]]
     /\ its' = [i \in 1..MaxIt |-> IF its[i].w \in gone THEN NoIt ELSE its[i]]
  /\ res' = "ok"
  /\ base' = base

\* ---- specification ------------------------------------------------------------------------
OptVals(S) == {None} \cup {Some(v) : v \in S}

AInit ==
  /\ base \in [Keys -> OptVals(BaseInit)]
  /\ par = [w \in W |-> -1]
  /\ ov = [w \in W |-> EmptyOv]
  /\ used = [w \in W |-> FALSE]
  /\ its = [i \in 1..MaxIt |-> NoIt]
  /\ res = "init"
  /\ act = Lbl("Init", 0, <<>>, "", None, None, TRUE, 0)

Stores == 0..MaxW

ANext ==
  \/ \E s \in Stores, k \in Keys :
        \/ Get(s, k) /\ act' = Lbl("Get", s, k, "", None, None, TRUE, 0)
        \/ Has(s, k) /\ act' = Lbl("Has", s, k, "", None, None, TRUE, 0)
        \/ (IF s = 0 THEN BaseOps ELSE TRUE) /\ Delete(s, k) /\ act' = Lbl("Delete", s, k, "", None, None, TRUE, 0)
        \/ \E v \in SetVals(s) : (IF s = 0 THEN BaseOps ELSE TRUE) /\ Set(s, k, v) /\ act' = Lbl("Set", s, k, v, None, None, TRUE, 0)
  \/ \E s \in Stores, st \in OptBounds, en \in OptBounds, asc \in BOOLEAN :
        IterAll(s, st, en, asc) /\ act' = Lbl("IterAll", s, <<>>, "", st, en, asc, 0)
  \/ \E s \in W, r \in OpenRanges, asc \in BOOLEAN :
        IterOpen(s, r[1], r[2], asc) /\ act' = Lbl("IterOpen", s, <<>>, "", r[1], r[2], asc, res'.it)
  \/ \E i \in 1..MaxIt :
        \/ IterNext(i) /\ act' = Lbl("IterNext", its[i].w, <<>>, "", None, None, TRUE, i)
        \/ IterClose(i) /\ act' = Lbl("IterClose", its[i].w, <<>>, "", None, None, TRUE, i)
  \/ \E w \in W :
        \/ Write(w) /\ act' = Lbl("Write", w, <<>>, "", None, None, TRUE, 0)
        \/ Discard(w) /\ act' = Lbl("Discard", w, <<>>, "", None, None, TRUE, 0)
  \/ \E s \in Stores : CacheWrap(s) /\ act' = Lbl("CacheWrap", s, <<>>, "", None, None, TRUE, 0)
  \/ \E s \in W :
        \/ \E k \in Keys : Refused(s) /\ act' = Lbl("SetNil", s, k, "", None, None, TRUE, 0)
        \/ \E o \in {"GetNoKey", "HasNoKey", "DeleteNoKey"} : Refused(s) /\ act' = Lbl(o, s, <<>>, "", None, None, TRUE, 0)
        \/ \E v \in SetVals(s) : Refused(s) /\ act' = Lbl("SetNoKey", s, <<>>, v, None, None, TRUE, 0)

ASpec == AInit /\ [][ANext]_allvars

\* ---- the property on the abstract level ---------------------------------------------------
TypeOK ==
  /\ \A w \in W : par[w] \in (-1..MaxW) \ {w}
  /\ \A w \in W : par[w] = -1 => (ov[w] = EmptyOv /\ ~used[w])
  /\ \A w \in W : par[w] > 0 => par[par[w]] # -1
  /\ \A i \in 1..MaxIt : its[i].w # -1 => Usable(its[i].w)

IsSorted(items, asc) ==
  \A i \in 1..(Len(items) - 1) :
      IF asc THEN Cmp(items[i][1], items[i + 1][1]) < 0 ELSE Cmp(items[i][1], items[i + 1][1]) > 0

\* iteration results: sorted, no duplicates, no deleted keys, inside the range, exactly the view
Inv_IterationIsView ==
  act.op = "IterAll" =>
     /\ IsSorted(res, act.asc)
     /\ \A i \in 1..Len(res) : InDomain(res[i][1], act.st, act.en) /\ View(act.s)[res[i][1]] = Some(res[i][2])
     /\ \A k \in Keys : (View(act.s)[k] # None /\ InDomain(k, act.st, act.en)) => \E i \in 1..Len(res) : res[i][1] = k
Inv_ReadsAreView ==
  /\ act.op = "Get" => res = View(act.s)[act.k]
  /\ act.op = "Has" => res = (View(act.s)[act.k] # None)

\* a step changes the view of a store only if it mutates that store or one of its ancestors
Mutated == IF act'.op \in {"Set", "Delete"} THEN {act'.s}
           ELSE IF act'.op = "Write" THEN {par[act'.s]} ELSE {}
StillThere(s) == IF s = 0 THEN TRUE ELSE (par[s] # -1 /\ par'[s] # -1)
Act_UnchangedUntilWrite ==
  \A s \in Stores : (StillThere(s) /\ ViewIn(base', par', ov', s) # View(s))
       => (Mutated \cap ({s} \cup Anc(s)) # {})
Act_WriteAppliesView ==
  act'.op = "Write" =>
     LET w == act'.s IN
     /\ ViewIn(base', par', ov', par[w]) = View(w)       \* parent holds exactly the overlaid view
     /\ ov'[w] = EmptyOv /\ ~used'[w]                    \* wrapper is clean
     /\ ViewIn(base', par', ov', w) = View(w)
Act_DiscardNoEffect ==
  act'.op = "Discard" =>
     /\ base' = base
     /\ \A s \in W : par'[s] # -1 => (ov'[s] = ov[s] /\ ViewIn(base', par', ov', s) = View(s))

\* a refused call reports the panic and takes effect not at all (atomicity of each call)
Act_RefusedNoEffect ==
  act'.op \in RefusedOps =>
     /\ res' = "panic"
     /\ UNCHANGED <<base, par, ov, used, its>>
     /\ \A s \in Stores : Exists(s) => ViewIn(base', par', ov', s) = View(s)

\* result predicates are checked on every transition as well (res/act are outside the VIEW; TLC
\* evaluates INVARIANTS only on states whose view is new)
AProp == [][Act_UnchangedUntilWrite /\ Act_WriteAppliesView /\ Act_DiscardNoEffect /\ Act_RefusedNoEffect
            /\ Inv_IterationIsView' /\ Inv_ReadsAreView']_allvars

\* ---- constant sets for the configurations ------------------------------------------------
K3 == {<<1>>, <<1, 1>>, <<2>>}                       \* <<1>> is a proper prefix of <<1,1>>
K2 == {<<1>>, <<1, 1>>}
B3 == {<<1>>, <<1, 0>>, <<1, 1>>, <<1, 2>>, <<2>>, <<3>>}   \* each key and values between/around keys
B2 == {<<1>>, <<1, 0>>, <<1, 1>>, <<2>>}
B3small == {<<1>>, <<1, 1>>, <<1, 2>>, <<3>>}
B3tiny == {<<1, 0>>}
BNone == {}
OR3 == {<<None, None>>, <<Some(<<1>>), Some(<<2>>)>>, <<Some(<<1, 0>>), None>>, <<None, Some(<<1, 2>>)>>}
OR3b == {<<None, None>>, <<Some(<<1, 0>>), Some(<<3>>)>>}
OR2 == {<<None, None>>, <<Some(<<1, 0>>), None>>, <<None, Some(<<1, 1>>)>>}
OR1 == {<<None, None>>}
ValById(s) == {<<"a", "b", "c", "d">>[s + 1]}        \* provenance visible: store s sets its own letter
ValTwo(s) == IF s = 0 THEN {"a"} ELSE {"b", "c"}
ValNest(s) == IF s = 2 THEN {"b"} ELSE {"a"}      \* base and wrapper 1 share a value: fewer base contents
BaseA == {"a"}

AView == avars

\* ---- behaviours for the binding ---------------------------------------------------------------
\* labelled state graph: EdgeOut is evaluated once per generated successor (ACTION_CONSTRAINT), so
\* an exhaustive run prints every transition <<pre, label, result, post>>.  States are printed in
\* a compact form: functions over Keys become sequences in ascending key order (KEYS line).
KeySeq == SortAsc(Keys)
B01(b) == IF b THEN 1 ELSE 0
CompactIn(b, p, o, u, t) ==
  <<[i \in 1..Len(KeySeq) |-> b[KeySeq[i]]], p,
    [w \in W |-> [i \in 1..Len(KeySeq) |-> <<B01(o[w][KeySeq[i]].d), o[w][KeySeq[i]].v>>]],
    [w \in W |-> B01(u[w])],
    [i \in 1..MaxIt |-> <<t[i].w, t[i].rest>>]>>
EdgeOut == PrintT(<<"EDGE", ToJson(<<CompactIn(base, par, ov, used, its), act', res',
                                     CompactIn(base', par', ov', used', its')>>)>>)
ASSUME PrintT(<<"KEYS", ToJson(KeySeq)>>)
=============================================================================
