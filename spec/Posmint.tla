------------------------------- MODULE Posmint -------------------------------
(***************************************************************************)
(* The ABCI application of posmint: BaseApp + x/auth (balances, supply,    *)
(* fee deduction) + x/pos (staking, unstaking queue, power index, slashing,*)
(* jailing, downtime window, rewards) + the Tendermint environment that    *)
(* applies validator updates with a two-block delay and offers votes and   *)
(* evidence.                                                                *)
(*                                                                          *)
(* The specification is implementation shaped: one operator per keeper      *)
(* function that is a critical section of the Go code, guards in the       *)
(* code's order, effects in the code's order.  It is written functionally: *)
(* the whole abstract state is ONE record `st`; Step(st, a) is the state    *)
(* after executing action record `a`.  The same operators therefore serve   *)
(* exhaustive checking (Next), simulation with a history (PosmintSim) and   *)
(* trace validation of recorded real executions (Trace_Posmint).            *)
(*                                                                          *)
(* Accounts are integers: 1..N users (id order = address byte order),      *)
(* N+1 fee collector, N+2 staked pool, N+3 pos module, N+4 DAO, N+5 OUT:   *)
(* every other address of the usual length together, N+6 ODD: every       *)
(* address of another length (a message carries any byte string; only the  *)
(* JSON form of an address checks its length).                             *)
(***************************************************************************)
EXTENDS Integers, Sequences, FiniteSets, FiniteSetsExt, TLC

CONSTANTS
  N,            \* number of user accounts / potential validators
  PR,           \* power reduction (10^6 in the shipped code)
  MinStake,     \* pos/StakeMinimum
  MaxVals,      \* pos/MaxValidators
  UnstakeTime,  \* ticks
  Window,       \* SignedBlocksWindow
  MinSignedNum, \* pos/MinSignedPerWindow as the fraction MinSignedNum / MinSignedDen
  MinSignedDen,
  JailDur,      \* ticks
  MaxEvAge,     \* ticks
  FracDen,      \* common denominator of all slash fractions
  FracDS,       \* numerator of SlashFractionDoubleSign
  FracDT,       \* numerator of SlashFractionDowntime
  Fee,          \* required fee of every pos message (base fee * multiplier)
  GenBal,       \* <<b1..bN>> genesis balances
  GenVals,      \* set of [v, tokens, status, jailed, uat] genesis validators (staked or unstaking)
  GenExported,  \* BOOLEAN: the genesis is an export of a running chain (carries previous-state powers)
  GenPrev,      \* <<p1..pN>> previous-state power per validator in an exported genesis (-1 = none)
  DaoTokens,    \* DAO tokens minted at genesis
  Dev,          \* set of named deviations of the code from the intended design
  \* environment bounds
  Amts,         \* amount alphabet for stake / send / award
  Dts,          \* block time increments
  BurnNums,     \* numerators for custom burns
  MaxHeight,    \* stop after this many blocks
  MaxTx,        \* per block
  MaxExt,       \* ExtAward/ExtBurn per block
  EvOn,         \* BOOLEAN: offer double-sign evidence
  MissOn,       \* BOOLEAN: offer missed votes
  BadTxOn,      \* BOOLEAN: offer malformed / unauthorised transactions
  Kinds,        \* enabled transaction kinds \subseteq {"stake","unstake","unjail","send"}
  SendTos,      \* recipients offered to send
  Props,        \* proposers offered to BeginBlock (0 = unknown address)
  AwardTos,     \* recipients offered to ExtAward
  EvPowers,     \* reported powers offered with evidence
  EvUnknown,    \* BOOLEAN: also offer evidence against addresses the application does not know
  MaxRO,        \* read-only calls (CheckTx / Simulate / Query) offered per block phase
  ParamOwner,   \* the account the ACL names as owner of the pos parameters
  ParamVals,    \* values offered for pos/MaxValidators by "setparam" transactions
  MaxExports,   \* how many export/import restarts the environment may take
  EvHBacks,     \* how far behind the current height the infraction a piece of evidence reports lies (negative: ahead)
  EvTwo,        \* TRUE: a block may also carry two pieces of evidence (against different validators)
  SecpUsers,    \* users whose key is of a type the chain's consensus parameters do not admit for validators
  MaxCrashes    \* how many times the node may crash (lose everything not committed) and be reopened

FEE  == N + 1
POOL == N + 2
POSM == N + 3
DAO  == N + 4
Users == 1..N
OUT  == N + 5
ODD  == N + 6
Accts == 1..(N + 6)
INF == 99999

Unstaked == 0
Unstaking == 1
Staked == 2

VARIABLE st

-----------------------------------------------------------------------------
(* small helpers *)
Min2(a, b) == IF a < b THEN a ELSE b
Max2(a, b) == IF a > b THEN a ELSE b
Power(t) == t \div PR
SumOver(S, f(_)) == FoldSet(LAMBDA x, acc : acc + f(x), 0, S)
SeqToSet(q) == {q[i] : i \in 1..Len(q)}
RemoveFromSeq(q, x) == SelectSeq(q, LAMBDA y : y # x)

\* keeper/params.go MinSignedPerWindow: Dec(frac).MulInt64(window).RoundInt64() - round half to even
RoundHalfEven(n, d) ==
  LET q == n \div d
      r == n % d
  IN IF 2 * r < d THEN q ELSE IF 2 * r > d THEN q + 1 ELSE IF q % 2 = 0 THEN q ELSE q + 1
MinSigned == RoundHalfEven(MinSignedNum * Window, MinSignedDen)

NoVal == [ex |-> FALSE, status |-> Unstaked, jailed |-> FALSE, tokens |-> 0, uat |-> -1]
NoInfo == [ex |-> FALSE, start |-> 0, offset |-> 0, missed |-> 0, until |-> -1, tomb |-> FALSE]

PreGenesis ==
  [ phase |-> "init", height |-> 0, time |-> 0, halt |-> "",
    bal |-> [a \in Accts |-> 0], supply |-> 0,
    val |-> [v \in Users |-> NoVal],
    pidx |-> {}, prev |-> [v \in Users |-> -1], prevTotal |-> 0,
    uq |-> {},
    sinfo |-> [v \in Users |-> NoInfo],
    bits |-> [v \in Users |-> {}],
    awardQ |-> [a \in Accts |-> 0], burnQ |-> [v \in Users |-> -1],   \* burnQ: -1 = no entry
    proposer |-> -1, pkrel |-> {},
    \* the two pos parameters a governance transaction may change in this model
    par |-> [maxVals |-> MaxVals, minStake |-> MinStake], minChanged |-> FALSE,
    \* pos/StakeDenom changed by governance to a denomination nobody holds (only offered by
    \* environments without validators, awards or evidence: everything but staking is then unaffected)
    denomAlt |-> FALSE,
    \* what sits at the pos module account's address: nothing yet, the module account (created by the
    \* first fee distribution), or a plain account that a transfer to that address created before
    posmAcc |-> "none",
    \* Tendermint: vs[1] signs the next BeginBlock's LastCommitInfo, vs[2] is the set of the
    \* block begun next, vs[3] the one after (where EndBlock's updates land)
    vs |-> << [v \in Users |-> 0], [v \in Users |-> 0], [v \in Users |-> 0] >>,
    \* bookkeeping of the environment / ghosts
    ntx |-> 0, next |-> 0, nro |-> 0, nexp |-> 0, blocks |-> 0, ncrash |-> 0,
    \* the state as of the last Commit (<< >> before the first one): what a crashed node reopens with
    snap |-> << >>,
    \* the answers to every kind of query as of the last Commit (opaque digests supplied by the trace; the
    \* specification only says that an answer is a function of the committed state: it does not change
    \* until the next Commit, whatever the block in progress has written)
    qans |-> << >>,
    \* digests of the real stores (auth store; all other stores); only the trace monitor sets them
    dAuth |-> "", dRest |-> "",
    \* which of the named accounts have a record in the auth store (observed only; a rejected call creates none)
    accex |-> << >>,
    minted |-> 0, burned |-> 0, donated |-> 0, fees |-> 0,
    gwin |-> [v \in Users |-> << >>],
    lastRes |-> "n/a", lastUpd |-> {}, updOk |-> TRUE,
    jailedNow |-> {}, slashLog |-> << >>, early |-> FALSE ]

-----------------------------------------------------------------------------
(* x/auth bank keeper *)

HasCoins(s, a, amt) == s.bal[a] >= amt

\* SendCoins: SubtractCoins then AddCoins; fails without effect when funds are short
Send(s, from, to, amt) ==
  [s EXCEPT !.bal = [@ EXCEPT ![from] = @ - amt, ![to] = @ + amt],
            !.posmAcc = IF to = POSM /\ @ = "none" THEN "plain" ELSE @]

MintTo(s, a, amt) ==   \* MintCoins(module a)
  [s EXCEPT !.bal = [@ EXCEPT ![a] = @ + amt], !.supply = @ + amt, !.minted = @ + amt]

BurnFrom(s, a, amt) == \* BurnCoins(module a); caller checked funds
  [s EXCEPT !.bal = [@ EXCEPT ![a] = @ - amt], !.supply = @ - amt, !.burned = @ + amt]

-----------------------------------------------------------------------------
(* x/pos keeper: validator store, power index, unstaking queue *)

SetVal(s, v, rec) == [s EXCEPT !.val = [@ EXCEPT ![v] = rec]]

IdxKey(rec, v) == << Power(rec.tokens), v >>

\* keeper/valStaked.go SetStakedValidator
SetStakedValidator(s, v, rec) ==
  IF rec.jailed \/ ("IndexNonStaked" \notin Dev /\ rec.status # Staked)
  THEN s ELSE [s EXCEPT !.pidx = @ \cup {IdxKey(rec, v)}]

DeleteFromStakingSet(s, v, rec) == [s EXCEPT !.pidx = @ \ {IdxKey(rec, v)}]

UqBucket(s, t) == IF \E e \in s.uq : e.t = t THEN (CHOOSE e \in s.uq : e.t = t).ids ELSE << >>
UqSet(s, t, ids) ==
  LET rest == {e \in s.uq : e.t # t}
  IN [s EXCEPT !.uq = IF ids = << >> THEN rest ELSE rest \cup {[t |-> t, ids |-> ids]}]

\* valUnstaked.go SetUnstakingValidator / deleteUnstakingValidator
SetUnstakingValidator(s, v, rec) == UqSet(s, rec.uat, Append(UqBucket(s, rec.uat), v))
DeleteUnstakingValidator(s, v, rec) == UqSet(s, rec.uat, RemoveFromSeq(UqBucket(s, rec.uat), v))

\* pool.go burnStakedTokens: error (no effect) for a non-positive amount or an underfunded pool
CanBurnStaked(s, amt) == amt > 0 /\ s.bal[POOL] >= amt

\* valStateChanges.go StakeValidator
StakeValidator(s, v, rec, amt) ==
  LET s1 == Send(s, v, POOL, amt)
      rec1 == [rec EXCEPT !.tokens = @ + amt, !.status = Staked]
      s2 == SetStakedValidator(SetVal(s1, v, rec1), v, rec1)
  IN IF s2.sinfo[v].ex THEN s2
     ELSE [s2 EXCEPT !.sinfo = [@ EXCEPT ![v] = [NoInfo EXCEPT !.ex = TRUE, !.start = s.height]]]

\* valStateChanges.go ForceValidatorUnstake.  Returns [s, ok].
ForceUnstake(s, v) ==
  LET rec == s.val[v]
      s1 == DeleteFromStakingSet(s, v, rec)
  IN IF ~CanBurnStaked(s1, rec.tokens) /\ ~(rec.tokens = 0 /\ "ForceUnstakeZeroErr" \notin Dev)
     THEN [s |-> s1, ok |-> FALSE]          \* burn of a non-positive amount is an error: early return
     ELSE LET s2 == IF rec.tokens > 0 THEN BurnFrom(s1, POOL, rec.tokens) ELSE s1
              s3 == IF rec.status = Unstaking /\ "StaleQueueOnForce" \notin Dev
                    THEN DeleteUnstakingValidator(s2, v, rec) ELSE s2
              rec1 == [rec EXCEPT !.tokens = 0, !.status = Unstaked]
          IN [s |-> SetVal(s3, v, rec1), ok |-> TRUE]

\* trunc(power * PR * num / FracDen), computed without leaving TLC's 32-bit integers
SlashAmt(power, num) ==
  LET amt == power * PR IN (amt \div FracDen) * num + ((amt % FracDen) * num) \div FracDen

\* slash.go slash (validateSlash + burn + force unstake below the minimum); errors are logged only
Slash(s, v, infH, power, num) ==
  IF num < 0 \/ infH > s.height \/ ~s.val[v].ex \/ s.val[v].status = Unstaked THEN s
  ELSE
    LET rec == s.val[v]
        slashAmt == SlashAmt(power, num)
        burn == Max2(Min2(slashAmt, rec.tokens), 0)
        rec1 == [rec EXCEPT !.tokens = @ - burn]
        \* removeValidatorTokens: delete old key, SetValidator, SetStakedValidator
        s1 == SetStakedValidator(SetVal(DeleteFromStakingSet(s, v, rec), v, rec1), v, rec1)
        logged == [s1 EXCEPT !.slashLog = Append(@, [v |-> v, power |-> power, num |-> num, before |-> rec.tokens, burn |-> burn])]
    IN IF ~CanBurnStaked(logged, burn) THEN logged     \* ErrBurnStakedTokens: returns before the minimum check
       ELSE LET s2 == BurnFrom(logged, POOL, burn)
            IN IF rec1.tokens < s.par.minStake THEN ForceUnstake(s2, v).s ELSE s2

\* valStateChanges.go JailValidator (caller made sure it is not jailed)
JailValidator(s, v) ==
  LET rec == [s.val[v] EXCEPT !.jailed = TRUE]
  IN [DeleteFromStakingSet(SetVal(s, v, rec), v, rec) EXCEPT !.jailedNow = @ \cup {v}]

-----------------------------------------------------------------------------
(* message handlers (x/pos/handler.go); each returns [s, ok] *)

Ok(s) == [s |-> s, ok |-> TRUE]
Err(s) == [s |-> s, ok |-> FALSE]

HandleStake(s, v, amt) ==
  LET rec == IF s.val[v].ex THEN s.val[v] ELSE [NoVal EXCEPT !.ex = TRUE]
  IN IF ~s.val[v].ex /\ v \in SecpUsers THEN Err(s)           \* stakeNewValidator: ErrValidatorPubKeyTypeNotSupported
     ELSE IF rec.status # Unstaked THEN Err(s)              \* ErrValidatorStatus
     ELSE IF s.sinfo[v].ex /\ s.sinfo[v].tomb /\ "TombstoneRejoin" \notin Dev THEN Err(s)   \* ErrValidatorTombstoned
     ELSE IF amt < s.par.minStake THEN Err(s)                      \* ErrMinimumStake
     ELSE IF ~HasCoins(s, v, amt) \/ s.denomAlt THEN Err(s)  \* ErrNotEnoughCoins (nobody holds the new denomination)
     ELSE LET s1 == IF s.val[v].ex THEN s
                    ELSE [SetVal(s, v, rec) EXCEPT !.pkrel = @ \cup {v}]   \* RegisterValidator
              rec0 == IF "StakeRecordDouble" \in Dev /\ ~s.val[v].ex THEN [rec EXCEPT !.tokens = amt] ELSE rec
          IN Ok(StakeValidator(s1, v, rec0, amt))

HandleBeginUnstake(s, v) ==
  LET rec == s.val[v]
  IN IF ~rec.ex THEN Err(s)                                  \* ErrNoValidatorFound
     ELSE IF rec.status # Staked THEN Err(s)                 \* ErrValidatorStatus
     ELSE IF rec.tokens < s.par.minStake THEN Err(s)         \* panic, recovered by runTx
     ELSE LET s1 == DeleteFromStakingSet(s, v, rec)
              rec1 == [rec EXCEPT !.status = Unstaking, !.uat = s.time + UnstakeTime]
          IN Ok(SetUnstakingValidator(SetVal(s1, v, rec1), v, rec1))

UnjailAllowed(s, v) ==
  /\ s.val[v].ex
  /\ s.val[v].tokens >= s.par.minStake
  /\ s.val[v].jailed
  /\ s.sinfo[v].ex
  /\ ~s.sinfo[v].tomb
  /\ s.time >= s.sinfo[v].until

HandleUnjail(s, v) ==
  IF ~UnjailAllowed(s, v) THEN Err(s)
  ELSE LET rec == [s.val[v] EXCEPT !.jailed = FALSE]
       IN Ok(SetStakedValidator(SetVal(s, v, rec), v, rec))

HandleSend(s, from, to, amt) ==
  IF ~HasCoins(s, from, amt) \/ s.denomAlt THEN Err(s)   \* pos sends move the stake denomination
  \* coins sent to the pool address stay there; coins sent to the fee collector join the next proposer's reward
  ELSE Ok([Send(s, from, to, amt) EXCEPT !.donated = IF to = POOL THEN @ + amt ELSE @,
                                         !.fees = IF to = FEE THEN @ + amt ELSE @])

\* x/gov ModifyParam for pos/MaxValidators (to = 1) and pos/StakeMinimum (to = 2), value in amt;
\* only the ACL owner (ParamOwner) may change a parameter
\* to = 4: a key in a subspace nobody registered ("nosuch/Foo"): no ACL lists it, refused for every sender
HandleSetParam(s, a) ==
  IF a.to = 4 \/ a.from # ParamOwner THEN Err(s)
  ELSE IF a.to = 3 THEN Ok([s EXCEPT !.denomAlt = TRUE])
  ELSE IF a.to = 1 THEN Ok([s EXCEPT !.par = [@ EXCEPT !.maxVals = a.amt]])
  ELSE Ok([s EXCEPT !.par = [@ EXCEPT !.minStake = a.amt], !.minChanged = @ \/ a.amt # s.par.minStake])

-----------------------------------------------------------------------------
(* BaseApp.DeliverTx: decode -> ValidateBasic -> ante (authorise, deduct fee) -> handler *)

TxBasicOk(a) ==
  CASE a.kind = "stake" -> a.amt > 0
    [] a.kind = "send"  -> a.amt > 0 /\ a.to # 0
    [] OTHER -> TRUE

DeliverTx(s, a) ==
  IF a.bad \in {"garbage", "sig", "mut", "replay"} \/ ~TxBasicOk(a) \/ a.fee < Fee \/ ~HasCoins(s, a.from, a.fee)
  THEN [s EXCEPT !.lastRes = "rej_pre", !.ntx = @ + 1]
  ELSE
    LET s1 == [Send(s, a.from, FEE, a.fee) EXCEPT !.fees = @ + a.fee]
        r == CASE a.kind = "stake"   -> HandleStake(s1, a.from, a.amt)
               [] a.kind = "unstake" -> HandleBeginUnstake(s1, a.from)
               [] a.kind = "unjail"  -> HandleUnjail(s1, a.from)
               [] a.kind = "send"    -> HandleSend(s1, a.from, a.to, a.amt)
               [] a.kind = "setparam" -> HandleSetParam(s1, a)
    IN [r.s EXCEPT !.lastRes = IF r.ok THEN "ok" ELSE IF a.fee > 0 THEN "rej_post" ELSE "rej_pre",
                   !.ntx = @ + 1]

-----------------------------------------------------------------------------
(* BeginBlocker *)

\* reward.go rewardFromFees
\* The pos module account is created by the first call (GetModuleAccount).  Observation on the code
\* as it is: if a transfer created a PLAIN account at that address first (possible during block 1),
\* GetModuleAccount hands back an empty ModuleAccount and the distribution dereferences nil: the
\* node halts at BeginBlock(2).
RewardFromFees(s) ==
  LET f == s.bal[FEE]
      s1 == [Send(s, FEE, POSM, f) EXCEPT !.posmAcc = "module"]
      p == s.proposer
  IN IF s.posmAcc = "plain" THEN [s EXCEPT !.halt = "pos-module-address-holds-plain-account"]
     \* the proposer's share is the collected amount OF THE STAKE DENOMINATION (nothing once it was changed)
     ELSE IF p \in Users /\ s.val[p].ex /\ ~s.denomAlt THEN Send(s1, POSM, p, f) ELSE s1

\* reward.go mintValidatorAwards (mint to the staked pool, forward to the address)
MintAwards(s) ==
  LET RECURSIVE go(_, _)
      go(t, S) == IF S = {} THEN t
                  ELSE LET a == CHOOSE x \in S : \A y \in S : x <= y
                           amt == IF "MintDouble" \in Dev THEN 2 * t.awardQ[a] ELSE t.awardQ[a]
                           t1 == Send(MintTo(t, POOL, amt), POOL, a, t.awardQ[a])
                       \* an award addressed to the pool account itself stays there, like a direct send
                       IN go([t1 EXCEPT !.awardQ = [@ EXCEPT ![a] = 0],
                                        !.donated = IF a = POOL THEN @ + t.awardQ[a] ELSE @,
                                        \* ... and one addressed to the fee collector joins the next proposer's reward
                                        !.fees = IF a = FEE THEN @ + t.awardQ[a] ELSE @], S \ {a})
  IN go(s, {a \in Accts : s.awardQ[a] > 0})

\* slash.go burnValidators: panics (halts) when a burn is queued for a validator that no longer exists
BurnValidators(s) ==
  LET RECURSIVE go(_, _)
      go(t, S) == IF S = {} \/ t.halt # "" THEN t
                  ELSE LET v == CHOOSE x \in S : \A y \in S : x <= y
                       IN IF ~t.val[v].ex THEN [t EXCEPT !.halt = "burn-missing-validator"]
                          ELSE LET cp == IF t.val[v].status = Staked THEN Power(t.val[v].tokens) ELSE 0
                                   t1 == Slash(t, v, t.height, cp, t.burnQ[v])
                               IN go([t1 EXCEPT !.burnQ = [@ EXCEPT ![v] = -1]], S \ {v})
  IN go(s, {v \in Users : s.burnQ[v] >= 0})

\* slash.go handleValidatorSignature
HandleSignature(s, v, power, signed) ==
  IF v \notin s.pkrel THEN [s EXCEPT !.halt = "vote-unknown-validator"]
  ELSE IF ~s.sinfo[v].ex THEN [s EXCEPT !.halt = "vote-no-signing-info"]
  ELSE
    LET info == s.sinfo[v]
        idx == info.offset % Window
        prevMissed == idx \in s.bits[v]
        missed == ~signed
        bits1 == IF ~prevMissed /\ missed THEN s.bits[v] \cup {idx}
                 ELSE IF prevMissed /\ ~missed THEN s.bits[v] \ {idx} ELSE s.bits[v]
        cnt1 == IF ~prevMissed /\ missed THEN info.missed + 1
                ELSE IF prevMissed /\ ~missed THEN info.missed - 1 ELSE info.missed
        info1 == [info EXCEPT !.offset = @ + 1, !.missed = cnt1]
        g0 == Append(s.gwin[v], missed)
        g1 == IF Len(g0) > Window THEN SubSeq(g0, Len(g0) - Window + 1, Len(g0)) ELSE g0
        s1 == [s EXCEPT !.bits = [@ EXCEPT ![v] = bits1], !.gwin = [@ EXCEPT ![v] = g1]]
        over == s.height > info.start + Window /\ cnt1 > Window - MinSigned
    IN IF over /\ s.val[v].ex /\ ~s.val[v].jailed
       THEN LET s2 == JailValidator(Slash(s1, v, s.height - 2, power, FracDT), v)
                info2 == [info1 EXCEPT !.until = s.time + JailDur, !.missed = 0, !.offset = 0]
            IN [s2 EXCEPT !.sinfo = [@ EXCEPT ![v] = info2], !.bits = [@ EXCEPT ![v] = {}],
                          !.gwin = [@ EXCEPT ![v] = << >>]]
       ELSE [s1 EXCEPT !.sinfo = [@ EXCEPT ![v] = info1]]

\* slash.go handleDoubleSign
HandleDoubleSign(s, e) ==
  LET v == e.v IN
  IF v \notin s.pkrel THEN [s EXCEPT !.halt = "evidence-unknown-address"]
  ELSE IF e.age > MaxEvAge THEN
       (IF "OldEvidenceSlashes" \in Dev THEN [s EXCEPT !.halt = "old-evidence-nil-deref"] ELSE s)
  ELSE IF ~s.val[v].ex \/ s.val[v].status = Unstaked THEN [s EXCEPT !.halt = "evidence-unstaked-validator"]
  ELSE IF ~s.sinfo[v].ex THEN [s EXCEPT !.halt = "evidence-no-signing-info"]
  ELSE IF s.sinfo[v].tomb THEN [s EXCEPT !.halt = "evidence-tombstoned"]
  ELSE
    LET wasJailed == s.val[v].jailed
        s1 == Slash(s, v, (s.height - e.hback) - 1, e.power, FracDS)
        s2 == IF wasJailed THEN s1 ELSE JailValidator(s1, v)
        f == ForceUnstake(s2, v)
    IN IF ~f.ok THEN [f.s EXCEPT !.halt = "double-sign-second-force-unstake"]
       ELSE [f.s EXCEPT !.sinfo = [@ EXCEPT ![v] = [s.sinfo[v] EXCEPT !.tomb = TRUE, !.until = INF]]]

FoldVotes(s, votes) ==
  LET RECURSIVE go(_, _)
      go(t, i) == IF i > Len(votes) \/ t.halt # "" THEN t
                  ELSE go(HandleSignature(t, votes[i][1], votes[i][3], votes[i][2] = 1), i + 1)
  IN go(s, 1)

FoldEvidence(s, evs) ==
  LET RECURSIVE go(_, _)
      go(t, i) == IF i > Len(evs) \/ t.halt # "" THEN t
                  ELSE go(HandleDoubleSign(t, evs[i]), i + 1)
  IN go(s, 1)

BeginBlock(s, a) ==
  LET s0 == [s EXCEPT !.height = @ + 1, !.blocks = @ + 1, !.time = @ + a.dt, !.phase = "begun", !.ntx = 0, !.next = 0, !.nro = 0,
                      !.lastRes = "n/a", !.jailedNow = {}, !.slashLog = << >>]
      s1 == IF s0.height > 1 THEN [RewardFromFees(s0) EXCEPT !.fees = 0] ELSE s0
      s2 == IF s1.halt # "" THEN s1 ELSE MintAwards(s1)
      s3 == IF s2.halt # "" THEN s2 ELSE BurnValidators(s2)
  IN IF s3.halt # "" THEN s3
     ELSE FoldEvidence(FoldVotes([s3 EXCEPT !.proposer = a.prop], a.votes), a.evs)

-----------------------------------------------------------------------------
(* EndBlocker *)

RankBefore(e, f) == e[1] > f[1] \/ (e[1] = f[1] /\ e[2] < f[2])    \* power desc, address asc
TopOfIndex(s) == {e \in s.pidx : Cardinality({f \in s.pidx : RankBefore(f, e)}) < s.par.maxVals}

\* valStateChanges.go UpdateTendermintValidators
UpdateTendermintValidators(s) ==
  LET top == TopOfIndex(s)
      bad == {e \in top : ~s.val[e[2]].ex \/ s.val[e[2]].jailed \/ Power(s.val[e[2]].tokens) = 0}
  IN IF bad # {} THEN [s EXCEPT !.halt = "endblock-index-corrupt"]
     ELSE
       LET cur(v) == IF s.val[v].status = Staked THEN Power(s.val[v].tokens) ELSE 0
           topV == {e[2] : e \in top}
           changed == {v \in topV : s.prev[v] # cur(v)}
           gone == {v \in Users : s.prev[v] # -1 /\ v \notin topV}
       IN IF \E v \in gone : ~s.val[v].ex THEN [s EXCEPT !.halt = "endblock-missing-validator"]
          ELSE
            LET upd == {<< v, cur(v) >> : v \in changed} \cup {<< v, 0 >> : v \in gone}
                prev1 == [v \in Users |-> IF v \in gone THEN -1 ELSE IF v \in topV THEN cur(v) ELSE s.prev[v]]
            IN [s EXCEPT !.prev = prev1, !.lastUpd = upd,
                         !.prevTotal = IF upd # {} THEN SumOver(topV, cur) ELSE @]

\* valUnstaked.go unstakeAllMatureValidators
UnstakeMature(s) ==
  LET RECURSIVE bucket(_, _, _), all(_)
      \* process the ids of one bucket in order
      bucket(t, ids, i) ==
        IF i > Len(ids) \/ t.halt # "" THEN t
        ELSE LET v == ids[i]
                 rec == t.val[v]
             IN IF ~rec.ex \/ rec.status # Unstaking
                   \/ ("FinishNeedsMinStake" \in Dev /\ rec.tokens < t.par.minStake) THEN bucket(t, ids, i + 1)
                ELSE IF t.bal[POOL] < rec.tokens THEN [t EXCEPT !.halt = "mature-pool-underfunded"]
                ELSE LET t1 == DeleteUnstakingValidator(t, v, rec)
                         t2 == Send(t1, POOL, v, rec.tokens)
                         t3 == [t2 EXCEPT !.early = @ \/ rec.uat > t.time]
                     IN bucket(SetVal(t3, v, NoVal), ids, i + 1)     \* FinishUnstaking + DeleteValidator
      all(t) ==
        LET due == {e \in t.uq : e.t <= t.time}
        IN IF due = {} \/ t.halt # "" THEN t
           ELSE LET e == CHOOSE x \in due : \A y \in due : x.t <= y.t
                    t1 == bucket(t, e.ids, 1)
                IN IF t1.halt # "" THEN t1 ELSE all([t1 EXCEPT !.uq = {x \in @ : x.t # e.t}])
  IN all(s)

\* Tendermint's ValidatorSet.UpdateWithChangeSet acceptance: no removal of an absent validator
\* (duplicates cannot be expressed in a set; the replayer checks them on the real list)
Applicable(set, upd) == \A u \in upd : u[2] >= 0 /\ (u[2] = 0 => set[u[1]] > 0)
ApplyUpd(set, upd) == [v \in Users |-> IF \E u \in upd : u[1] = v THEN (CHOOSE u \in upd : u[1] = v)[2] ELSE set[v]]

EndBlock(s) ==
  LET s1 == UpdateTendermintValidators([s EXCEPT !.lastUpd = {}])
  IN IF s1.halt # "" THEN s1
     ELSE LET s2 == UnstakeMature(s1)
          IN [s2 EXCEPT !.phase = "ended",
                        !.updOk = Applicable(s.vs[3], s1.lastUpd),
                        !.vs = << s.vs[2], s.vs[3], ApplyUpd(s.vs[3], s1.lastUpd) >>]

-----------------------------------------------------------------------------
(* InitChain (auth, pos, gov genesis in that order) *)

InitChain(s) ==
  LET gv == {g.v : g \in GenVals}
      G(v) == CHOOSE g \in GenVals : g.v = v
      tok(v) == G(v).tokens
      \* pos/genesis.go funds the pool with the stake of the genesis validators it counts
      counted == {v \in gv : G(v).status = Staked \/ ("GenesisPoolStakedOnly" \notin Dev /\ G(v).status = Unstaking)}
      pool == SumOver(counted, tok)
      \* a consistent genesis states the supply: balances + all stake that must be backed
      backed == SumOver(gv, tok)
      bal0 == [a \in Accts |-> IF a \in Users THEN GenBal[a] ELSE IF a = POOL THEN pool
                               ELSE IF a = DAO THEN DaoTokens ELSE 0]
      val0 == [v \in Users |-> IF v \in gv THEN [ex |-> TRUE, status |-> G(v).status, jailed |-> G(v).jailed, tokens |-> tok(v), uat |-> G(v).uat]
                               ELSE NoVal]
      s1 == [s EXCEPT !.phase = "committed", !.bal = bal0,
                      !.supply = SumOver(Users, LAMBDA a : GenBal[a]) + backed + DaoTokens,
                      !.val = val0,
                      !.pidx = {<< Power(tok(v)), v >> : v \in {u \in gv : G(u).status = Staked /\ ~G(u).jailed}},
                      !.uq = {[t |-> t, ids |-> LET RECURSIVE ord(_)
                                                   ord(S) == IF S = {} THEN << >> ELSE LET m == CHOOSE x \in S : \A y \in S : x <= y IN << m >> \o ord(S \ {m})
                                               IN ord({v \in gv : G(v).status = Unstaking /\ G(v).uat = t})] :
                              t \in {G(v).uat : v \in {u \in gv : G(u).status = Unstaking}}},
                      !.sinfo = [v \in Users |-> IF v \in gv THEN [NoInfo EXCEPT !.ex = TRUE, !.start = 0] ELSE NoInfo],
                      !.pkrel = gv, !.minted = DaoTokens,
                      !.proposer = 0]   \* the default genesis sets an empty previous proposer
  IN IF GenExported
     THEN \* exported genesis: previous-state powers are taken from the file and returned as the updates
          LET pv == {v \in Users : GenPrev[v] # -1}
              upd == {<< v, GenPrev[v] >> : v \in pv}
              set == ApplyUpd(s.vs[3], upd)
          IN IF \E v \in pv : v \notin gv THEN [s1 EXCEPT !.halt = "genesis-prev-power-unknown-validator"]
             ELSE [s1 EXCEPT !.prev = GenPrev, !.lastUpd = upd, !.vs = << s.vs[1], set, set >>,
                             !.prevTotal = SumOver(pv, LAMBDA v : GenPrev[v])]
     ELSE LET s2 == UpdateTendermintValidators(s1)
              set == ApplyUpd(s.vs[3], s2.lastUpd)
          IN IF s2.halt # "" THEN s2 ELSE [s2 EXCEPT !.vs = << s.vs[1], set, set >>]

\* Commit makes the working state durable: from here on a crash loses nothing of it
Strip(s) == [s EXCEPT !.snap = << >>]
Commit(s) ==
  LET c == [s EXCEPT !.phase = "committed", !.nro = 0]
  IN IF MaxCrashes > 0 THEN [c EXCEPT !.snap = << Strip(c) >>] ELSE c

\* The node dies (anywhere after the first Commit: between blocks, inside a block, after EndBlock)
\* and is reopened on the same database.  Everything written since the last Commit is lost -
\* queued awards and burns, delivered transactions, slashes, what a Simulate call left in the
\* uncommitted state - and exactly the committed state is back; Tendermint then starts the
\* block after the committed one again (possibly a different block: the crashed one was not
\* decided as far as this node knows).  Counters of the environment keep counting.
Crash(s) ==
  LET c == s.snap[1]
  IN [c EXCEPT !.snap = s.snap, !.blocks = s.blocks, !.nexp = s.nexp, !.ncrash = s.ncrash + 1, !.nro = 0, !.lastRes = "n/a"]

\* The chain is stopped after a Commit, its state exported (pos.ExportGenesis, gov ExportGenesis, all
\* accounts with the current supply) and a NEW chain is started from the export: fresh database,
\* height 0, genesis time = the current block time, pos.InitGenesis with Exported = TRUE.
\* What survives is what the export carries: validators, previous-state powers (returned as the
\* InitChain updates), signing infos, missed-block entries, parameters, previous proposer, balances.
\* What does not: queued awards and burns (the environment only exports with empty queues), the
\* address->pubkey relation of validators that no longer exist, the order inside queue slots.
ExportImport(s) ==
  LET gv == {v \in Users : s.val[v].ex}
      pv == {v \in Users : s.prev[v] # -1}
      upd == {<< v, s.prev[v] >> : v \in pv}
      set == [v \in Users |-> IF v \in pv THEN s.prev[v] ELSE 0]
      unst == {v \in gv : s.val[v].status = Unstaking}
      Ord(S) == LET RECURSIVE ord(_)
                    ord(T) == IF T = {} THEN << >> ELSE LET m == CHOOSE x \in T : \A y \in T : x <= y IN << m >> \o ord(T \ {m})
                IN ord(S)
      backedSum == SumOver({v \in gv : s.val[v].status \in {Staked, Unstaking}}, LAMBDA v : s.val[v].tokens)
      s1 == [s EXCEPT !.phase = "committed", !.height = 0, !.ntx = 0, !.next = 0, !.nro = 0, !.lastRes = "n/a", !.nexp = @ + 1,
                      !.pidx = {IdxKey(s.val[v], v) : v \in {u \in gv : s.val[u].status = Staked /\ ~s.val[u].jailed}},
                      !.uq = {[t |-> t, ids |-> Ord({v \in unst : s.val[v].uat = t})] : t \in {s.val[v].uat : v \in unst}},
                      !.pkrel = gv,
                      !.awardQ = [a \in Accts |-> 0], !.burnQ = [v \in Users |-> -1],
                      !.lastUpd = upd, !.updOk = TRUE,
                      !.vs = << [v \in Users |-> 0], set, set >>,
                      !.jailedNow = {}, !.slashLog = << >>, !.snap = << >>, !.qans = << >>]
  \* observation on the code as it is: ExportGenesis writes out every validator record, InitGenesis refuses
  \* an unstaked one - a chain on which a forced unstake left an Unstaked record cannot be restarted from its export
  IN IF \E v \in gv : s.val[v].status = Unstaked THEN [s1 EXCEPT !.halt = "genesis-unstaked-validator"]
     \* observation: an account whose address has an unusual length (created by a transfer or an award to it)
     \* is exported, and the genesis file's JSON form of an address refuses that length
     ELSE IF s.bal[ODD] > 0 THEN [s1 EXCEPT !.halt = "genesis-address-length"]
     ELSE IF s.bal[POOL] # 0 /\ s.bal[POOL] # backedSum THEN [s1 EXCEPT !.halt = "genesis-pool-differs-from-stake"]
     ELSE IF \E v \in pv : v \notin gv THEN [s1 EXCEPT !.halt = "genesis-prev-power-unknown-validator"]
     ELSE [s1 EXCEPT !.bal = [@ EXCEPT ![POOL] = backedSum]]

ExtAward(s, a) == [s EXCEPT !.awardQ = [@ EXCEPT ![a.to] = @ + a.amt], !.next = @ + 1]
ExtBurn(s, a) ==
  IF "BurnNilDec" \in Dev /\ s.burnQ[a.from] = -1 THEN [s EXCEPT !.next = @ + 1]
  ELSE [s EXCEPT !.burnQ = [@ EXCEPT ![a.from] = IF @ = -1 THEN a.num ELSE @ + a.num], !.next = @ + 1]

\* CheckTx, Simulate (Query /app/simulate) and Query never change the state.
\* Named deviation "SimulateWritesRoot" (the code as it is, an open known finding): Simulate runs the
\* ante handler on a cache that is dropped (no fee, and no signature check in simulate mode) but the
\* message handler on a copy of the root multistore that shares the live sub-stores, so a handler
\* that succeeds leaves its effects in the uncommitted state.
ReadOnly(s, a) ==
  LET s0 == [s EXCEPT !.nro = @ + 1, !.lastRes = "n/a"]
      \* in simulate mode the signature is not verified, so a message changed after signing ("mut":
      \* the harness adds 1 to the amount) is executed as changed; a foreign key is still refused
      amt == IF a.bad = "mut" THEN a.amt + 1 ELSE a.amt
  IN IF a.a = "Simulate" /\ "SimulateWritesRoot" \in Dev
        /\ ~(a.bad \in {"garbage", "replay", "sig"} \/ ~TxBasicOk(a) \/ a.fee < Fee \/ ~HasCoins(s, a.from, a.fee))
     THEN LET r == CASE a.kind = "stake"    -> HandleStake(s0, a.from, amt)
                     [] a.kind = "unstake"  -> HandleBeginUnstake(s0, a.from)
                     [] a.kind = "unjail"   -> HandleUnjail(s0, a.from)
                     [] a.kind = "send"     -> HandleSend(s0, a.from, a.to, amt)
                     [] a.kind = "setparam" -> HandleSetParam(s0, a)
          IN IF r.ok THEN [r.s EXCEPT !.lastRes = "n/a"] ELSE s0
     ELSE s0

Step(s, a) ==
  CASE a.a = "InitChain"  -> InitChain(s)
    [] a.a \in {"CheckTx", "Simulate", "Query"} -> ReadOnly(s, a)
    [] a.a = "BeginBlock" -> BeginBlock(s, a)
    [] a.a = "Tx"         -> DeliverTx(s, a)
    [] a.a = "ExtAward"   -> ExtAward(s, a)
    [] a.a = "ExtBurn"    -> ExtBurn(s, a)
    [] a.a = "EndBlock"   -> EndBlock(s)
    [] a.a = "Commit"     -> Commit(s)
    [] a.a = "ExportImport" -> ExportImport(s)
    [] a.a = "Crash"      -> Crash(s)

-----------------------------------------------------------------------------
(* the environment: which actions Tendermint / users / other modules may take *)

\* every assignment of signed/missed to the members of the set that signed the previous block
VoteChoices(s) ==
  LET members == {v \in Users : s.vs[1][v] > 0}
      Order(S) == LET RECURSIVE ord(_)
                      ord(T) == IF T = {} THEN << >> ELSE LET m == CHOOSE x \in T : \A y \in T : x <= y IN << m >> \o ord(T \ {m})
                  IN ord(S)
      mseq == Order(members)
      signs == IF MissOn THEN [members -> {0, 1}] ELSE {[v \in members |-> 1]}
  IN {[i \in 1..Len(mseq) |-> << mseq[i], f[mseq[i]], s.vs[1][mseq[i]] >>] : f \in signs}

\* evidence is offered against addresses the application knows (it panics on any other, which
\* the EvUnknown switch of the environment also offers)
EvChoices(s) ==
  IF ~EvOn THEN {<< >>}
  ELSE LET one == {[v |-> v, age |-> ag, hback |-> hb, power |-> p] :
                     v \in (IF EvUnknown THEN Users ELSE s.pkrel), ag \in {0, MaxEvAge, MaxEvAge + 1}, p \in EvPowers, hb \in EvHBacks}
       IN {<< >>} \cup {<< e >> : e \in one}
          \cup (IF EvTwo THEN LET plain == {e \in one : e.age = 0 /\ e.hback = 1}
                           IN {<< q[1], q[2] >> : q \in {r \in plain \X plain : r[1].v # r[2].v}} ELSE {})

TxChoices(s) ==
  LET T(k, f, t, x, fe, b) == [a |-> "Tx", kind |-> k, from |-> f, to |-> t, amt |-> x, fee |-> fe, bad |-> b]
      good ==
        (IF "stake" \in Kinds THEN {T("stake", v, 0, x, Fee, "none") : v \in Users, x \in Amts} ELSE {})
        \cup (IF "unstake" \in Kinds THEN {T("unstake", v, 0, 0, Fee, "none") : v \in Users} ELSE {})
        \cup (IF "unjail" \in Kinds THEN {T("unjail", v, 0, 0, Fee, "none") : v \in Users} ELSE {})
        \cup (IF "send" \in Kinds THEN {T("send", v, w, x, Fee, "none") : v \in Users, w \in SendTos, x \in Amts} ELSE {})
        \cup (IF "setparam" \in Kinds THEN {T("setparam", v, 1, x, Fee, "none") : v \in Users, x \in ParamVals}
                                            \cup {T("setparam", v, 2, x, Fee, "none") : v \in {ParamOwner}, x \in {MinStake, MinStake + 1}} ELSE {})
        \cup (IF "setparam" \in Kinds THEN {T("setparam", v, 4, 0, Fee, "none") : v \in Users} ELSE {})
        \cup (IF "setdenom" \in Kinds THEN {T("setparam", v, 3, 0, Fee, "none") : v \in {ParamOwner}} ELSE {})
      badtx ==
        IF ~BadTxOn THEN {}
        ELSE {T("send", v, 1, 1, Fee, b) : v \in Users, b \in {"garbage", "sig", "mut", "replay"}}
             \cup {T("send", v, 1, 1, Fee - 1, "none") : v \in {u \in Users : Fee > 0}}
             \cup {T("stake", v, 0, 0, Fee, "none") : v \in Users}
  IN good \cup badtx

QueryKinds == {"store-acc", "store-pos", "custom-pool", "custom-params", "custom-vals", "version", "bad-path"}
ROChoices(s) ==
  IF s.nro >= MaxRO THEN {}
  ELSE {[t EXCEPT !.a = "CheckTx"] : t \in TxChoices(s)}
       \cup {[t EXCEPT !.a = "Simulate"] : t \in TxChoices(s)}
       \cup {[a |-> "Query", kind |-> q] : q \in QueryKinds}

CrashChoices(s) == IF s.ncrash < MaxCrashes /\ Len(s.snap) = 1 /\ s.blocks < MaxHeight THEN {[a |-> "Crash"]} ELSE {}

PhaseActs(s) ==
  CASE s.phase = "init" -> {[a |-> "InitChain"]}
    [] s.phase = "committed" ->
         (IF MaxExports > s.nexp /\ s.height >= 1 /\ s.blocks < MaxHeight
             /\ (\A x \in Accts : s.awardQ[x] = 0) /\ (\A v \in Users : s.burnQ[v] = -1)
          THEN {[a |-> "ExportImport"]} ELSE {})
         \cup (IF s.blocks >= MaxHeight THEN {}
          ELSE {[a |-> "BeginBlock", dt |-> d, prop |-> p, votes |-> vt, evs |-> ev] :
            d \in Dts, p \in Props, vt \in VoteChoices(s), ev \in EvChoices(s)})
         \cup (IF s.blocks >= MaxHeight THEN {} ELSE ROChoices(s))
    [] s.phase = "begun" ->
         {[a |-> "EndBlock"]}
         \cup (IF s.ntx < MaxTx THEN TxChoices(s) ELSE {})
         \cup ROChoices(s)
         \cup (IF s.next < MaxExt
          THEN {[a |-> "ExtAward", to |-> x, amt |-> y] : x \in AwardTos, y \in (Amts \ {0})}
               \cup {[a |-> "ExtBurn", from |-> v, num |-> k] : v \in {u \in Users : s.val[u].ex}, k \in BurnNums}
          ELSE {})
    [] s.phase = "ended" -> {[a |-> "Commit"]}

Acts(s) ==
  IF s.halt # "" THEN {}
  ELSE CrashChoices(s) \cup PhaseActs(s)

Init == st = PreGenesis
Next == \E a \in Acts(st) : st' = Step(st, a)
Spec == Init /\ [][Next]_st

-----------------------------------------------------------------------------
(* The listed properties, as predicates on a state (or a pair of states).  *)

Live(s) == s.phase # "init"
AtBoundary(s) == s.phase \in {"committed", "begun", "ended"}

\* C02
SupplyIsSum(s) == s.supply = SumOver(Accts, LAMBDA a : s.bal[a])
NonNeg(s) == \A a \in Accts : s.bal[a] >= 0
SupplyOnlyMintBurn(s) == s.supply = SumOver(Users, LAMBDA a : GenBal[a]) + SumOver({g.v : g \in GenVals}, LAMBDA v : (CHOOSE g \in GenVals : g.v = v).tokens)
                                      + s.minted - s.burned

\* C04
Backed(s) == SumOver({v \in Users : s.val[v].ex /\ s.val[v].status \in {Staked, Unstaking}}, LAMBDA v : s.val[v].tokens)
PoolBacksStake(s) == s.bal[POOL] = Backed(s) + s.donated

\* C05
TopN(s) ==
  LET cand == {<< Power(s.val[v].tokens), v >> : v \in {u \in Users : s.val[u].ex /\ s.val[u].status = Staked /\ ~s.val[u].jailed}}
  IN {e \in cand : Cardinality({f \in cand : RankBefore(f, e)}) < s.par.maxVals}
TmIsTopN(s) == s.phase \in {"ended", "committed"} =>
                 \A v \in Users : s.vs[3][v] = IF \E e \in TopN(s) : e[2] = v THEN Power(s.val[v].tokens) ELSE 0
UpdatesApplicable(s) == s.updOk

\* C06
IndexExact(s) == s.pidx = {<< Power(s.val[v].tokens), v >> : v \in {u \in Users : s.val[u].ex /\ s.val[u].status = Staked /\ ~s.val[u].jailed}}
QueueComplete(s) == \A v \in Users : (s.val[v].ex /\ s.val[v].status = Unstaking) =>
                       \E e \in s.uq : e.t = s.val[v].uat /\ v \in SeqToSet(e.ids)
QueueSound(s) == \A e \in s.uq : \A v \in SeqToSet(e.ids) : s.val[v].ex /\ s.val[v].status = Unstaking /\ s.val[v].uat = e.t
\* (while the minimum-stake parameter is unchanged)
MinStakeHeld(s) == s.minChanged \/ \A v \in Users : (s.val[v].ex /\ s.val[v].status # Unstaked) => s.val[v].tokens >= s.par.minStake
NoEarlyPayout(s) == ~s.early
NoOverdue(s) == s.phase \in {"ended", "committed"} => \A v \in Users : (s.val[v].ex /\ s.val[v].status = Unstaking) => s.val[v].uat > s.time

\* C07
SlashLogExact(s) == \A i \in 1..Len(s.slashLog) :
                      LET e == s.slashLog[i] IN e.burn = Max2(Min2(SlashAmt(e.power, e.num), e.before), 0)

\* C08
CountMissed(q) == Cardinality({i \in 1..Len(q) : q[i]})
CounterIsPopcount(s) == \A v \in Users : s.sinfo[v].ex =>
                          /\ s.sinfo[v].missed = Cardinality(s.bits[v])
                          /\ s.sinfo[v].missed = CountMissed(s.gwin[v])

\* C09
JailedPowerless(s) == s.phase \in {"ended", "committed"} => \A v \in Users : (s.val[v].ex /\ s.val[v].jailed) => s.vs[3][v] = 0
TombstoneJailed(s) == \A v \in Users : (s.sinfo[v].tomb /\ s.val[v].ex) => s.val[v].jailed /\ s.sinfo[v].until = INF

\* C10 (state part): nothing is left in the fee collector or the pos module account after BeginBlock
\* beyond what was collected since, and the award queue is empty right after BeginBlock
FeesAccounted(s) == s.bal[FEE] = s.fees

NoHalt(s) == s.halt = ""

Inv_C02 == Live(st) => SupplyIsSum(st) /\ NonNeg(st) /\ SupplyOnlyMintBurn(st)
Inv_C04 == Live(st) => PoolBacksStake(st)
Inv_C05 == Live(st) => TmIsTopN(st) /\ UpdatesApplicable(st)
Inv_C06 == Live(st) => IndexExact(st) /\ QueueComplete(st) /\ QueueSound(st) /\ MinStakeHeld(st) /\ NoOverdue(st) /\ NoEarlyPayout(st)
Inv_C07 == SlashLogExact(st)
Inv_C08 == Live(st) => CounterIsPopcount(st)
Inv_C09 == Live(st) => JailedPowerless(st) /\ TombstoneJailed(st)
Inv_C10 == Live(st) => FeesAccounted(st)
Inv_NoHalt == NoHalt(st)

=============================================================================
