\* abstract overlay, exhaustive: 1 wrapper, 3 keys, every range, 1 open iterator
SPECIFICATION ASpec
CONSTANTS
  Keys <- K3
  Bounds <- B3
  OpenRanges <- OR3
  BaseInit <- BaseA
  SetVals <- ValById
  MaxW = 1
  MaxDepth = 1
  MaxIt = 1
  BaseOps = TRUE
VIEW AView
INVARIANTS TypeOK Inv_IterationIsView Inv_ReadsAreView
PROPERTY AProp
