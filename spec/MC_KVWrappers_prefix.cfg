\* exhaustive: every prefix (0xFF endings, empty, nested), with and without a cache, all bounds (atomic iterations), all initial contents
SPECIFICATION Spec
CONSTANTS
  Stacks <- IsoStacks
  Meters <- MetersNone
  UserKeys <- UK
  Bounds <- Bnd4
  Vals <- V2
  Inits <- InitsAll
  GasCap = 0
  OpenIts = FALSE
  HistLen = 0
VIEW sview
CONSTRAINT GasBound
INVARIANTS Inv_PrefixIsolation Inv_NoGasNoPanic Inv_TraceFaithful
PROPERTY AProp
CHECK_DEADLOCK FALSE
