\* C18 case table, quick: same laws with bounds so loose that no printed case overflows (P = 10); the printed
\* outcomes are the REQUIRED outcomes (Dev = {} and the Inv_* hold) and are replayed on the real types.
CONSTANTS
    P = 10
    IntBits = 20
    IntMax = 1048575
    UintMax = 2097151
    DecMax = 1073741823
    I64Max = 524287
    U64Max = 1048575
    PR = 10
    R = 60
    RY = 60
    UPrintR = 61
    EdgeMax = 0
    PrintR = 61
    Dev = {}
INIT Init
NEXT Next
CHECK_DEADLOCK FALSE
INVARIANTS
    Inv_DecAdd Inv_DecSub Inv_DecMul Inv_DecMulTruncate Inv_DecMulInt Inv_DecQuo Inv_DecQuoTruncate
    Inv_DecQuoRoundUp Inv_DecQuoInt Inv_DecUnary Inv_DecCeil Inv_Int Inv_Uint Inv_Chop Inv_Unique
    PrintCase
