\* quick tier, exhaustive: gas; trace; prefix over gas over trace; Subspace-style prefix over gas over cache; limits at/below/above the cumulative costs; overflow
SPECIFICATION Spec
CONSTANTS
  Stacks <- QuickGasStacks
  Meters <- MetersQ
  UserKeys <- UK2
  Bounds <- BndSmall
  Vals <- V2
  Inits <- Inits2
  GasCap = 3100
  OpenIts = FALSE
  HistLen = 0
VIEW sview
CONSTRAINT GasBound
INVARIANTS Inv_PrefixIsolation Inv_NoGasNoPanic Inv_TraceFaithful
PROPERTY AProp
CHECK_DEADLOCK FALSE
