---------------------------- MODULE Trace_Replica ----------------------------
(* Validates recorded runs of several REAL application instances that were    *)
(* fed the same request history (harness `posdrv diff`): instance A straight   *)
(* through, A2 an independent second run, B_* stopped and reopened from their  *)
(* database after every Commit / under other pruning options / other database  *)
(* backends / with CheckTx and Query traffic interleaved.  Replica.tla's       *)
(* SameOutputs must hold of every recorded request: identical result class,    *)
(* response digest (code, codespace, data, events), ordered validator updates, *)
(* app hash and Info.                                                          *)
EXTENDS Json, Sequences, Integers, TLC
CONSTANT TraceFile
VARIABLE l
Trace == ndJsonDeserialize(TraceFile)
Fields == {"class", "events", "updates", "hash", "info"}
TraceInit == l = 1
TraceNext ==
  /\ l <= Len(Trace)
  /\ l' = l + 1
  /\ LET e == Trace[l]
         vs == DOMAIN e.outs
         bad == IF "A" \in vs
                THEN UNION {{v \o ":" \o f : f \in {g \in Fields : e.outs[v][g] # e.outs["A"][g]}} : v \in (vs \ {"A"})}
                ELSE {v \o ":ran-on" : v \in vs}
     IN IF bad # {} THEN PrintT("DIV " \o ToJson([l |-> l, b |-> e.b, div |-> {}, bad |-> bad, note |-> ""])) ELSE TRUE
TraceSpec == TraceInit /\ [][TraceNext]_l
TraceAccepted == TLCGet("stats").diameter - 1 = Len(Trace)
=============================================================================
