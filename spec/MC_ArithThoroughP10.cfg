\* C18 design level, thorough: P = 10 over the COMPLETE model Dec range (DecMax = 511)
CONSTANTS
    P = 10
    IntBits = 5
    IntMax = 31
    UintMax = 63
    DecMax = 511
    I64Max = 15
    U64Max = 31
    PR = 10
    R = 511
    RY = 511
    UPrintR = 0
    EdgeMax = 511
    PrintR = 0
    Dev = {}
INIT Init
NEXT Next
CHECK_DEADLOCK FALSE
INVARIANTS
    Inv_DecAdd Inv_DecSub Inv_DecMul Inv_DecMulTruncate Inv_DecMulInt Inv_DecQuo Inv_DecQuoTruncate
    Inv_DecQuoRoundUp Inv_DecQuoInt Inv_DecUnary Inv_DecCeil Inv_Int Inv_Uint Inv_Chop Inv_Unique
