\* C18 design level, thorough: P = 100 (two decimals), 7-bit Int, 8-bit Uint, 14-bit Dec
CONSTANTS
    P = 100
    IntBits = 7
    IntMax = 127
    UintMax = 255
    DecMax = 16383
    I64Max = 31
    U64Max = 63
    PR = 100
    R = 330
    RY = 330
    UPrintR = 0
    EdgeMax = 16383
    PrintR = 0
    Dev = {}
INIT Init
NEXT Next
CHECK_DEADLOCK FALSE
INVARIANTS
    Inv_DecAdd Inv_DecSub Inv_DecMul Inv_DecMulTruncate Inv_DecMulInt Inv_DecQuo Inv_DecQuoTruncate
    Inv_DecQuoRoundUp Inv_DecQuoInt Inv_DecUnary Inv_DecCeil Inv_Int Inv_Uint Inv_Chop Inv_Unique
