\* labelled state graph: nesting depth 2 (chains and siblings), 2 keys, atomic iterations, few ranges
SPECIFICATION ASpec
CONSTANTS
  Keys <- K2
  Bounds <- B3tiny
  OpenRanges <- OR1
  BaseInit <- BaseA
  SetVals <- ValById
  MaxW = 2
  MaxDepth = 2
  MaxIt = 0
  BaseOps = TRUE
VIEW AView
INVARIANTS TypeOK Inv_IterationIsView Inv_ReadsAreView
PROPERTY AProp
ACTION_CONSTRAINT EdgeOut
