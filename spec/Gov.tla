--------------------------------- MODULE Gov ---------------------------------
(***************************************************************************)
(* x/gov: ACL-guarded parameter changes, upgrade plan, DAO funds (C17).    *)
(* Same style as Posmint.tla: the abstract state is one record `gs`;       *)
(* GStep(gs, a) is the state after DeliverTx of governance transaction a.  *)
(*                                                                          *)
(* Parameters are numbered 1..K in the fixed order of harness ParamKeys;   *)
(* a parameter's value is the index of its value in a small per-key         *)
(* alphabet (0 = genesis value); for gov/upgrade it is the plan's height.  *)
(***************************************************************************)
EXTENDS Integers, Sequences, FiniteSets, FiniteSetsExt, TLC

CONSTANTS
  N,            \* users 1..N; N+1 fee collector, N+2 pool, N+3 pos, N+4 DAO, N+5 all other addresses
  K,            \* number of parameters
  IAcl, IDao, IUpg,   \* indexes of gov/acl, gov/daoOwner, gov/upgrade
  GovFee,
  GenBal, DaoTokens, DaoOwner0, AclOwner0,   \* genesis
  AclVariants,  \* set of [owners |-> <<o1..oK>>, extra |-> owner of the non-parameter key "pos/NoSuch" or 0]
  Amts,         \* DAO amounts offered (may include negative and more-than-the-balance)
  MaxTx,
  GMaxExp,      \* export/import restarts (EndBlock, Commit, export, new chain from the export) offered per history
  TxFocus       \* "all": every transaction of GTxChoices; "owner": only those that will succeed (sent by the owner the
                \* current ACL names, well-formed values) - histories in which much changes before a restart

FEE == N + 1
DAO == N + 4
Users == 1..N
Accts == 1..(N + 6)   \* N+5 / N+6: every other address of the usual / of another length together (see Posmint.tla)
Keys == 1..K

VARIABLE gs

GInit0 ==
  [ phase |-> "init", ntx |-> 0, nexp |-> 0,
    bal |-> [a \in Accts |-> 0], supply |-> 0,
    params |-> [k \in Keys |-> 0], acl |-> [k \in Keys |-> 0], aclExtra |-> 0, daoOwner |-> 0,
    \* which of the named accounts have a record in the auth store (observed only, see Trace_Gov)
    accex |-> << >>,
    lastRes |-> "n/a" ]

GInitChain(s) ==
  LET bal0 == [a \in Accts |-> IF a \in Users THEN GenBal[a] ELSE IF a = DAO THEN DaoTokens ELSE 0]
  IN [s EXCEPT !.phase = "open", !.bal = bal0,
               !.supply = FoldSet(LAMBDA a, acc : acc + bal0[a], 0, Accts),
               !.acl = AclOwner0, !.daoOwner = DaoOwner0]

\* x/gov/keeper/acl.go VerifyACL: the ACL's owner of the key must equal the sender
\* (an unlisted key has the nil owner, which equals only an empty sender; owner 0 = unlisted).
\* A key string with an extra path segment ("auth/TxSigLimit/x", a.sfx = TRUE) is looked up in the
\* ACL as the whole string - which no ACL lists - although the store would be addressed by its
\* first two segments.
Owner(s, key) == IF key \in Keys THEN s.acl[key] ELSE IF key = K + 1 THEN s.aclExtra ELSE 0
OwnerOf(s, a) == IF a.sfx THEN 0 ELSE Owner(s, a.pk)

\* keeper/subspace.go ModifyParam.  key K+1 stands for "pos/NoSuch" (known subspace, no such
\* parameter): Subspace.Update panics "Parameter not registered", runTx recovers -> rejected.
\* A value that does not parse (malformed JSON, wrong type) is IGNORED: result OK, nothing changes.
ModifyParam(s, a) ==
  IF a.from = 0 \/ OwnerOf(s, a) # a.from THEN [s |-> s, ok |-> FALSE]
  ELSE IF a.pk = K + 1 THEN [s |-> s, ok |-> FALSE]
  \* "partial": well-formed JSON whose leading fields fit the parameter's type and a later one does not
  ELSE IF a.val \in {"malformed", "wrongtype", "partial"} THEN [s |-> s, ok |-> TRUE]
  ELSE IF a.pk = IAcl THEN
         LET v == a.aclv IN [s |-> [s EXCEPT !.acl = v.owners, !.aclExtra = v.extra], ok |-> TRUE]
  ELSE IF a.pk = IDao THEN [s |-> [s EXCEPT !.daoOwner = a.id], ok |-> TRUE]
  ELSE [s |-> [s EXCEPT !.params = [@ EXCEPT ![a.pk] = a.idx]], ok |-> TRUE]

\* HandleUpgrade (MsgUpgrade)
Upgrade(s, a) ==
  IF Owner(s, IUpg) # a.from THEN [s |-> s, ok |-> FALSE]
  ELSE [s |-> [s EXCEPT !.params = [@ EXCEPT ![IUpg] = a.idx]], ok |-> TRUE]

DaoTransfer(s, a) ==
  IF s.daoOwner # a.from THEN [s |-> s, ok |-> FALSE]
  ELSE IF a.amt < 0 \/ s.bal[DAO] < a.amt THEN [s |-> s, ok |-> FALSE]
  \* (a transfer addressed to the DAO account itself moves nothing)
  ELSE [s |-> [s EXCEPT !.bal = IF a.to = DAO THEN @ ELSE [@ EXCEPT ![DAO] = @ - a.amt, ![a.to] = @ + a.amt]], ok |-> TRUE]

DaoBurn(s, a) ==
  IF s.daoOwner # a.from THEN [s |-> s, ok |-> FALSE]
  ELSE IF a.amt < 0 \/ s.bal[DAO] < a.amt THEN [s |-> s, ok |-> FALSE]
  ELSE [s |-> [s EXCEPT !.bal = [@ EXCEPT ![DAO] = @ - a.amt], !.supply = @ - a.amt], ok |-> TRUE]

BasicOk(a) ==
  CASE a.kind \in {"daotransfer", "daoburn"} -> a.amt # 0
    [] a.kind = "upgrade" -> a.idx # 0
    [] OTHER -> TRUE

GDeliver(s, a) ==
  IF ~BasicOk(a) \/ s.bal[a.from] < GovFee
  THEN [s EXCEPT !.lastRes = "rej_pre", !.ntx = @ + 1]
  ELSE LET s1 == [s EXCEPT !.bal = [@ EXCEPT ![a.from] = @ - GovFee, ![FEE] = @ + GovFee]]
           r == CASE a.kind = "changeparam" -> ModifyParam(s1, a)
                  [] a.kind = "upgrade"     -> Upgrade(s1, a)
                  [] a.kind = "daotransfer" -> DaoTransfer(s1, a)
                  [] a.kind = "daoburn"     -> DaoBurn(s1, a)
       IN [r.s EXCEPT !.lastRes = IF r.ok THEN "ok" ELSE IF GovFee > 0 THEN "rej_post" ELSE "rej_pre", !.ntx = @ + 1]

GStep(s, a) ==
  CASE a.a = "InitChain" -> GInitChain(s)
    [] a.a = "BeginBlock" -> [s EXCEPT !.lastRes = "n/a"]
    [] a.a = "Tx" -> GDeliver(s, a)
    \* the block is ended and committed, the state exported through every module's ExportGenesis and a new
    \* chain started from the export: every parameter, the ACL, the upgrade plan, the DAO owner and every
    \* balance are what they were - no governance message was sent
    [] a.a = "ExportImport" -> [s EXCEPT !.lastRes = "n/a", !.nexp = @ + 1]

T(k, f) == [a |-> "Tx", kind |-> k, from |-> f, to |-> 0, amt |-> 0, pk |-> 0, sfx |-> FALSE, val |-> "", idx |-> 0, id |-> 0,
            aclv |-> [owners |-> << >>, extra |-> 0], fee |-> GovFee]

GTxChoices ==
  {[T("changeparam", f) EXCEPT !.pk = k, !.val = v, !.idx = IF v = "v1" THEN 1 ELSE IF v = "v2" THEN 2 ELSE 0] :
      f \in Users, k \in (Keys \ {IAcl, IDao, IUpg}) \cup {K + 1}, v \in {"v1", "v2", "malformed", "wrongtype"}}
  \* key K+2 stands for "nosuch/Foo": a subspace nobody registered (no ACL lists it, so nobody owns it:
  \* refused before the subspace is looked up - the lookup of an unknown subspace ends the process)
  \cup {[T("changeparam", f) EXCEPT !.pk = K + 2, !.val = "v1", !.idx = 1] : f \in Users}
  \cup {[T("changeparam", f) EXCEPT !.pk = k, !.sfx = TRUE, !.val = "v1", !.idx = 1] : f \in Users, k \in {2, 5}}
  \cup {[T("changeparam", f) EXCEPT !.pk = k, !.val = "partial"] : f \in Users, k \in {3, IUpg}}
  \cup {[T("changeparam", f) EXCEPT !.pk = IAcl, !.val = "acl", !.aclv = v] : f \in Users, v \in AclVariants}
  \cup {[T("changeparam", f) EXCEPT !.pk = IAcl, !.val = w] : f \in Users, w \in {"malformed"}}
  \* (ids 100+u: an outside address that LOOKS like user u's - same bytes but for the case of its letter bytes;
  \*  an owner like any other outsider: user u is not it)
  \cup {[T("changeparam", f) EXCEPT !.pk = IDao, !.val = "id", !.id = i] : f \in Users, i \in Users \cup {100 + u : u \in Users}}
  \cup {[T("changeparam", f) EXCEPT !.pk = IUpg, !.val = "upg", !.idx = h] : f \in Users, h \in {1001, 1002}}
  \cup {[T("upgrade", f) EXCEPT !.idx = h] : f \in Users, h \in {0, 2001, 2002}}
  \cup {[T("daotransfer", f) EXCEPT !.to = t, !.amt = x] : f \in Users, t \in Users \cup {DAO, N + 5, N + 6}, x \in Amts}
  \cup {[T("daoburn", f) EXCEPT !.amt = x] : f \in Users, x \in Amts}

Wanted(s, t) ==
  CASE t.kind = "changeparam" -> /\ ~t.sfx /\ t.pk \in Keys /\ s.acl[t.pk] = t.from /\ t.val \in {"v1", "v2", "id", "upg", "acl"}
                                 /\ (t.val = "acl" => (t.aclv.extra = 0 /\ \A k \in Keys : t.aclv.owners[k] # 0))
    [] t.kind = "upgrade" -> s.acl[IUpg] = t.from /\ t.idx # 0
    [] OTHER -> t.from = s.daoOwner /\ t.amt > 0 /\ t.amt <= s.bal[DAO] /\ t.to # N + 6
GTxFor(s) == IF TxFocus = "owner" THEN {t \in GTxChoices : Wanted(s, t)} ELSE GTxChoices

GActs(s) ==
  CASE s.phase = "init" -> {[a |-> "InitChain"]}
    [] s.phase = "open" -> {[a |-> "BeginBlock"]}
    [] s.phase = "block" -> (IF s.ntx < MaxTx THEN GTxFor(s) ELSE {})
                            \* (an account at an address of unusual length cannot be read back from an exported
                            \*  genesis - see Posmint.tla - so the environment does not restart such a chain)
                            \* (likewise gov InitGenesis ends the PROCESS when the ACL it is given does not list exactly the
                            \*  registered parameters: a chain whose ACL lost or gained entries cannot be restarted from its
                            \*  export; observation, not offered)
                            \cup (IF s.nexp < GMaxExp /\ s.ntx > 0 /\ s.bal[N + 6] = 0 /\ s.aclExtra = 0 /\ (\A k \in Keys : s.acl[k] # 0)
                                  THEN {[a |-> "ExportImport"]} ELSE {})

GStepP(s, a) == LET t == GStep(s, a) IN IF a.a = "BeginBlock" THEN [t EXCEPT !.phase = "block"]
                                        ELSE IF a.a = "ExportImport" THEN [t EXCEPT !.phase = "open"] ELSE t

GInit == gs = GInit0
GNext == \E a \in GActs(gs) : gs' = GStepP(gs, a)
GSpec == GInit /\ [][GNext]_gs

-----------------------------------------------------------------------------
(* C17 as predicates on a transition pre -> post under transaction a *)

ParamsOf(s) == << s.params, s.acl, s.aclExtra, s.daoOwner >>

\* a parameter (the ACL and the upgrade plan included) changes only through a message whose sender
\* is the owner the ACL (of the pre-state) names for it, and that change alters that parameter alone
ParamChangeOnlyByOwner(pre, post, a) ==
  ParamsOf(post) # ParamsOf(pre) =>
    /\ a.a = "Tx" /\ a.kind \in {"changeparam", "upgrade"}
    /\ LET key == IF a.kind = "upgrade" THEN IUpg ELSE a.pk
       IN /\ key \in Keys /\ pre.acl[key] = a.from
          /\ \A k \in Keys \ {key} : post.params[k] = pre.params[k]
          /\ key # IAcl => (post.acl = pre.acl /\ post.aclExtra = pre.aclExtra)
          /\ key # IDao => post.daoOwner = pre.daoOwner
          /\ key \in {IAcl, IDao} => post.params = pre.params

\* DAO funds move only by a message from the DAO owner, by exactly the stated amount, within the balance
DaoOnlyByOwner(pre, post, a) ==
  post.bal[DAO] # pre.bal[DAO] =>
    /\ a.a = "Tx" /\ a.kind \in {"daotransfer", "daoburn"} /\ a.from = pre.daoOwner
    /\ a.amt > 0 /\ a.amt <= pre.bal[DAO] /\ post.bal[DAO] = pre.bal[DAO] - a.amt /\ a.to # DAO
    /\ (a.kind = "daoburn" => post.supply = pre.supply - a.amt)
    /\ (a.kind = "daotransfer" => post.supply = pre.supply)

SupplyIsSumG(s) == s.supply = FoldSet(LAMBDA x, acc : acc + s.bal[x], 0, Accts)

\* every other governance message is rejected and changes nothing (beyond the fee of one that passed the ante handler)
RejectedChangesNothing(pre, post, a) ==
  (a.a = "Tx" /\ post.lastRes # "ok") =>
    /\ ParamsOf(post) = ParamsOf(pre) /\ post.supply = pre.supply
    /\ \A x \in Accts \ {a.from, FEE} : post.bal[x] = pre.bal[x]
    \* ... and no account record appears or disappears (but the fee collector's, which the first fee creates)
    /\ \A i \in DOMAIN post.accex : i # FEE => post.accex[i] = pre.accex[i]

GovActionProps == [][\A a \in GActs(gs) : gs' = GStepP(gs, a) =>
                       a.a = "InitChain" \/
                       (ParamChangeOnlyByOwner(gs, gs', a) /\ DaoOnlyByOwner(gs, gs', a) /\ RejectedChangesNothing(gs, gs', a))]_gs
GovInv == gs.phase # "init" => SupplyIsSumG(gs) /\ \A x \in Accts : gs.bal[x] >= 0
=============================================================================
