\* C18 coin sets, thorough, the code as it is: 4 denominations, amounts 1..3 (256 x 256 pairs), sequences up to length 3
CONSTANTS
    ND = 4
    MaxAmt = 3
    MaxLen = 3
    Dev = {"IsEqualPanics", "AllGTEmptyFalse"}
INIT Init
NEXT Next
CHECK_DEADLOCK FALSE
INVARIANTS
    Inv_Add Inv_SafeSub Inv_Sub Inv_Inverse Inv_AllGT Inv_AllGTE Inv_AllLT Inv_AllLTE Inv_AnyGT Inv_AnyGTE
    Inv_Subset Inv_AmountOf Inv_Valid Inv_NewCoins Inv_Order PrintCase
