--------------------------- MODULE Trace_AnteAuth ---------------------------
(* Validates the real ante handler's decisions, recorded by harness authdrv,  *)
(* against AnteAuth.tla: one line per case of the decision table.             *)
EXTENDS AnteAuth, Sequences
CONSTANT TraceFile
VARIABLE l
Trace == ndJsonDeserialize(TraceFile)
Failed(q) == {q[i][1] : i \in {j \in 1..Len(q) : ~q[j][2]}}
TraceInit == l = 1 /\ c = [dummy |-> TRUE]
TraceNext ==
  /\ l <= Len(Trace)
  /\ l' = l + 1
  /\ c' = c
  /\ LET e == Trace[l]
         k == e.case
         o == e.obs
         div == IF Accepts(k) # o.accepted THEN {"accepts"} ELSE {}
         bad == Failed(<<
            \* only the signer's key authorises; no change to a signed field after signing
            << "C03.AcceptedUnauthorised", o.accepted => Authorised(k) >>,
            \* ... whichever way the transaction reaches the ante handler: CheckTx (the mempool's question) accepts none either
            << "C03.CheckTxAcceptedUnauthorised", o.checkOk => Authorised(k) >>,
            \* an accepted transaction pays at least the required fee ...
            << "C03.AcceptedUnderpaid", o.accepted => (o.fee >= o.required /\ FeeCovers(k)) >>,
            \* ... from the signer's own balance into the fee collector, exactly once
            << "C03.WrongFeeMovement", o.accepted => (o.signerDelta = 0 - o.fee /\ o.feeDelta = o.fee /\ o.otherDelta = 0) >>,
            \* a transaction the tx index already contains is rejected
            << "C03.AcceptedReplay", o.accepted => ~Replayed(k) >>,
            \* a rejected transaction moves nothing
            << "C03.RejectedMovedFunds", ~o.accepted => (o.signerDelta = 0 /\ o.feeDelta = 0 /\ o.otherDelta = 0) >> >>)
     IN IF div # {} \/ bad # {} THEN PrintT("DIV " \o ToJson([l |-> l, b |-> 0, div |-> div, bad |-> bad, note |-> ""])) ELSE TRUE
TraceSpec == TraceInit /\ [][TraceNext]_<<l, c>>
TraceAccepted == TLCGet("stats").diameter - 1 = Len(Trace)
=============================================================================
