\* C12, exhaustive, the model does what the code does; restarts between commits (clean crashes)
SPECIFICATION Spec
CONSTANTS
  Stores = {"s1", "s2"}
  TStore = "t1"
  Keys = {"a"}
  Vals = {"x", "y"}
  Prunings <- PruningsSel
  Strategies = {}
  PrunSel = {1, 2, 3, 4, 5, 6, 7, 8, 9, 10, 11, 12, 13}
  MaxVer = 4
  MaxWrites = 1
  MaxCrashes = 1
  Dev = {"PruneBeforeFlush", "LoadZeroLoadsLatest"}
  Record = FALSE
  HistLen = 0
  CrashPlan = FALSE
  CrashKind = "clean"
  TransientFirst = TRUE
  MaxLoads = 0
  LoadScope = "blockstart"
  ObsKind = {}
VIEW view
INVARIANTS
  TypeOK
  Inv_HashAgreement
  Inv_RetainedReadable
  Inv_LatestReadable
  Inv_PrunedUnreadable
  Inv_NeverWrongData
  Inv_ViewAgrees
  Inv_TransientEmptyAfterCommit
  Inv_FlushAtomic
PROPERTIES
  Act_VersionStep
  Act_IdleStepsKeepCommitID
CHECK_DEADLOCK FALSE
