\* C18 the code as it is (all deviations): the invariants of the deviating operations are left out (they fail,
\* which MC_ArithDev*.cfg demonstrate); the printed table says what the transcribed CODE computes at model scale.
CONSTANTS
    P = 10
    IntBits = 20
    IntMax = 1048575
    UintMax = 2097151
    DecMax = 1073741823
    I64Max = 524287
    U64Max = 1048575
    PR = 10
    R = 60
    RY = 60
    UPrintR = 61
    EdgeMax = 0
    PrintR = 61
    Dev = {"QuoDoubleRounding", "QuoRoundUpTruncFirst", "CeilNoRangeCheck"}
INIT Init
NEXT Next
CHECK_DEADLOCK FALSE
INVARIANTS
    Inv_DecAdd Inv_DecSub Inv_DecMul Inv_DecMulTruncate Inv_DecMulInt Inv_DecQuoTruncate Inv_DecQuoInt
    Inv_DecUnary Inv_Int Inv_Uint Inv_Chop Inv_Unique
    PrintCase
