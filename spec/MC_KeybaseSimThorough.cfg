\* C19 keybase, behaviours for the replayer: tlc -simulate -depth Depth+1; the history is printed at its end
CONSTANTS
    NK = 3
    NKnown = 2
    Secp = {2}
    Passes = {"e", "w", "u", "v"}
    MaxArm = 2
    Depth = 16
SPECIFICATION Spec
CHECK_DEADLOCK FALSE
ACTION_CONSTRAINT SimBias
INVARIANTS TypeOK PrintAtDepth
PROPERTIES StepOK
