\* exhaustive: prefixes ending in 0xFF, nested, cache over prefix; iterators stepped one call at a time
SPECIFICATION Spec
CONSTANTS
  Stacks <- IsoItStacks
  Meters <- MetersNone
  UserKeys <- UK
  Bounds <- BndSmall
  Vals <- V2
  Inits <- InitsFew
  GasCap = 0
  OpenIts = TRUE
  HistLen = 0
VIEW sview
CONSTRAINT GasBound
INVARIANTS Inv_PrefixIsolation Inv_NoGasNoPanic Inv_TraceFaithful
PROPERTY AProp
CHECK_DEADLOCK FALSE
