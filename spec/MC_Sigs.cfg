\* C19 signatures, quick: 3 keys, arrangements of up to 3 atoms, all damaged forms
CONSTANTS
    NK = 3
    MaxLeaves = 3
    Msg = 1
    OtherMsg = 2
    Damaged = {"mut", "trunc", "empty"}
    SingleInner = FALSE
INIT Init
NEXT Next
CHECK_DEADLOCK FALSE
INVARIANTS Inv_VerifyIffSignedInPosition Inv_BindsMessage Inv_EmptySlotNeverVerifies Inv_AllGoodSlotsVerify PrintCase
