\* C18 case table, thorough: P = 100, loose bounds, 241 x 241 printed cases
CONSTANTS
    P = 100
    IntBits = 20
    IntMax = 1048575
    UintMax = 2097151
    DecMax = 1073741823
    I64Max = 524287
    U64Max = 1048575
    PR = 100
    R = 260
    RY = 120
    UPrintR = 261
    EdgeMax = 0
    PrintR = 121
    Dev = {}
INIT Init
NEXT Next
CHECK_DEADLOCK FALSE
INVARIANTS
    Inv_DecAdd Inv_DecSub Inv_DecMul Inv_DecMulTruncate Inv_DecMulInt Inv_DecQuo Inv_DecQuoTruncate
    Inv_DecQuoRoundUp Inv_DecQuoInt Inv_DecUnary Inv_DecCeil Inv_Int Inv_Uint Inv_Chop Inv_Unique
    PrintCase
