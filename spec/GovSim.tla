------------------------------- MODULE GovSim -------------------------------
EXTENDS Gov, Json
CONSTANTS Depth, OneIn
VARIABLE hist
SimInit == GInit /\ hist = << >>
SimNext == \E a \in GActs(gs) : gs' = GStepP(gs, a) /\ hist' = Append(hist, a)
SimSpec == SimInit /\ [][SimNext]_<<gs, hist>>
Emit == IF Len(hist) >= Depth \/ GActs(gs) = {}
        THEN (IF RandomElement(1..OneIn) = 1 THEN PrintT(<< "BEH", ToJson(hist) >>) ELSE TRUE) /\ FALSE
        ELSE TRUE
=============================================================================
