\* refinement, exhaustive: nesting depth 2 (chains and siblings), 2 keys, atomic iterations
SPECIFICATION ISpecH
CONSTANTS
  Keys <- K2
  Bounds <- B3tiny
  OpenRanges <- OR1
  BaseInit <- BaseA
  SetVals <- ValNest
  MaxW = 2
  MaxDepth = 2
  MaxIt = 0
  BaseOps = TRUE
  HistLen = 0
  Probe = FALSE
VIEW IViewVars
INVARIANTS TypeOK Inv_Refines Inv_SortedCache Inv_ImplReadsAreView Inv_IterationIsView Inv_ReadsAreView
PROPERTY IProp
