\* C13 on the crash-safe design (Dev = {}): every crash point x every store order x every pruning pair
SPECIFICATION Spec
CONSTANTS
  Stores = {"s1", "s2"}
  TStore = "t1"
  Keys = {"a"}
  Vals = {"x", "y"}
  Prunings <- PruningsSel
  Strategies = {}
  PrunSel = {1, 2, 3, 4, 5, 6, 7, 8, 9, 10, 11, 12, 13}
  MaxVer = 3
  MaxWrites = 1
  MaxCrashes = 1
  Dev = {}
  Record = FALSE
  HistLen = 0
  CrashPlan = FALSE
  CrashKind = "any"
  TransientFirst = TRUE
  MaxLoads = 0
  LoadScope = "blockstart"
  ObsKind = {}
VIEW view
INVARIANTS
  TypeOK
  Inv_NoBrick
  Inv_RecoverAtomic
  Inv_ReexecuteSameHash
  Inv_FlushAtomic
  Inv_NeverWrongData
CHECK_DEADLOCK FALSE
