\* C19 signatures, thorough A: arrangements of up to 4 atoms (extra component on a 3-key multisig, 2+2 nesting);
\* damaged form: empty component
CONSTANTS
    NK = 3
    MaxLeaves = 4
    Msg = 1
    OtherMsg = 2
    Damaged = {"empty"}
    SingleInner = FALSE
INIT Init
NEXT Next
CHECK_DEADLOCK FALSE
INVARIANTS Inv_VerifyIffSignedInPosition Inv_BindsMessage Inv_EmptySlotNeverVerifies Inv_AllGoodSlotsVerify PrintCase
