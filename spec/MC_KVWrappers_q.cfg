\* quick tier, exhaustive: prefixes ending in 0xFF (<<255>>, <<1,255>>, <<255,255>>), open iterators, bounds around the keys
SPECIFICATION Spec
CONSTANTS
  Stacks <- QuickStacks
  Meters <- MetersNone
  UserKeys <- UK
  Bounds <- BndSmall
  Vals <- V2
  Inits <- InitsFew
  GasCap = 0
  OpenIts = TRUE
  HistLen = 0
VIEW sview
CONSTRAINT GasBound
INVARIANTS Inv_PrefixIsolation Inv_NoGasNoPanic Inv_TraceFaithful
PROPERTY AProp
CHECK_DEADLOCK FALSE
