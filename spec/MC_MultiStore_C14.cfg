\* C14, exhaustive: every query (store, key, height 0..latest+1, prove, via rootmulti / baseapp) in every state
SPECIFICATION Spec
CONSTANTS
  Stores = {"s1", "s2"}
  TStore = "t1"
  Keys = {"a"}
  Vals = {"x", "y"}
  Prunings <- PruningsSel
  Strategies = {}
  PrunSel = {1, 2, 3, 4, 5, 6, 7, 8, 9, 10, 11, 12, 13}
  MaxVer = 4
  MaxWrites = 1
  MaxCrashes = 1
  Dev = {"PruneBeforeFlush", "LoadZeroLoadsLatest"}
  Record = FALSE
  HistLen = 0
  CrashPlan = FALSE
  CrashKind = "clean"
  TransientFirst = TRUE
  MaxLoads = 0
  LoadScope = "blockstart"
  ObsKind = {}
VIEW view
INVARIANTS
  TypeOK
  Inv_C14
  Inv_SubspaceIsCommitted
CHECK_DEADLOCK FALSE
