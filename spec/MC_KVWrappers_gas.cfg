\* exhaustive: gas alone / over / under a prefix, window of limits around the cumulative costs, overflow rooms
SPECIFICATION Spec
CONSTANTS
  Stacks <- GasStacks
  Meters <- MetersSmall
  UserKeys <- UK
  Bounds <- BndSmall
  Vals <- V2
  Inits <- InitsFew
  GasCap = 4200
  OpenIts = FALSE
  HistLen = 0
VIEW sview
CONSTRAINT GasBound
INVARIANTS Inv_PrefixIsolation Inv_NoGasNoPanic Inv_TraceFaithful
PROPERTY AProp
CHECK_DEADLOCK FALSE
