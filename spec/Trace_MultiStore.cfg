\* trace validation of recorded histories of the real stores
SPECIFICATION TraceSpec
CONSTANTS
  Stores = {"s1", "s2"}
  TStore = "t1"
  Keys = {}
  Vals = {}
  Prunings <- PruningsSel
  Strategies = {}
  PrunSel = {1}
  MaxVer = 100000
  MaxWrites = 100000
  MaxCrashes = 100000
  Dev = {"PruneBeforeFlush", "LoadZeroLoadsLatest"}
  Record = FALSE
  HistLen = 0
  CrashPlan = FALSE
  CrashKind = "clean"
  TransientFirst = FALSE
  MaxLoads = 0
  LoadScope = "any"
  ObsKind = {}
CHECK_DEADLOCK FALSE
