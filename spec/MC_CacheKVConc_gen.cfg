\* the concurrent configuration of C15: 3 goroutines, at most 2 calls each, every call one atomic action
SPECIFICATION GSpec
CONSTANTS
  Keys <- KC
  Bounds <- B2
  OpenRanges <- OR1
  BaseInit <- BaseA
  SetVals <- ValBC
  MaxW = 1
  MaxDepth = 1
  MaxIt = 0
  BaseOps = FALSE
  NThreads = 3
  MaxOps = 2
  MaxPre = 2
  GenLen = 3
INVARIANT GInv_TypeOK
CONSTRAINT GenOut
CHECK_DEADLOCK FALSE
