\* C14, exhaustive, two keys
SPECIFICATION Spec
CONSTANTS
  Stores = {"s1", "s2"}
  TStore = "t1"
  Keys = {"a", "b"}
  Vals = {"x", "y"}
  Prunings <- PruningsSel
  Strategies = {}
  PrunSel = {1, 6}
  MaxVer = 3
  MaxWrites = 1
  MaxCrashes = 1
  Dev = {"PruneBeforeFlush", "LoadZeroLoadsLatest"}
  Record = FALSE
  HistLen = 0
  CrashPlan = FALSE
  CrashKind = "clean"
  TransientFirst = TRUE
  MaxLoads = 0
  LoadScope = "blockstart"
  ObsKind = {}
VIEW view
INVARIANTS
  TypeOK
  Inv_C14
  Inv_SubspaceIsCommitted
CHECK_DEADLOCK FALSE
