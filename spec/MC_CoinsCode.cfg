\* the code as it is: both named deviations active; Inv_Equal is expected to fail here and is left out
CONSTANTS
    ND = 3
    MaxAmt = 3
    MaxLen = 3
    Dev = {"IsEqualPanics", "AllGTEmptyFalse"}
INIT Init
NEXT Next
CHECK_DEADLOCK FALSE
INVARIANTS
    Inv_Add Inv_SafeSub Inv_Sub Inv_Inverse Inv_AllGT Inv_AllGTE Inv_AllLT Inv_AllLTE Inv_AnyGT Inv_AnyGTE
    Inv_Subset Inv_AmountOf Inv_Valid Inv_NewCoins Inv_Order PrintCase
