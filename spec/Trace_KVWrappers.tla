--------------------------- MODULE Trace_KVWrappers ---------------------------
(***************************************************************************)
(* Trace validation (code -> spec) for C16.  kvdrv runs seeded random        *)
(* programs on real wrapper stacks (random prefixes incl. 0xFF endings,      *)
(* nested prefixes, gas limits and overflow rooms chosen around every        *)
(* cumulative cost) and logs per operation: result, GasConsumed, panic kind, *)
(* decoded trace lines, full base content.  Each event is replayed through   *)
(* the operators of KVWrappers.tla and every logged field is compared        *)
(* (MISMATCH <line> <field> <expected> <observed>).                          *)
(***************************************************************************)
EXTENDS KVWrappers

VARIABLES l,
          tainted    \* a logged field differed earlier in this program: the real state may have diverged,
                     \* the rest of the program is skipped (only the first difference of a program is a finding)

Trace == ndJsonDeserialize("wtrace.ndjson")
Hdr == Trace[1]
TrStacks == {Hdr.stacks[i] : i \in 1..Len(Hdr.stacks)}
TrUserKeys == {Hdr.userkeys[i] : i \in 1..Len(Hdr.userkeys)}
TrU == {Hdr.basekeys[i] : i \in 1..Len(Hdr.basekeys)}
TrMeters == {}

tvars == <<vars, l, tainted>>

TInit ==
  /\ l = 2 /\ tainted = FALSE
  /\ stack = <<>> /\ meter0 = NoMeter /\ base0 = <<>>
  /\ base = [k \in U |-> None]
  /\ ov = [k \in AllKeys |-> NoEnt]
  /\ m = [c |-> 0, lim |-> -1, room |-> -1]
  /\ it = NoIt /\ dead = FALSE
  /\ res = [r |-> "init", gas |-> 0, pan |-> "", tr |-> <<>>]
  /\ act = Lbl("Init", <<>>, <<>>, None, None, TRUE)
  /\ hist = <<>>

Reset(e) ==
  /\ stack' = e.stack /\ meter0' = e.meter /\ base0' = e.init
  /\ base' = [k \in U |-> IF \E j \in 1..Len(e.init) : e.init[j][1] = k
                          THEN Some((CHOOSE x \in {e.init[j] : j \in 1..Len(e.init)} : x[1] = k)[2]) ELSE None]
  /\ ov' = [k \in AllKeys |-> NoEnt]
  /\ m' = [c |-> 0, lim |-> e.meter.lim, room |-> e.meter.room]
  /\ it' = NoIt /\ dead' = FALSE
  /\ res' = [r |-> "ok", gas |-> 0, pan |-> "", tr |-> <<>>]
  /\ act' = Lbl("Reset", <<>>, <<>>, None, None, TRUE)

Applicable(e) ==
  CASE e.op = "Reset" -> TRUE
    [] e.op \in {"Get", "Has", "Set", "Delete", "CacheWrap"} -> Live
    [] e.op = "Flush" -> Live /\ HasLayer("cache")
    [] e.op \in {"IterAll", "IterOpen"} -> Live /\ ~it.open
    [] e.op \in {"IterRead", "IterClose", "IterNextIfValid"} -> Live /\ it.open
    [] OTHER -> FALSE

NextIfValid ==
  IF IValid(1, ItI) THEN DoIterNext
  ELSE /\ Commit(G0, "exhausted", it) /\ act' = Lbl("IterNext", <<>>, <<>>, None, None, TRUE)

Step(e) ==
  \/ e.op = "Reset" /\ Reset(e)
  \/ e.op = "Get" /\ DoGet(e.k)
  \/ e.op = "Has" /\ DoHas(e.k)
  \/ e.op = "Set" /\ DoSet(e.k, e.v)
  \/ e.op = "Delete" /\ DoDelete(e.k)
  \/ e.op = "Flush" /\ DoFlush
  \/ e.op = "CacheWrap" /\ DoCacheWrapProbe
  \/ e.op = "IterAll" /\ DoIterAll(e.st, e.en, e.asc)
  \/ e.op = "IterOpen" /\ DoIterOpen(e.st, e.en, e.asc)
  \/ e.op = "IterRead" /\ DoIterRead
  \/ e.op = "IterNextIfValid" /\ NextIfValid
  \/ e.op = "IterClose" /\ DoIterClose

Same(want, got) == ToJson(want) = ToJson(got)          \* compared as JSON text: no mixed-type equality
Diff(ln, field, want, got) == IF Same(want, got) THEN TRUE ELSE PrintT(<<"MISMATCH", ln, field, ToJson(want), ToJson(got)>>)

\* what is compared: panic kind/position and result always; base content always; gas if the meter sees the
\* caller's operations; trace lines if the trace layer does.  What a panicking operation leaves behind is
\* reported under a separate label (not fixed by the property).
Check(e) ==
  LET panicked == res'.pan \notin {"", "refused"}
      sfx == IF panicked THEN "_after_panic" ELSE ""
  IN /\ Diff(l, "pan", res'.pan, e.o.pan)
     /\ (IF res'.pan = e.o.pan THEN Diff(l, "r", res'.r, e.o.r) ELSE TRUE)
     /\ Diff(l, "b", BaseDump(base'), e.b)                 \* also after a panic: out of gas = no effect
     /\ (IF \E j \in 1..Len(stack') : stack'[j].t = "gas" THEN
           (IF GasExactIn(stack') /\ res'.pan # "GasOverflow" THEN Diff(l, "gas" \o sfx, res'.gas, e.o.gas) ELSE TRUE)
         ELSE Diff(l, "gas", 0, e.o.gas))
     /\ (IF TraceExactIn(stack') THEN Diff(l, "tr" \o sfx, res'.tr, e.o.tr) ELSE TRUE)

Agrees(e) ==
  /\ Same(res'.pan, e.o.pan) /\ Same(res'.r, e.o.r) /\ Same(BaseDump(base'), e.b)
  /\ ((\E j \in 1..Len(stack') : stack'[j].t = "gas") /\ GasExactIn(stack') /\ res'.pan # "GasOverflow") => Same(res'.gas, e.o.gas)
  /\ TraceExactIn(stack') => Same(res'.tr, e.o.tr)

TNext ==
  /\ l <= Len(Trace)
  /\ LET e == Trace[l] IN
     IF e.op # "Reset" /\ tainted
     THEN /\ l' = l + 1 /\ UNCHANGED <<vars, tainted>>                     \* skip to the next program
     ELSE IF Applicable(e)
     THEN /\ Step(e) /\ l' = l + 1 /\ hist' = hist /\ Check(e)
          /\ tainted' = ~Agrees(e)
     ELSE /\ PrintT(<<"STUCK", l, ToJson(e)>>) /\ l' = Len(Trace) + 2 /\ UNCHANGED <<vars, tainted>>

TSpec == TInit /\ [][TNext]_tvars
Done == (l = Len(Trace) + 1) => PrintT(<<"DONE", l - 1>>)
=============================================================================
