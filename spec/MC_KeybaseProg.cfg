\* C19 keybase, scenario programs (case tables RoundTrip and Life of Keybase.tla): every program is run with the
\* specification's actions, StepOK is checked on every step, the finished runs are printed for the replayer.
\* Keys: 1 raw ed25519 (ImportObj), 2 armored secp256k1 (ArmorRaw + ImportArm), 3 generated inside (Create).
CONSTANTS
    NK = 3
    NKnown = 2
    Secp = {2}
    Passes = {"e", "w", "u", "v"}
    MaxArm = 3
    Depth = 16
SPECIFICATION SpecProg
CHECK_DEADLOCK TRUE
INVARIANTS TypeOK Inv_KnownFromExports Inv_ArmorsOfKnownKeys Inv_ProgFits PrintProgram
PROPERTIES StepOK
