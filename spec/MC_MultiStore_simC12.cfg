\* recorded behaviours for C12: restarts only, LoadVersion tables
SPECIFICATION Spec
CONSTANTS
  Stores = {"s1", "s2"}
  TStore = "t1"
  Keys = {"a", "ab", "b"}
  Vals = {"x", "y", ""}
  Prunings <- PruningsSel
  Strategies = {"nothing", "everything", "syncable", "", "Nothing", "archive"}
  PrunSel = {1, 2, 3, 4, 5, 6, 7, 8, 9, 10, 11, 12, 13}
  MaxVer = 80
  MaxWrites = 3
  MaxCrashes = 2
  Dev = {"PruneBeforeFlush", "LoadZeroLoadsLatest"}
  Record = TRUE
  HistLen = 60
  CrashPlan = TRUE
  CrashKind = "clean"
  TransientFirst = FALSE
  MaxLoads = 2
  LoadScope = "any"
  ObsKind = {"loads"}
CONSTRAINT PrintHist
CHECK_DEADLOCK FALSE
