---------------------------- MODULE Trace_CacheKV ----------------------------
(***************************************************************************)
(* Trace validation (code -> spec) for C15: kvdrv executes seeded random     *)
(* programs with richer keys on real cachekv / cachemulti stacks and logs    *)
(* one event per call (operation, arguments, real result).  This module      *)
(* replays the events through the operators of CacheKV.tla; every result the *)
(* real code returned must equal the specification's (MISMATCH otherwise).   *)
(* Many programs are concatenated with Reset events.  An event whose         *)
(* precondition does not hold in the specification means the generator left  *)
(* the contract: STUCK (a tool problem, never a verdict).                    *)
(* Refused calls (SetNil, GetNoKey, HasNoKey, DeleteNoKey, SetNoKey on a      *)
(* wrapper) are events like any other: the specification's step is Refused -- *)
(* res = "panic", nothing changes -- so whatever the real call left behind    *)
(* shows up as a MISMATCH of a later read, iteration or read of the parent.   *)
(***************************************************************************)
EXTENDS CacheKV

VARIABLE l

Trace == ndJsonDeserialize("trace.ndjson")

\* the first line of the trace is a header listing the keys that occur (only the domain of the maps;
\* scanning the whole trace at every reference of Keys made validation 25 times slower)
TraceKeys == {Trace[1].keys[i] : i \in 1..Len(Trace[1].keys)}
AnyVal(s) == {}

tvars == <<base, par, ov, used, its, res, act, l>>

TInit ==
  /\ l = 2
  /\ base = [k \in Keys |-> None]
  /\ par = [w \in W |-> -1]
  /\ ov = [w \in W |-> EmptyOv]
  /\ used = [w \in W |-> FALSE]
  /\ its = [i \in 1..MaxIt |-> NoIt]
  /\ res = "init"
  /\ act = "none"

Reset(e) ==
  /\ base' = [k \in Keys |-> IF \E j \in 1..Len(e.init) : e.init[j].k = k
                             THEN Some((CHOOSE x \in {e.init[j] : j \in 1..Len(e.init)} : x.k = k).v) ELSE None]
  /\ par' = [w \in W |-> -1]
  /\ ov' = [w \in W |-> EmptyOv]
  /\ used' = [w \in W |-> FALSE]
  /\ its' = [i \in 1..MaxIt |-> NoIt]
  /\ res' = "ok"

MinOf(S) == CHOOSE x \in S : \A y \in S : x <= y

Applicable(e) ==
  CASE e.op = "Reset" -> TRUE
    [] e.op \in {"Get", "Has", "Set", "Delete", "IterAll"} -> e.s \in 0..MaxW /\ Usable(e.s)
    [] e.op = "Write" -> e.s \in W /\ Usable(e.s)
    [] e.op \in RefusedOps -> e.s \in W /\ Usable(e.s)
    [] e.op = "Discard" -> e.s \in W /\ par[e.s] # -1
    [] e.op = "CacheWrap" -> e.s \in 0..MaxW /\ Usable(e.s) /\ Depth(e.s) < MaxDepth /\ FreeW # {} /\ e.n = MinOf(FreeW)
    [] e.op = "IterOpen" -> e.s \in W /\ Usable(e.s) /\ FreeIt # {} /\ e.it = MinOf(FreeIt)
    [] e.op = "IterNext" -> e.it \in 1..MaxIt /\ its[e.it].w # -1 /\ its[e.it].rest # <<>>
    [] e.op \in {"IterNextIfValid", "IterClose"} -> e.it \in 1..MaxIt /\ its[e.it].w # -1
    [] e.op = "DropIt" -> e.it \in 1..MaxIt /\ its[e.it].w = -1       \* the specification dropped it as well
    [] OTHER -> FALSE

Step(e) ==
  \/ e.op = "Reset" /\ Reset(e)
  \/ e.op = "Get" /\ Get(e.s, e.k)
  \/ e.op = "Has" /\ Has(e.s, e.k)
  \/ e.op = "Set" /\ Set(e.s, e.k, e.v)
  \/ e.op = "Delete" /\ Delete(e.s, e.k)
  \/ e.op = "IterAll" /\ IterAll(e.s, e.st, e.en, e.asc)
  \/ e.op = "IterOpen" /\ IterOpen(e.s, e.st, e.en, e.asc)
  \/ e.op = "IterNext" /\ IterNext(e.it)
  \/ e.op = "IterNextIfValid" /\ (IF its[e.it].rest # <<>> THEN IterNext(e.it)       \* the driver calls Next only if Valid()
                                   ELSE res' = "exhausted" /\ UNCHANGED <<base, par, ov, used, its>>)
  \/ e.op = "IterClose" /\ IterClose(e.it)
  \/ e.op = "DropIt" /\ res' = "ok" /\ UNCHANGED <<base, par, ov, used, its>>
  \/ e.op = "Write" /\ Write(e.s)
  \/ e.op = "Discard" /\ Discard(e.s)
  \/ e.op = "CacheWrap" /\ CacheWrap(e.s)
  \/ e.op \in RefusedOps /\ Refused(e.s)

TNext ==
  /\ l <= Len(Trace)
  /\ LET e == Trace[l] IN
     IF Applicable(e)
     THEN /\ Step(e)
          /\ l' = l + 1
          /\ act' = e.op
          /\ (IF ToJson(res') = ToJson(e.res) THEN TRUE          \* compared as JSON text: no mixed-type equality
              ELSE PrintT(<<"MISMATCH", l, ToJson(res'), ToJson(e.res)>>))
     ELSE /\ PrintT(<<"STUCK", l, ToJson(e)>>)
          /\ l' = Len(Trace) + 2
          /\ UNCHANGED <<base, par, ov, used, its, res, act>>

TSpec == TInit /\ [][TNext]_tvars

Done == (l = Len(Trace) + 1) => PrintT(<<"DONE", l - 1>>)
=============================================================================
