\* simulation over every stack and meter; behaviours printed (HIST) and replayed on the real wrappers
SPECIFICATION HSpec
CONSTANTS
  Stacks <- AllStacks
  Meters <- MetersSmall
  UserKeys <- UK
  Bounds <- Bnd
  Vals <- V3
  Inits <- InitsAll
  GasCap = 1000000
  OpenIts = TRUE
  HistLen = 25
CONSTRAINT GasBound
CONSTRAINT HistOut
INVARIANTS Inv_PrefixIsolation Inv_NoGasNoPanic Inv_TraceFaithful
PROPERTY AProp
CHECK_DEADLOCK FALSE
