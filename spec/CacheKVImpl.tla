----------------------------- MODULE CacheKVImpl -----------------------------
(***************************************************************************)
(* C15, implementation level: a transcription of store/cachekv/store.go,   *)
(* memiterator.go and mergeiterator.go, run in lock step with the abstract  *)
(* overlay of CacheKV.tla.  TLC checks, as invariants, that every result    *)
(* of the implementation-level operation equals the abstract one and that   *)
(* the implementation state maps onto the abstract state (refinement), and  *)
(* the clauses of C15 directly on the implementation-level state.           *)
(*                                                                         *)
(*  cache[w][k]  = store.cache[key]: p(resent) / v(alue) / del(eted)/dirty  *)
(*  uns[w]       = store.unsortedCache (key set)                            *)
(*  srt[w]       = store.sortedCache (ascending list of KVPair, v=<<>> nil) *)
(*  iits[i]      = an open iterator: "mem" (tm-db memDBIterator over the    *)
(*                 base) or "merge" (cacheMergeIterator: parent iterator p, *)
(*                 memIterator items c, ascending flag)                     *)
(***************************************************************************)
EXTENDS CacheKV

VARIABLES ibase, cache, uns, srt, iits, ires,
          hist      \* history of the behaviour (simulation only; constant <<>> otherwise)
CONSTANT HistLen    \* 0: exhaustive checking; > 0: simulation, behaviours of that length are printed

ivars == <<ibase, cache, uns, srt, iits>>
implvars == <<base, par, ov, used, its, res, act, ibase, cache, uns, srt, iits, ires>>

NoC == [p |-> FALSE, v |-> None, del |-> FALSE, dirty |-> FALSE]
EmptyCache == [k \in Keys |-> NoC]
NoImplIt == [t |-> "none"]

\* branch probe: with Probe = TRUE every evaluation of a labelled branch of the transcription prints a
\* HIT line (used on a small simulation to see which case splits the generated behaviours reach;
\* TLC's own -coverage does not cope with the mutually recursive iterator operators)
CONSTANT Probe
H(label, e) == IF Probe THEN (IF PrintT(<<"HIT", label>>) THEN e ELSE e) ELSE e

St == [base |-> ibase, cache |-> cache, uns |-> uns, srt |-> srt]

\* ---- store.go ------------------------------------------------------------------------------
\* func (store *Store) setCacheValue(key, value, deleted, dirty)
SetCacheValue(S, s, k, v, del, dirty) ==
  [S EXCEPT !.cache[s][k] = [p |-> TRUE, v |-> v, del |-> del, dirty |-> dirty],
            !.uns[s] = IF dirty THEN @ \cup {k} ELSE @]

\* func (store *Store) Get(key): cache hit, else parent.Get and memoise (dirty = false)
RECURSIVE IGet(_, _, _)
IGet(S, s, k) ==
  IF s = 0 THEN [S |-> S, v |-> S.base[k]]                               \* MemDB.Get
  ELSE IF S.cache[s][k].p THEN H("GetHit", [S |-> S, v |-> S.cache[s][k].v])   \* GetHit
  ELSE LET r == IGet(S, par[s], k)   \* GetMiss
       IN H("GetMiss", [S |-> SetCacheValue(r.S, s, k, r.v, FALSE, FALSE), v |-> r.v])

ISet(S, s, k, v) == IF s = 0 THEN [S EXCEPT !.base[k] = Some(v)]
                    ELSE SetCacheValue(S, s, k, Some(v), FALSE, TRUE)
\* func (store *Store) Set(key, value) on a wrapper, with an optional key and an optional value, in the
\* order of the statements: lock; AssertValidKey(key); AssertValidValue(value); setCacheValue(...).
\* Get / Delete: lock; AssertValidKey(key); ...   Has(key) = Get(key) != nil.
\* A failed assertion panics (the deferred Unlock runs) before the parent is read or the cache
\* written: the store state is the one before the call.
ISetChecked(S, s, optk, optv) ==
  IF optk = None THEN H("SetNilKey", [S |-> S, r |-> "panic"])
  ELSE IF optv = None THEN H("SetNilValue", [S |-> S, r |-> "panic"])
  ELSE [S |-> SetCacheValue(S, s, optk[1], optv, FALSE, TRUE), r |-> "ok"]
IKeyChecked(S, s, optk) == IF optk = None THEN H("NilKey", [S |-> S, r |-> "panic"]) ELSE [S |-> S, r |-> "ok"]
IDelete(S, s, k) == IF s = 0 THEN [S EXCEPT !.base[k] = None]
                    ELSE SetCacheValue(S, s, k, None, TRUE, TRUE)

\* func (store *Store) Write(): dirty keys, sorted, applied to the parent one by one; then reset
RECURSIVE ApplyKeys(_, _, _, _)
ApplyKeys(S, w, p, ks) ==
  IF ks = <<>> THEN S
  ELSE LET k == ks[1]
           c == S.cache[w][k]
           S1 == IF c.del THEN H("WriteDelete", IDelete(S, p, k))   \* WriteDelete
                 ELSE IF c.v = None THEN H("WriteSkipNil", S)   \* WriteSkipNil (dead: Set refuses nil)
                 ELSE H("WriteSet", ISet(S, p, k, c.v[1]))   \* WriteSet
       IN ApplyKeys(S1, w, p, Tail(ks))
IWrite(S, w) ==
  LET ks == SortAsc({k \in Keys : S.cache[w][k].p /\ S.cache[w][k].dirty})
      S1 == ApplyKeys(S, w, par[w], ks)
  IN [S1 EXCEPT !.cache[w] = EmptyCache, !.uns[w] = {}, !.srt[w] = <<>>]

\* func (store *Store) dirtyItems(start, end): move the unsorted dirty keys of the domain into
\* the sorted list (InsertBefore / replace value / PushBack)
RECURSIVE MergeSorted(_, _)
MergeSorted(u, l) ==
  IF u = <<>> THEN l
  ELSE IF l = <<>> THEN H("DirtyPushBack", u)   \* DirtyPushBack
  ELSE LET c == Cmp(u[1].k, l[1].k) IN
       IF c = -1 THEN H("DirtyInsertBefore", <<u[1]>> \o MergeSorted(Tail(u), l))   \* DirtyInsertBefore
       ELSE IF c = 1 THEN H("DirtyAdvance", <<l[1]>> \o MergeSorted(u, Tail(l)))   \* DirtyAdvance
       ELSE H("DirtyReplace", <<u[1]>> \o MergeSorted(Tail(u), Tail(l)))   \* DirtyReplace
DirtyItems(S, s, st, en) ==
  LET u == {k \in S.uns[s] : InDomain(k, st, en)}
      sk == SortAsc(u)
      useq == [i \in 1..Len(sk) |-> [k |-> sk[i], v |-> S.cache[s][sk[i]].v]]
  IN [S EXCEPT !.uns[s] = @ \ u, !.srt[s] = MergeSorted(useq, @)]

\* ---- memiterator.go ------------------------------------------------------------------------
\* newMemIterator: items of the sorted list in the domain, stop after leaving it
RECURSIVE ScanDomain(_, _, _, _)
ScanDomain(l, st, en, entered) ==
  IF l = <<>> THEN <<>>
  ELSE IF ~InDomain(l[1].k, st, en)
       THEN (IF entered THEN <<>> ELSE ScanDomain(Tail(l), st, en, FALSE))
       ELSE <<l[1]>> \o ScanDomain(Tail(l), st, en, TRUE)
CKey(c, asc) == IF asc THEN c[1].k ELSE c[Len(c)].k
CVal(c, asc) == IF asc THEN c[1].v ELSE c[Len(c)].v
CNext(c, asc) == IF asc THEN Tail(c) ELSE SubSeq(c, 1, Len(c) - 1)

\* ---- iterator creation (store.iterator) ------------------------------------------------------
RECURSIVE IIter(_, _, _, _, _)
IIter(S, s, st, en, asc) ==
  IF s = 0
  THEN [S |-> S, it |-> [t |-> "mem", items |-> RangeItems(S.base, st, en, asc)]]   \* MemDB iterator
  ELSE LET r == IIter(S, par[s], st, en, asc)          \* parent iterator first
           S1 == DirtyItems(r.S, s, st, en)
       IN [S |-> S1, it |-> [t |-> "merge", asc |-> asc, p |-> r.it, c |-> ScanDomain(S1.srt[s], st, en, FALSE)]]

\* ---- mergeiterator.go ------------------------------------------------------------------------
CmpD(asc, a, b) == IF asc THEN Cmp(a, b) ELSE 0 - Cmp(a, b)

\* skipCacheDeletes(until)
RECURSIVE SkipDel(_, _)
SkipDel(it, until) ==
  IF it.c # <<>> /\ CVal(it.c, it.asc) = None
     /\ (IF until = None THEN TRUE ELSE CmpD(it.asc, CKey(it.c, it.asc), until[1]) < 0)
  THEN SkipDel([it EXCEPT !.c = CNext(@, it.asc)], until)
  ELSE it

RECURSIVE XValid(_), XKey(_), XValue(_), XNext(_), Skip(_)

\* skipUntilExistsOrInvalid
Skip(it) ==
  LET pv == XValid(it.p)
      it1 == [it EXCEPT !.p = pv.it]
  IN IF ~pv.r
     THEN LET it2 == SkipDel(it1, None) IN H("SkipParentInvalid", [it |-> it2, r |-> it2.c # <<>>])   \* SkipParentInvalid
     ELSE IF it1.c = <<>> THEN H("SkipCacheInvalid", [it |-> it1, r |-> TRUE])   \* SkipCacheInvalid
     ELSE LET pk == XKey(it1.p)
              it2 == [it1 EXCEPT !.p = pk.it]
              cm == CmpD(it2.asc, pk.r, CKey(it2.c, it2.asc))
          IN IF cm = -1 THEN H("SkipParentFirst", [it |-> it2, r |-> TRUE])   \* SkipParentFirst
             ELSE IF cm = 0
             THEN (IF CVal(it2.c, it2.asc) = None
                   THEN H("SkipEqualDeleted", Skip([it2 EXCEPT !.p = XNext(@), !.c = CNext(@, it2.asc)]))   \* SkipEqualDeleted
                   ELSE H("SkipEqualExists", [it |-> it2, r |-> TRUE]))   \* SkipEqualExists
             ELSE (IF CVal(it2.c, it2.asc) = None
                   THEN H("SkipCacheFirstDeleted", Skip(SkipDel(it2, Some(pk.r))))   \* SkipCacheFirstDeleted
                   ELSE H("SkipCacheFirstExists", [it |-> it2, r |-> TRUE]))   \* SkipCacheFirstExists

XValid(it) == IF it.t = "mem" THEN [it |-> it, r |-> it.items # <<>>]
              ELSE Skip(it)

\* Next(): CONTRACT valid
XNext(it) ==
  IF it.t = "mem" THEN [it EXCEPT !.items = Tail(@)]
  ELSE LET n == Skip(it)
           pv == XValid(n.it.p)
           it2 == [n.it EXCEPT !.p = pv.it]
       IN IF ~pv.r THEN H("NextCacheOnly", [it2 EXCEPT !.c = CNext(@, it2.asc)])   \* NextCacheOnly
          ELSE IF it2.c = <<>> THEN H("NextParentOnly", [it2 EXCEPT !.p = XNext(@)])   \* NextParentOnly
          ELSE LET pk == XKey(it2.p)
                   it3 == [it2 EXCEPT !.p = pk.it]
                   cm == CmpD(it3.asc, pk.r, CKey(it3.c, it3.asc))
               IN IF cm = -1 THEN H("NextParentFirst", [it3 EXCEPT !.p = XNext(@)])   \* NextParentFirst
                  ELSE IF cm = 0 THEN H("NextBoth", [it3 EXCEPT !.p = XNext(@), !.c = CNext(@, it3.asc)])   \* NextBoth
                  ELSE H("NextCacheFirst", [it3 EXCEPT !.c = CNext(@, it3.asc)])   \* NextCacheFirst

XKey(it) ==
  IF it.t = "mem" THEN [it |-> it, r |-> it.items[1][1]]
  ELSE LET n == Skip(it)
           pv == XValid(n.it.p)
           it2 == [n.it EXCEPT !.p = pv.it]
       IN IF ~pv.r THEN [it |-> it2, r |-> CKey(it2.c, it2.asc)]
          ELSE IF it2.c = <<>> THEN LET pk == XKey(it2.p) IN [it |-> [it2 EXCEPT !.p = pk.it], r |-> pk.r]
          ELSE LET pk == XKey(it2.p)
                   it3 == [it2 EXCEPT !.p = pk.it]
                   cm == CmpD(it3.asc, pk.r, CKey(it3.c, it3.asc))
               IN IF cm = 1 THEN [it |-> it3, r |-> CKey(it3.c, it3.asc)] ELSE [it |-> it3, r |-> pk.r]

XValue(it) ==
  IF it.t = "mem" THEN [it |-> it, r |-> it.items[1][2]]
  ELSE LET n == Skip(it)
           pv == XValid(n.it.p)
           it2 == [n.it EXCEPT !.p = pv.it]
       IN IF ~pv.r THEN H("ValueCacheOnly", [it |-> it2, r |-> CVal(it2.c, it2.asc)[1]])   \* ValueCacheOnly
          ELSE IF it2.c = <<>> THEN LET pv2 == XValue(it2.p) IN H("ValueParentOnly", [it |-> [it2 EXCEPT !.p = pv2.it], r |-> pv2.r])   \* ValueParentOnly
          ELSE LET pk == XKey(it2.p)
                   it3 == [it2 EXCEPT !.p = pk.it]
                   cm == CmpD(it3.asc, pk.r, CKey(it3.c, it3.asc))
               IN IF cm = -1 THEN LET pv2 == XValue(it3.p) IN H("ValueParentFirst", [it |-> [it3 EXCEPT !.p = pv2.it], r |-> pv2.r])   \* ValueParentFirst
                  ELSE H("ValueCache", [it |-> it3, r |-> CVal(it3.c, it3.asc)[1]])   \* ValueCache (equal keys: cache shadows)

\* what a caller observes at the current position: Valid(), then Key(), Value()
Cur(it) ==
  LET v == XValid(it) IN
  IF ~v.r THEN [it |-> v.it, r |-> None]
  ELSE LET k == XKey(v.it)
           vl == XValue(k.it)
       IN [it |-> vl.it, r |-> Some(<<k.r, vl.r>>)]

RECURSIVE Drain(_, _)
Drain(it, acc) ==
  LET c == Cur(it) IN
  IF c.r = None THEN acc ELSE Drain(XNext(c.it), Append(acc, c.r[1]))

\* ---- lock step with the abstract actions -------------------------------------------------------
\* wrappers that the abstract step dropped lose their implementation state as well
Commit(S) ==
  /\ ibase' = S.base
  /\ cache' = [d \in W |-> IF par'[d] = -1 THEN EmptyCache ELSE S.cache[d]]
  /\ uns' = [d \in W |-> IF par'[d] = -1 THEN {} ELSE S.uns[d]]
  /\ srt' = [d \in W |-> IF par'[d] = -1 THEN <<>> ELSE S.srt[d]]
KeepIts == iits' = [i \in 1..MaxIt |-> IF its'[i].w = -1 THEN NoImplIt ELSE iits[i]]

IGetA(s, k) == LET r == IGet(St, s, k) IN Commit(r.S) /\ ires' = r.v /\ KeepIts
IHasA(s, k) == LET r == IGet(St, s, k) IN Commit(r.S) /\ ires' = (r.v # None) /\ KeepIts
ISetA(s, k, v) == Commit(ISet(St, s, k, v)) /\ ires' = "ok" /\ KeepIts
IDeleteA(s, k) == Commit(IDelete(St, s, k)) /\ ires' = "ok" /\ KeepIts
IIterAllA(s, st, en, asc) ==
  LET r == IIter(St, s, st, en, asc) IN Commit(r.S) /\ ires' = Drain(r.it, <<>>) /\ KeepIts
IIterOpenA(s, st, en, asc) ==
  LET r == IIter(St, s, st, en, asc)
      c == Cur(r.it)
      i == res'.it
  IN /\ Commit(r.S)
     /\ ires' = [it |-> i, cur |-> c.r]
     /\ iits' = [iits EXCEPT ![i] = c.it]
IIterNextA(i) ==
  LET c == Cur(XNext(iits[i]))
  IN /\ Commit(St) /\ ires' = c.r /\ iits' = [iits EXCEPT ![i] = c.it]
IIterCloseA(i) == Commit(St) /\ ires' = "ok" /\ KeepIts
IWriteA(w) == Commit(IWrite(St, w)) /\ ires' = "ok" /\ KeepIts
ICacheWrapA(s) == Commit(St) /\ ires' = res' /\ KeepIts
\* refused calls on a wrapper (nil value, nil key)
ISetNilA(s, k) == LET r == ISetChecked(St, s, Some(k), None) IN Commit(r.S) /\ ires' = r.r /\ KeepIts
ISetNoKeyA(s, v) == LET r == ISetChecked(St, s, None, Some(v)) IN Commit(r.S) /\ ires' = r.r /\ KeepIts
INoKeyA(s) == LET r == IKeyChecked(St, s, None) IN Commit(r.S) /\ ires' = r.r /\ KeepIts
IDiscardA(w) == Commit(St) /\ ires' = "ok" /\ KeepIts

IInit ==
  /\ AInit
  /\ ibase = base
  /\ cache = [w \in W |-> EmptyCache]
  /\ uns = [w \in W |-> {}]
  /\ srt = [w \in W |-> <<>>]
  /\ iits = [i \in 1..MaxIt |-> NoImplIt]
  /\ ires = "init"

DoGet(s, k) == Get(s, k) /\ act' = Lbl("Get", s, k, "", None, None, TRUE, 0) /\ IGetA(s, k)
DoHas(s, k) == Has(s, k) /\ act' = Lbl("Has", s, k, "", None, None, TRUE, 0) /\ IHasA(s, k)
DoDelete(s, k) == Delete(s, k) /\ act' = Lbl("Delete", s, k, "", None, None, TRUE, 0) /\ IDeleteA(s, k)
DoSet(s, k, v) == Set(s, k, v) /\ act' = Lbl("Set", s, k, v, None, None, TRUE, 0) /\ ISetA(s, k, v)
DoIterAll(s, st, en, asc) ==
  IterAll(s, st, en, asc) /\ act' = Lbl("IterAll", s, <<>>, "", st, en, asc, 0) /\ IIterAllA(s, st, en, asc)
DoIterOpen(s, st, en, asc) ==
  IterOpen(s, st, en, asc) /\ act' = Lbl("IterOpen", s, <<>>, "", st, en, asc, res'.it) /\ IIterOpenA(s, st, en, asc)
DoIterNext(i) == IterNext(i) /\ act' = Lbl("IterNext", its[i].w, <<>>, "", None, None, TRUE, i) /\ IIterNextA(i)
DoIterClose(i) == IterClose(i) /\ act' = Lbl("IterClose", its[i].w, <<>>, "", None, None, TRUE, i) /\ IIterCloseA(i)
DoWrite(w) == Write(w) /\ act' = Lbl("Write", w, <<>>, "", None, None, TRUE, 0) /\ IWriteA(w)
DoDiscard(w) == Discard(w) /\ act' = Lbl("Discard", w, <<>>, "", None, None, TRUE, 0) /\ IDiscardA(w)
DoCacheWrap(s) == CacheWrap(s) /\ act' = Lbl("CacheWrap", s, <<>>, "", None, None, TRUE, 0) /\ ICacheWrapA(s)
DoSetNil(s, k) == Refused(s) /\ act' = Lbl("SetNil", s, k, "", None, None, TRUE, 0) /\ ISetNilA(s, k)
DoSetNoKey(s, v) == Refused(s) /\ act' = Lbl("SetNoKey", s, <<>>, v, None, None, TRUE, 0) /\ ISetNoKeyA(s, v)
DoNoKey(o, s) == Refused(s) /\ act' = Lbl(o, s, <<>>, "", None, None, TRUE, 0) /\ INoKeyA(s)
DoRefusedKey(s) == (\E o \in {"GetNoKey", "HasNoKey", "DeleteNoKey"} : DoNoKey(o, s)) \/ (\E v \in SetVals(s) : DoSetNoKey(s, v))

INext ==
  \/ \E s \in Stores, k \in Keys :
        \/ DoGet(s, k)
        \/ DoHas(s, k)
        \/ (IF s = 0 THEN BaseOps ELSE TRUE) /\ DoDelete(s, k)
        \/ \E v \in SetVals(s) : (IF s = 0 THEN BaseOps ELSE TRUE) /\ DoSet(s, k, v)
  \/ \E s \in Stores, st \in OptBounds, en \in OptBounds, asc \in BOOLEAN : DoIterAll(s, st, en, asc)
  \/ \E s \in W, r \in OpenRanges, asc \in BOOLEAN : DoIterOpen(s, r[1], r[2], asc)
  \/ \E i \in 1..MaxIt : DoIterNext(i) \/ DoIterClose(i)
  \/ \E w \in W : DoWrite(w) \/ DoDiscard(w)
  \/ \E s \in Stores : DoCacheWrap(s)
  \/ \E s \in W : (\E k \in Keys : DoSetNil(s, k)) \/ DoRefusedKey(s)

\* ---- simulation: the same actions under a weighted random choice ------------------------------------
\* TLC's simulator picks uniformly among all successors, which lets the many range choices of the
\* iterators and the reads on the base crowd out nesting, Write and iterator steps.  SNext draws an
\* operation class first (RandomElement), prefers mutations on the innermost wrappers (a mutation
\* further down drops the used wrappers above it, see Gone) and offers one random range per step.
SimClasses == <<"read", "read", "mut", "mut", "mut", "mutany", "all", "all", "open", "open", "open",
                "next", "next", "next", "next", "close", "write", "wrap", "wrap", "discard",
                "refuse", "refuse", "refusekey">>
ClsEnabled(c) ==
  CASE c = "next" -> \E i \in 1..MaxIt : its[i].w # -1 /\ its[i].rest # <<>>
    [] c = "close" -> \E i \in 1..MaxIt : its[i].w # -1
    [] c = "open" -> FreeIt # {} /\ \E w \in W : par[w] # -1
    [] c \in {"write", "discard", "refuse", "refusekey"} -> \E w \in W : par[w] # -1
    [] c = "wrap" -> FreeW # {} /\ \E s \in Stores : Exists(s) /\ Depth(s) < MaxDepth
    [] OTHER -> TRUE
Leaf(s) == Exists(s) /\ Desc(s) = {}
SNext ==
  \E c0 \in {RandomElement(1..Len(SimClasses))} :
    LET c == IF ClsEnabled(SimClasses[c0]) THEN SimClasses[c0] ELSE "read" IN
    \/ c = "read" /\ \E s \in Stores, k \in Keys : DoGet(s, k) \/ DoHas(s, k)
    \/ c \in {"mut", "mutany"} /\ \E s \in Stores, k \in Keys :
          /\ (IF s = 0 THEN BaseOps ELSE TRUE)
          /\ (IF c = "mut" THEN Leaf(s) ELSE TRUE)
          /\ (DoDelete(s, k) \/ \E v \in SetVals(s) : DoSet(s, k, v))
    \/ c = "all" /\ \E s \in Stores, st \in {RandomElement(OptBounds)}, en \in {RandomElement(OptBounds)}, asc \in BOOLEAN :
          DoIterAll(s, st, en, asc)
    \/ c = "open" /\ \E s \in W, r \in OpenRanges, asc \in BOOLEAN : DoIterOpen(s, r[1], r[2], asc)
    \/ c = "next" /\ \E i \in 1..MaxIt : DoIterNext(i)
    \/ c = "close" /\ \E i \in 1..MaxIt : DoIterClose(i)
    \/ c = "write" /\ \E w \in W : DoWrite(w)
    \/ c = "discard" /\ \E w \in W : Leaf(w) /\ DoDiscard(w)
    \/ c = "wrap" /\ \E s \in Stores : DoCacheWrap(s)
    \/ c = "refuse" /\ \E s \in W, k \in Keys : DoSetNil(s, k)
    \/ c = "refusekey" /\ \E s \in W : DoRefusedKey(s)

ISpec == IInit /\ [][INext]_implvars

\* ---- simulation with a history variable (behaviours for replay on the real code) -------------------
HEntry == [a |-> act', r |-> res', ws |-> par', live |-> {i \in 1..MaxIt : its'[i].w # -1}]
HInit == IInit /\ hist = <<[a |-> act, r |-> base, ws |-> par, live |-> {}]>>
HNext == SNext /\ hist' = Append(hist, HEntry)
HSpec == HInit /\ [][HNext]_<<implvars, hist>>
HistOut == (Len(hist) = HistLen + 1 /\ RandomElement(1..8) = 1) => PrintT(<<"HIST", ToJson(hist)>>)   \* thinned: 1 in 8 candidates
\* exhaustive runs: hist stays constant
ISpecH == IInit /\ hist = <<>> /\ [][INext /\ UNCHANGED hist]_<<implvars, hist>>
HistBound == Len(hist) <= HistLen + 1

\* ---- refinement ---------------------------------------------------------------------------------
RECURSIVE IViewIn(_, _, _, _)
IViewIn(b, c, p, s) ==      \* what store s holds, read off the implementation state: dirty entries shadow
  IF s = 0 THEN b
  ELSE LET pv == IViewIn(b, c, p, p[s])
       IN [k \in Keys |-> IF c[s][k].p /\ c[s][k].dirty THEN c[s][k].v ELSE pv[k]]
IView(s) == IViewIn(ibase, cache, par, s)
IViewP(s) == IViewIn(ibase', cache', par', s)

\* NOTE on checking: res/ires/act are outside the VIEW, and TLC evaluates INVARIANTS only on states whose
\* view is new, so predicates over results are ALSO checked as action properties (primed, in IProp):
\* TLC evaluates those on every generated transition.
Res_Refines == ires = res                                          \* every result equals the abstract one
Inv_Refines ==
  /\ Res_Refines
  /\ ibase = base
  /\ \A s \in W : par[s] # -1 =>
        /\ IView(s) = View(s)
        /\ \A k \in Keys :                                          \* abstraction function of the overlay
             ov[s][k] = IF cache[s][k].p /\ cache[s][k].dirty THEN [d |-> TRUE, v |-> cache[s][k].v] ELSE NoEnt
        /\ \A k \in Keys : (cache[s][k].p /\ ~cache[s][k].dirty) => cache[s][k].v = View(par[s])[k]  \* memo coherent
        /\ \A k \in Keys : cache[s][k].p => (cache[s][k].del <=> (cache[s][k].dirty /\ cache[s][k].v = None))
  /\ \A s \in W : par[s] = -1 => (cache[s] = EmptyCache /\ uns[s] = {} /\ srt[s] = <<>>)

\* internal consistency of the lazily sorted dirty list
Inv_SortedCache ==
  \A s \in W :
     /\ \A i \in 1..(Len(srt[s]) - 1) : Cmp(srt[s][i].k, srt[s][i + 1].k) < 0
     /\ uns[s] \subseteq {k \in Keys : cache[s][k].p /\ cache[s][k].dirty}
     /\ \A k \in Keys : (cache[s][k].p /\ cache[s][k].dirty) =>
           (k \in uns[s] \/ \E i \in 1..Len(srt[s]) : srt[s][i].k = k /\ srt[s][i].v = cache[s][k].v)

\* ---- C15 on the implementation-level state ---------------------------------------------------------
\* reads and iterations see the parent's content overlaid with the wrapper's sets and deletes:
\* sorted, no duplicates, no deleted keys, inside the range, in both directions
Inv_ImplReadsAreView ==
  /\ act.op = "Get" => ires = IView(act.s)[act.k]
  /\ act.op = "Has" => ires = (IView(act.s)[act.k] # None)
  /\ act.op = "IterAll" =>
       /\ IsSorted(ires, act.asc)
       /\ \A i \in 1..Len(ires) : InDomain(ires[i][1], act.st, act.en) /\ IView(act.s)[ires[i][1]] = Some(ires[i][2])
       /\ \A k \in Keys : (IView(act.s)[k] # None /\ InDomain(k, act.st, act.en)) => \E i \in 1..Len(ires) : ires[i][1] = k
\* open iterators: what is still to come is the rest of the snapshot (checked through ires = res at each step)

\* the parent is unchanged until Write: a step changes what a store holds only if it mutates
\* that store or one of its ancestors
Act_ImplUnchangedUntilWrite ==
  \A s \in Stores : (StillThere(s) /\ IViewP(s) # IView(s)) => (Mutated \cap ({s} \cup Anc(s)) # {})
\* after Write the parent holds exactly the overlaid view and the wrapper is clean
Act_ImplWriteAppliesView ==
  act'.op = "Write" =>
     LET w == act'.s IN
     /\ IViewIn(ibase', cache', par', par[w]) = IView(w)
     /\ cache'[w] = EmptyCache /\ uns'[w] = {} /\ srt'[w] = <<>>
     /\ IViewP(w) = IView(w)
\* discarding a wrapper leaves no effect
Act_ImplDiscardNoEffect ==
  act'.op = "Discard" =>
     /\ ibase' = ibase
     /\ \A s \in W : par'[s] # -1 => (cache'[s] = cache[s] /\ IViewP(s) = IView(s))

\* a refused call (nil value, nil key) reports the panic and leaves the implementation state alone
Act_ImplRefusedNoEffect ==
  act'.op \in RefusedOps =>
     /\ ires' = "panic"
     /\ UNCHANGED <<ibase, cache, uns, srt, iits>>

IProp == [][Act_ImplUnchangedUntilWrite /\ Act_ImplWriteAppliesView /\ Act_ImplDiscardNoEffect
            /\ Act_UnchangedUntilWrite /\ Act_WriteAppliesView /\ Act_DiscardNoEffect
            /\ Act_RefusedNoEffect /\ Act_ImplRefusedNoEffect
            /\ Res_Refines' /\ Inv_ImplReadsAreView' /\ Inv_IterationIsView' /\ Inv_ReadsAreView']_<<implvars, hist>>

IViewVars == <<base, par, ov, used, its, ibase, cache, uns, srt, iits>>
=============================================================================
