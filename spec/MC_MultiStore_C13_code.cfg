\* C13 invariants that the code-shaped model keeps even with its deviations: the flush is atomic and
\* whatever LoadVersion returns is a committed version, at every crash point
SPECIFICATION Spec
CONSTANTS
  Stores = {"s1", "s2"}
  TStore = "t1"
  Keys = {"a"}
  Vals = {"x", "y"}
  Prunings <- PruningsSel
  Strategies = {}
  PrunSel = {1, 2, 3, 4, 5, 6, 7, 8, 9, 10, 11, 12, 13}
  MaxVer = 3
  MaxWrites = 1
  MaxCrashes = 1
  Dev = {"PruneBeforeFlush", "LoadZeroLoadsLatest"}
  Record = FALSE
  HistLen = 0
  CrashPlan = FALSE
  CrashKind = "any"
  TransientFirst = TRUE
  MaxLoads = 0
  LoadScope = "blockstart"
  ObsKind = {}
VIEW view
INVARIANTS
  TypeOK
  Inv_FlushAtomic
  Inv_NeverWrongData
CHECK_DEADLOCK FALSE
