\* C19 keybase, thorough: 3 keys (1 raw ed25519 and 1 secp256k1 held by the client, 1 created inside), 4 passphrases (e, w, u, v), at most 2 exported
\* armors kept; every transition is checked against StepOK (VIEW leaves the label and the history out)
CONSTANTS
    NK = 3
    NKnown = 2
    Secp = {2}
    Passes = {"e", "w", "u", "v"}
    MaxArm = 2
    Depth = 0
SPECIFICATION Spec
VIEW View
CHECK_DEADLOCK FALSE
INVARIANTS TypeOK Inv_KnownFromExports Inv_ArmorsOfKnownKeys
PROPERTIES StepOK
