\* C18 deviation {"CeilNoRangeCheck"} alone: TLC must find a counterexample of Inv_DecCeil (expected to FAIL)
CONSTANTS
    P = 10
    IntBits = 5
    IntMax = 31
    UintMax = 63
    DecMax = 511
    I64Max = 15
    U64Max = 31
    PR = 10
    R = 70
    RY = 70
    UPrintR = 0
    EdgeMax = 511
    PrintR = 0
    Dev = {"CeilNoRangeCheck"}
INIT Init
NEXT Next
CHECK_DEADLOCK FALSE
INVARIANTS
    Inv_DecCeil
