----------------------------- MODULE PosmintSim -----------------------------
(* Posmint with a history of the actions taken.  Under `tlc -simulate` the     *)
(* constraint Emit prints complete action sequences as JSON; the harness       *)
(* executes them on the real application (spec -> code), logging the projected *)
(* real state after every step, and Trace_Posmint validates that log against   *)
(* the specification (code -> spec).                                           *)
EXTENDS Posmint, Json
CONSTANTS Depth, OneIn
VARIABLE hist

SimInit == Init /\ hist = << >>
SimNext == \E a \in Acts(st) : st' = Step(st, a) /\ hist' = Append(hist, a)
SimSpec == SimInit /\ [][SimNext]_<<st, hist>>

\* Evaluated on every candidate successor.  Complete behaviours (depth reached, or nothing
\* enabled: end of the bounded history or a halted node) are printed - a random 1/OneIn of the
\* candidates, all of which are behaviours of the specification - and not extended further.
Emit == IF Len(hist) >= Depth \/ Acts(st) = {}
        THEN (IF RandomElement(1..OneIn) = 1 THEN PrintT(<< "BEH", ToJson(hist) >>) ELSE TRUE) /\ FALSE
        ELSE TRUE
=============================================================================
