\* exhaustive: trace stacks and mixed prefix/gas/trace/cache stacks
SPECIFICATION Spec
CONSTANTS
  Stacks <- TraceMixedStacks
  Meters <- MetersM
  UserKeys <- UK2
  Bounds <- BndSmall
  Vals <- V2
  Inits <- Inits1
  GasCap = 3100
  OpenIts = TRUE
  HistLen = 0
VIEW sview
CONSTRAINT GasBound
INVARIANTS Inv_PrefixIsolation Inv_NoGasNoPanic Inv_TraceFaithful
PROPERTY AProp
CHECK_DEADLOCK FALSE
