-------------------------------- MODULE Sigs --------------------------------
(***************************************************************************)
(* C19, signatures: ed25519 / secp256k1 keys and the N-of-N positional     *)
(* multisignature key of posmint (crypto/ed25519.go, secp256k1.go,         *)
(* multisig.go).                                                           *)
(*                                                                         *)
(* Signatures are abstract: a simple signature is the pair (key, message)  *)
(* it was made with, or one of the damaged forms (a flipped byte, a        *)
(* dropped byte, nothing).  The primitives are trusted to be exactly that: *)
(* Verify(k, m, s) iff s is the undamaged signature by k over m; the       *)
(* binding observes the real primitives on every case generated here.      *)
(*                                                                         *)
(* Part 1 transcribes PublicKeyMultiSignature.VerifyBytes: decode the      *)
(* multisignature, the number of components must equal the number of       *)
(* listed keys, component i must be found and verify under key i, where    *)
(* key i may itself be a multisignature key (its component is then an      *)
(* encoded multisignature).  Part 2 says what the property demands,        *)
(* without recursion on the verification: the signature has the shape of   *)
(* the key and at every leaf position of the key sits the undamaged        *)
(* signature of THAT leaf's key over the message.  Part 3 enumerates all   *)
(* arrangements of components up to MaxLeaves leaves for a fixed list of   *)
(* key trees, checks Part 1 = Part 2 on each and prints the case table     *)
(* that cryptodrv instantiates with real keys.                             *)
(*                                                                         *)
(* Part 3b is the SLOT-SHAPE table: for a multisignature key every slot    *)
(* (every leaf position, and every slot that expects a nested              *)
(* multisignature as a whole) is filled independently with the signature   *)
(* that belongs there ("G"), a well-formed or damaged signature that does  *)
(* not ("W": another listed key's, over the other message, a flipped byte) *)
(* or NOTHING ("E": zero bytes, which amino decodes to a nil slot).  The    *)
(* multisignature always has the key's own shape and slot count, so the    *)
(* count check passes and only the per-slot check can refuse: VerifyBytes  *)
(* must be false whenever any slot is empty (Inv_EmptySlotNeverVerifies),  *)
(* all-empty and exactly-one-empty at each position included, for flat,    *)
(* nested and doubly nested keys (SlotKeyTrees adds trees with 4 leaves    *)
(* that the arrangements of Part 3 do not reach).                          *)
(*                                                                         *)
(* Part 4 transcribes MultiSignature.AddSignatureByIndex (the code pads    *)
(* up to index-1, so a signature added beyond the end lands one position   *)
(* early): not part of the property ("verifies only when ..."), compared   *)
(* with the real code as a conformance note only.                          *)
(***************************************************************************)
EXTENDS Integers, Sequences, FiniteSets, TLC, Json

CONSTANTS
    NK,          \* simple keys are 1..NK
    MaxLeaves,   \* arrangements have at most this many atoms
    Msg,         \* the message under verification
    OtherMsg,    \* another message
    Damaged,     \* which damaged atoms take part: subset of {"mut", "trunc", "empty"}
    SingleInner  \* TRUE: one-atom inner multisignatures take part as well

VARIABLES key, sig

-----------------------------------------------------------------------------
(* values: uniform records so that TLC can compare them                    *)

\* key trees
SKey(i)  == [t |-> "k", k |-> i, c |-> <<>>]
MKey(cs) == [t |-> "mk", k |-> 0, c |-> cs]
\* signatures: "s" good simple signature by k over m; "mut"/"trunc" damaged copies of it;
\* "empty" no bytes at all; "ms" an encoded multisignature with components c
Atom(t, k, m) == [t |-> t, k |-> k, m |-> m, c |-> <<>>]
MSig(cs)      == [t |-> "ms", k |-> 0, m |-> 0, c |-> cs]

-----------------------------------------------------------------------------
(* Part 1: the code                                                        *)

\* ed25519 / secp256k1 VerifyBytes (trusted primitive): only the undamaged signature made
\* with this key over this message
VerifySimple(i, m, s) == s.t = "s" /\ s.k = i /\ s.m = m

RECURSIVE Verify(_, _, _)
Verify(K, m, s) ==
    IF K.t = "k" THEN VerifySimple(K.k, m, s)
    ELSE \* PublicKeyMultiSignature.VerifyBytes
         IF s.t # "ms" THEN FALSE                        \* cdc.UnmarshalBinaryBare fails
         ELSE IF Len(s.c) # Len(K.c) THEN FALSE          \* numOfSigs != len(pms.PublicKeys)
         ELSE \A i \in 1..Len(s.c) :
                  /\ s.c[i].t # "empty"                  \* GetSignatureByIndex: sig == nil => !found
                  /\ Verify(K.c[i], m, s.c[i])           \* pms.PublicKeys[i].VerifyBytes(msg, signature)

-----------------------------------------------------------------------------
(* Part 2: the property: every listed key has signed the message in its    *)
(* own position, nested keys too.  Positions are paths of child indices.   *)

RECURSIVE KeyLeaves(_, _)
\* {<<path, key id>>} of the leaves of a key tree
KeyLeaves(K, path) ==
    IF K.t = "k" THEN { <<path, K.k>> }
    ELSE UNION { KeyLeaves(K.c[i], Append(path, i)) : i \in 1..Len(K.c) }

RECURSIVE SigLeaves(_, _)
\* {<<path, atom>>} of the atoms of a signature
SigLeaves(s, path) ==
    IF s.t # "ms" THEN { <<path, s>> }
    ELSE UNION { SigLeaves(s.c[i], Append(path, i)) : i \in 1..Len(s.c) }

RECURSIVE KeyNodes(_, _)
\* {<<path, number of children>>} of the inner nodes (shape)
KeyNodes(K, path) ==
    IF K.t = "k" THEN {}
    ELSE { <<path, Len(K.c)>> } \cup UNION { KeyNodes(K.c[i], Append(path, i)) : i \in 1..Len(K.c) }
RECURSIVE SigNodes(_, _)
SigNodes(s, path) ==
    IF s.t # "ms" THEN {}
    ELSE { <<path, Len(s.c)>> } \cup UNION { SigNodes(s.c[i], Append(path, i)) : i \in 1..Len(s.c) }

\* same shape, and at every leaf position of the key the good signature of that key over m
SignedInPosition(K, m, s) ==
    /\ KeyNodes(K, <<>>) = SigNodes(s, <<>>)
    /\ { l[1] : l \in KeyLeaves(K, <<>>) } = { l[1] : l \in SigLeaves(s, <<>>) }
    /\ \A l \in KeyLeaves(K, <<>>) : <<l[1], Atom("s", l[2], m)>> \in SigLeaves(s, <<>>)

-----------------------------------------------------------------------------
(* Part 3: all arrangements                                                *)

\* the key trees (canonical labellings; the signatures range over ALL keys, so renamings of
\* these trees are covered from the signature side)
KeyTrees ==
    { SKey(1),
      MKey(<<SKey(1), SKey(2)>>), MKey(<<SKey(1), SKey(1)>>),
      MKey(<<SKey(1), SKey(2), SKey(3)>>), MKey(<<SKey(1), SKey(2), SKey(1)>>),
      MKey(<<SKey(1), MKey(<<SKey(2), SKey(3)>>)>>),
      MKey(<<MKey(<<SKey(1), SKey(2)>>), SKey(3)>>),
      MKey(<<SKey(1), MKey(<<SKey(1), SKey(2)>>)>>) }

Atoms ==
    { Atom("s", i, m) : i \in 1..NK, m \in {Msg, OtherMsg} }
    \cup (IF "mut" \in Damaged THEN { Atom("mut", i, Msg) : i \in 1..NK } ELSE {})
    \cup (IF "trunc" \in Damaged THEN { Atom("trunc", 1, Msg) } ELSE {})
    \cup (IF "empty" \in Damaged THEN { Atom("empty", 0, 0) } ELSE {})

RECURSIVE SeqsOf(_, _)
\* sequences of exactly n elements of S
SeqsOf(S, n) == IF n = 0 THEN { <<>> } ELSE { Append(q, e) : q \in SeqsOf(S, n - 1), e \in S }

\* inner multisignatures: 1..MaxLeaves atoms (depth 2 of the signature)
Inner(n) == { MSig(q) : q \in SeqsOf(Atoms, n) }

RECURSIVE Comps(_)
\* sequences of components (atoms or inner multisignatures) with exactly n atoms in total
Comps(n) ==
    IF n = 0 THEN { <<>> }
    ELSE UNION { { <<h>> \o tl : h \in (IF j = 1 THEN Atoms \cup (IF SingleInner THEN Inner(1) ELSE {}) ELSE Inner(j)),
                                  tl \in Comps(n - j) }
                 : j \in 1..n }

Sigs == Atoms \cup { MSig(q) : q \in UNION { Comps(n) : n \in 0..MaxLeaves } }

-----------------------------------------------------------------------------
(* Part 3b: slot shapes                                                    *)

\* further multisignature keys for the slot-shape table only (4 leaves; both slots nested)
SlotKeyTrees ==
    { MKey(<<MKey(<<SKey(1), SKey(2)>>), MKey(<<SKey(3), SKey(1)>>)>>),
      MKey(<<SKey(1), SKey(2), SKey(3), SKey(1)>>),
      MKey(<<SKey(2), MKey(<<SKey(1), SKey(3), SKey(2)>>)>>) }

OtherKey(i) == (i % NK) + 1
\* what a leaf slot of key i can hold: G the signature that belongs there; W one that does not; E nothing
LeafFills(i) ==
    { Atom("s", i, Msg),                                                   \* G
      Atom("s", OtherKey(i), Msg), Atom("s", i, OtherMsg), Atom("mut", i, Msg),   \* W
      Atom("empty", 0, 0) }                                                \* E

RECURSIVE ProdSeq(_, _)
\* all sequences q of length n with q[i] \in F[i]
ProdSeq(F, n) == IF n = 0 THEN { <<>> } ELSE { Append(q, e) : q \in ProdSeq(F, n - 1), e \in F[n] }

RECURSIVE SlotSigs(_)
\* every filling of the slots of K: a multisignature of K's own shape, or - for a nested slot - nothing at all
SlotSigs(K) ==
    IF K.t = "k" THEN LeafFills(K.k)
    ELSE { Atom("empty", 0, 0) } \cup
         { MSig(q) : q \in ProdSeq([i \in 1..Len(K.c) |-> SlotSigs(K.c[i])], Len(K.c)) }

RECURSIVE Flatten(_)
Flatten(qq) == IF qq = <<>> THEN <<>> ELSE Head(qq) \o Flatten(Tail(qq))
RECURSIVE SlotShape(_, _)
\* the slot-shape vector of s relative to K, slot by slot from left to right: "G" / "W" / "E" as above, "X" where s
\* does not have K's shape (an atom where a multisignature is expected or the reverse, another number of components)
SlotShape(K, s) ==
    IF s.t = "empty" THEN <<"E">>
    ELSE IF K.t = "k" THEN << IF s = Atom("s", K.k, Msg) THEN "G" ELSE IF s.t = "ms" THEN "X" ELSE "W" >>
    ELSE IF s.t # "ms" \/ Len(s.c) # Len(K.c) THEN <<"X">>
    ELSE Flatten([i \in 1..Len(K.c) |-> SlotShape(K.c[i], s.c[i])])
HasSlot(v, x) == \E i \in 1..Len(v) : v[i] = x

\* the key tree is chosen initially, the arrangement by the only step (TLC's workers share them)
NoSig == Atom("none", 0, 0)
Init == key \in KeyTrees \cup SlotKeyTrees /\ sig = NoSig
Next == /\ sig = NoSig
        /\ sig' \in (IF key \in KeyTrees THEN Sigs ELSE {}) \cup (IF key.t = "mk" THEN SlotSigs(key) ELSE {})
        /\ key' = key
Chosen == sig # NoSig

\* the transcribed verification accepts exactly the arrangements the property describes
Inv_VerifyIffSignedInPosition == Chosen => (Verify(key, Msg, sig) <=> SignedInPosition(key, Msg, sig))
\* a signature over another message, or with any damaged atom, is never accepted
Inv_BindsMessage ==
    (Chosen /\ Verify(key, Msg, sig)) => \A l \in SigLeaves(sig, <<>>) : l[2].t = "s" /\ l[2].m = Msg

\* a multisignature with the key's slot count in which some slot is empty never verifies, whatever the other
\* slots hold - at the top level and inside nested multisignatures
Inv_EmptySlotNeverVerifies ==
    (Chosen /\ key.t = "mk" /\ HasSlot(SlotShape(key, sig), "E")) => ~Verify(key, Msg, sig)
\* and one whose slots all hold the signature that belongs there does
Inv_AllGoodSlotsVerify ==
    (Chosen /\ key.t = "mk" /\ \A i \in 1..Len(SlotShape(key, sig)) : SlotShape(key, sig)[i] = "G") => Verify(key, Msg, sig)

\* ---- case table -----------------------------------------------------------
RECURSIVE EncKey(_)
EncKey(K) == IF K.t = "k" THEN <<"k", K.k>> ELSE <<"mk", [i \in 1..Len(K.c) |-> EncKey(K.c[i])]>>
RECURSIVE EncSig(_)
EncSig(s) == IF s.t = "ms" THEN <<"ms", [i \in 1..Len(s.c) |-> EncSig(s.c[i])]>>
             ELSE <<s.t, s.k, s.m>>

\* slots: the slot-shape vector (multisignature keys; <<>> for a simple key)
PrintCase == Chosen => PrintT(ToJson([key |-> EncKey(key), sig |-> EncSig(sig), ok |-> Verify(key, Msg, sig),
                                      slots |-> IF key.t = "mk" THEN SlotShape(key, sig) ELSE <<>>]))

-----------------------------------------------------------------------------
(* Part 4: MultiSignature.AddSignatureByIndex (0-based index), conformance  *)
(* note only.  Pad is the placeholder []byte{0}.                           *)

Pad == Atom("pad", 0, 0)
RECURSIVE PadTo(_, _)
PadTo(q, n) == IF Len(q) >= n THEN q ELSE PadTo(Append(q, Pad), n)
AddSigByIndex(q, s, index) ==
    IF Len(q) - 1 >= index THEN [q EXCEPT ![index + 1] = s]       \* replace
    ELSE Append(PadTo(q, index - 1), s)                           \* for i := sigsLen; i < index-1; i++
\* what a caller expects: the signature ends up at position index
AddSigIntended(q, s, index) ==
    IF Len(q) - 1 >= index THEN [q EXCEPT ![index + 1] = s]
    ELSE Append(PadTo(q, index), s)

RECURSIVE Build(_, _)
\* add the signatures s_i (i = order[1], order[2], ...) by their own index
Build(order, q) ==
    IF order = <<>> THEN q
    ELSE Build(Tail(order), AddSigByIndex(q, Atom("s", Head(order) + 1, Msg), Head(order)))
Perms3 == { <<0, 1, 2>>, <<0, 2, 1>>, <<1, 0, 2>>, <<1, 2, 0>>, <<2, 0, 1>>, <<2, 1, 0>> }
BuildTable == [o \in Perms3 |-> [order |-> o,
                                 sigs |-> [i \in 1..Len(Build(o, <<>>)) |-> EncSig(Build(o, <<>>)[i])],
                                 verifies |-> Verify(MKey(<<SKey(1), SKey(2), SKey(3)>>), Msg, MSig(Build(o, <<>>)))]]
ASSUME PrintT(ToJson([build |-> { BuildTable[o] : o \in Perms3 }]))
\* adding in index order puts every signature in its own position
ASSUME Build(<<0, 1, 2>>, <<>>) = <<Atom("s", 1, Msg), Atom("s", 2, Msg), Atom("s", 3, Msg)>>
=============================================================================
