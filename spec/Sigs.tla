-------------------------------- MODULE Sigs --------------------------------
(***************************************************************************)
(* C19, signatures: ed25519 / secp256k1 keys and the N-of-N positional     *)
(* multisignature key of posmint (crypto/ed25519.go, secp256k1.go,         *)
(* multisig.go).                                                           *)
(*                                                                         *)
(* Signatures are abstract: a simple signature is the pair (key, message)  *)
(* it was made with, or one of the damaged forms (a flipped byte, a        *)
(* dropped byte, nothing).  The primitives are trusted to be exactly that: *)
(* Verify(k, m, s) iff s is the undamaged signature by k over m; the       *)
(* binding observes the real primitives on every case generated here.      *)
(*                                                                         *)
(* Part 1 transcribes PublicKeyMultiSignature.VerifyBytes: decode the      *)
(* multisignature, the number of components must equal the number of       *)
(* listed keys, component i must be found and verify under key i, where    *)
(* key i may itself be a multisignature key (its component is then an      *)
(* encoded multisignature).  Part 2 says what the property demands,        *)
(* without recursion on the verification: the signature has the shape of   *)
(* the key and at every leaf position of the key sits the undamaged        *)
(* signature of THAT leaf's key over the message.  Part 3 enumerates all   *)
(* arrangements of components up to MaxLeaves leaves for a fixed list of   *)
(* key trees, checks Part 1 = Part 2 on each and prints the case table     *)
(* that cryptodrv instantiates with real keys.                             *)
(*                                                                         *)
(* Part 3b is the SLOT-SHAPE table: for a multisignature key every slot    *)
(* (every leaf position, and every slot that expects a nested              *)
(* multisignature as a whole) is filled independently with the signature   *)
(* that belongs there ("G"), a well-formed or damaged signature that does  *)
(* not ("W": another listed key's, over the other message, a flipped byte) *)
(* or NOTHING ("E": zero bytes, which amino decodes to a nil slot).  The    *)
(* multisignature always has the key's own shape and slot count, so the    *)
(* count check passes and only the per-slot check can refuse: VerifyBytes  *)
(* must be false whenever any slot is empty (Inv_EmptySlotNeverVerifies),  *)
(* all-empty and exactly-one-empty at each position included, for flat,    *)
(* nested and doubly nested keys (SlotKeyTrees adds trees with 4 leaves    *)
(* that the arrangements of Part 3 do not reach).                          *)
(*                                                                         *)
(* Parts 5 and 6 (after Part 4, whose AddSigByIndex they use) are the key   *)
(* identity table (Equals = structural identity) and assembly BY KEY        *)
(* (AddSignature / getIndex) for keys whose members are sibling             *)
(* multisignature keys sharing their first, last or no member.              *)
(*                                                                         *)
(* Part 4 transcribes MultiSignature.AddSignatureByIndex (the code pads    *)
(* up to index-1, so a signature added beyond the end lands one position   *)
(* early): not part of the property ("verifies only when ..."), compared   *)
(* with the real code as a conformance note only.                          *)
(***************************************************************************)
EXTENDS Integers, Sequences, FiniteSets, TLC, Json

CONSTANTS
    NK,          \* simple keys are 1..NK
    MaxLeaves,   \* arrangements have at most this many atoms
    Msg,         \* the message under verification
    OtherMsg,    \* another message
    Damaged,     \* which damaged atoms take part: subset of {"mut", "trunc", "empty"}
    SingleInner  \* TRUE: one-atom inner multisignatures take part as well

VARIABLES key, sig

-----------------------------------------------------------------------------
(* values: uniform records so that TLC can compare them                    *)

\* key trees
SKey(i)  == [t |-> "k", k |-> i, c |-> <<>>]
MKey(cs) == [t |-> "mk", k |-> 0, c |-> cs]
\* signatures: "s" good simple signature by k over m; "mut"/"trunc" damaged copies of it;
\* "empty" no bytes at all; "ms" an encoded multisignature with components c
Atom(t, k, m) == [t |-> t, k |-> k, m |-> m, c |-> <<>>]
MSig(cs)      == [t |-> "ms", k |-> 0, m |-> 0, c |-> cs]

-----------------------------------------------------------------------------
(* Part 1: the code                                                        *)

\* ed25519 / secp256k1 VerifyBytes (trusted primitive): only the undamaged signature made
\* with this key over this message
VerifySimple(i, m, s) == s.t = "s" /\ s.k = i /\ s.m = m

RECURSIVE Verify(_, _, _)
Verify(K, m, s) ==
    IF K.t = "k" THEN VerifySimple(K.k, m, s)
    ELSE \* PublicKeyMultiSignature.VerifyBytes
         IF s.t # "ms" THEN FALSE                        \* cdc.UnmarshalBinaryBare fails
         ELSE IF Len(s.c) # Len(K.c) THEN FALSE          \* numOfSigs != len(pms.PublicKeys)
         ELSE \A i \in 1..Len(s.c) :
                  /\ s.c[i].t # "empty"                  \* GetSignatureByIndex: sig == nil => !found
                  /\ Verify(K.c[i], m, s.c[i])           \* pms.PublicKeys[i].VerifyBytes(msg, signature)

-----------------------------------------------------------------------------
(* Part 2: the property: every listed key has signed the message in its    *)
(* own position, nested keys too.  Positions are paths of child indices.   *)

RECURSIVE KeyLeaves(_, _)
\* {<<path, key id>>} of the leaves of a key tree
KeyLeaves(K, path) ==
    IF K.t = "k" THEN { <<path, K.k>> }
    ELSE UNION { KeyLeaves(K.c[i], Append(path, i)) : i \in 1..Len(K.c) }

RECURSIVE SigLeaves(_, _)
\* {<<path, atom>>} of the atoms of a signature
SigLeaves(s, path) ==
    IF s.t # "ms" THEN { <<path, s>> }
    ELSE UNION { SigLeaves(s.c[i], Append(path, i)) : i \in 1..Len(s.c) }

RECURSIVE KeyNodes(_, _)
\* {<<path, number of children>>} of the inner nodes (shape)
KeyNodes(K, path) ==
    IF K.t = "k" THEN {}
    ELSE { <<path, Len(K.c)>> } \cup UNION { KeyNodes(K.c[i], Append(path, i)) : i \in 1..Len(K.c) }
RECURSIVE SigNodes(_, _)
SigNodes(s, path) ==
    IF s.t # "ms" THEN {}
    ELSE { <<path, Len(s.c)>> } \cup UNION { SigNodes(s.c[i], Append(path, i)) : i \in 1..Len(s.c) }

\* same shape, and at every leaf position of the key the good signature of that key over m
SignedInPosition(K, m, s) ==
    /\ KeyNodes(K, <<>>) = SigNodes(s, <<>>)
    /\ { l[1] : l \in KeyLeaves(K, <<>>) } = { l[1] : l \in SigLeaves(s, <<>>) }
    /\ \A l \in KeyLeaves(K, <<>>) : <<l[1], Atom("s", l[2], m)>> \in SigLeaves(s, <<>>)

-----------------------------------------------------------------------------
(* Part 3: all arrangements                                                *)

\* the key trees (canonical labellings; the signatures range over ALL keys, so renamings of
\* these trees are covered from the signature side)
KeyTrees ==
    { SKey(1),
      MKey(<<SKey(1), SKey(2)>>), MKey(<<SKey(1), SKey(1)>>),
      MKey(<<SKey(1), SKey(2), SKey(3)>>), MKey(<<SKey(1), SKey(2), SKey(1)>>),
      MKey(<<SKey(1), MKey(<<SKey(2), SKey(3)>>)>>),
      MKey(<<MKey(<<SKey(1), SKey(2)>>), SKey(3)>>),
      MKey(<<SKey(1), MKey(<<SKey(1), SKey(2)>>)>>) }

Atoms ==
    { Atom("s", i, m) : i \in 1..NK, m \in {Msg, OtherMsg} }
    \cup (IF "mut" \in Damaged THEN { Atom("mut", i, Msg) : i \in 1..NK } ELSE {})
    \cup (IF "trunc" \in Damaged THEN { Atom("trunc", 1, Msg) } ELSE {})
    \cup (IF "empty" \in Damaged THEN { Atom("empty", 0, 0) } ELSE {})

RECURSIVE SeqsOf(_, _)
\* sequences of exactly n elements of S
SeqsOf(S, n) == IF n = 0 THEN { <<>> } ELSE { Append(q, e) : q \in SeqsOf(S, n - 1), e \in S }

\* inner multisignatures: 1..MaxLeaves atoms (depth 2 of the signature)
Inner(n) == { MSig(q) : q \in SeqsOf(Atoms, n) }

RECURSIVE Comps(_)
\* sequences of components (atoms or inner multisignatures) with exactly n atoms in total
Comps(n) ==
    IF n = 0 THEN { <<>> }
    ELSE UNION { { <<h>> \o tl : h \in (IF j = 1 THEN Atoms \cup (IF SingleInner THEN Inner(1) ELSE {}) ELSE Inner(j)),
                                  tl \in Comps(n - j) }
                 : j \in 1..n }

Sigs == Atoms \cup { MSig(q) : q \in UNION { Comps(n) : n \in 0..MaxLeaves } }

-----------------------------------------------------------------------------
(* Part 3b: slot shapes                                                    *)

\* further multisignature keys for the slot-shape table only (4 leaves; both slots nested)
SlotKeyTrees ==
    { MKey(<<MKey(<<SKey(1), SKey(2)>>), MKey(<<SKey(3), SKey(1)>>)>>),
      MKey(<<SKey(1), SKey(2), SKey(3), SKey(1)>>),
      MKey(<<SKey(2), MKey(<<SKey(1), SKey(3), SKey(2)>>)>>) }

OtherKey(i) == (i % NK) + 1
\* what a leaf slot of key i can hold: G the signature that belongs there; W one that does not; E nothing
LeafFills(i) ==
    { Atom("s", i, Msg),                                                   \* G
      Atom("s", OtherKey(i), Msg), Atom("s", i, OtherMsg), Atom("mut", i, Msg),   \* W
      Atom("empty", 0, 0) }                                                \* E

RECURSIVE ProdSeq(_, _)
\* all sequences q of length n with q[i] \in F[i]
ProdSeq(F, n) == IF n = 0 THEN { <<>> } ELSE { Append(q, e) : q \in ProdSeq(F, n - 1), e \in F[n] }

RECURSIVE SlotSigs(_)
\* every filling of the slots of K: a multisignature of K's own shape, or - for a nested slot - nothing at all
SlotSigs(K) ==
    IF K.t = "k" THEN LeafFills(K.k)
    ELSE { Atom("empty", 0, 0) } \cup
         { MSig(q) : q \in ProdSeq([i \in 1..Len(K.c) |-> SlotSigs(K.c[i])], Len(K.c)) }

RECURSIVE Flatten(_)
Flatten(qq) == IF qq = <<>> THEN <<>> ELSE Head(qq) \o Flatten(Tail(qq))
RECURSIVE SlotShape(_, _)
\* the slot-shape vector of s relative to K, slot by slot from left to right: "G" / "W" / "E" as above, "X" where s
\* does not have K's shape (an atom where a multisignature is expected or the reverse, another number of components)
SlotShape(K, s) ==
    IF s.t = "empty" THEN <<"E">>
    ELSE IF K.t = "k" THEN << IF s = Atom("s", K.k, Msg) THEN "G" ELSE IF s.t = "ms" THEN "X" ELSE "W" >>
    ELSE IF s.t # "ms" \/ Len(s.c) # Len(K.c) THEN <<"X">>
    ELSE Flatten([i \in 1..Len(K.c) |-> SlotShape(K.c[i], s.c[i])])
HasSlot(v, x) == \E i \in 1..Len(v) : v[i] = x

\* the key tree is chosen initially, the arrangement by the only step (TLC's workers share them)
NoSig == Atom("none", 0, 0)
Init == key \in KeyTrees \cup SlotKeyTrees /\ sig = NoSig
Next == /\ sig = NoSig
        /\ sig' \in (IF key \in KeyTrees THEN Sigs ELSE {}) \cup (IF key.t = "mk" THEN SlotSigs(key) ELSE {})
        /\ key' = key
Chosen == sig # NoSig

\* the transcribed verification accepts exactly the arrangements the property describes
Inv_VerifyIffSignedInPosition == Chosen => (Verify(key, Msg, sig) <=> SignedInPosition(key, Msg, sig))
\* a signature over another message, or with any damaged atom, is never accepted
Inv_BindsMessage ==
    (Chosen /\ Verify(key, Msg, sig)) => \A l \in SigLeaves(sig, <<>>) : l[2].t = "s" /\ l[2].m = Msg

\* a multisignature with the key's slot count in which some slot is empty never verifies, whatever the other
\* slots hold - at the top level and inside nested multisignatures
Inv_EmptySlotNeverVerifies ==
    (Chosen /\ key.t = "mk" /\ HasSlot(SlotShape(key, sig), "E")) => ~Verify(key, Msg, sig)
\* and one whose slots all hold the signature that belongs there does
Inv_AllGoodSlotsVerify ==
    (Chosen /\ key.t = "mk" /\ \A i \in 1..Len(SlotShape(key, sig)) : SlotShape(key, sig)[i] = "G") => Verify(key, Msg, sig)

\* ---- case table -----------------------------------------------------------
RECURSIVE EncKey(_)
EncKey(K) == IF K.t = "k" THEN <<"k", K.k>> ELSE <<"mk", [i \in 1..Len(K.c) |-> EncKey(K.c[i])]>>
RECURSIVE EncSig(_)
EncSig(s) == IF s.t = "ms" THEN <<"ms", [i \in 1..Len(s.c) |-> EncSig(s.c[i])]>>
             ELSE <<s.t, s.k, s.m>>

\* slots: the slot-shape vector (multisignature keys; <<>> for a simple key)
PrintCase == Chosen => PrintT(ToJson([key |-> EncKey(key), sig |-> EncSig(sig), ok |-> Verify(key, Msg, sig),
                                      slots |-> IF key.t = "mk" THEN SlotShape(key, sig) ELSE <<>>]))

-----------------------------------------------------------------------------
(* Part 4: MultiSignature.AddSignatureByIndex (0-based index), conformance  *)
(* note only.  Pad is the placeholder []byte{0}.                           *)

Pad == Atom("pad", 0, 0)
RECURSIVE PadTo(_, _)
PadTo(q, n) == IF Len(q) >= n THEN q ELSE PadTo(Append(q, Pad), n)
AddSigByIndex(q, s, index) ==
    IF Len(q) - 1 >= index THEN [q EXCEPT ![index + 1] = s]       \* replace
    ELSE Append(PadTo(q, index - 1), s)                           \* for i := sigsLen; i < index-1; i++
\* what a caller expects: the signature ends up at position index
AddSigIntended(q, s, index) ==
    IF Len(q) - 1 >= index THEN [q EXCEPT ![index + 1] = s]
    ELSE Append(PadTo(q, index), s)

RECURSIVE Build(_, _)
\* add the signatures s_i (i = order[1], order[2], ...) by their own index
Build(order, q) ==
    IF order = <<>> THEN q
    ELSE Build(Tail(order), AddSigByIndex(q, Atom("s", Head(order) + 1, Msg), Head(order)))
Perms3 == { <<0, 1, 2>>, <<0, 2, 1>>, <<1, 0, 2>>, <<1, 2, 0>>, <<2, 0, 1>>, <<2, 1, 0>> }
BuildTable == [o \in Perms3 |-> [order |-> o,
                                 sigs |-> [i \in 1..Len(Build(o, <<>>)) |-> EncSig(Build(o, <<>>)[i])],
                                 verifies |-> Verify(MKey(<<SKey(1), SKey(2), SKey(3)>>), Msg, MSig(Build(o, <<>>)))]]
ASSUME PrintT(ToJson([build |-> { BuildTable[o] : o \in Perms3 }]))

-----------------------------------------------------------------------------
(* Part 5: key identity.  PublicKey.Equals transcribed (same kind, same      *)
(* number of members, EVERY member pair equal, recursively) must be          *)
(* structural identity: a different key list is a different key.  The table  *)
(* pairs single keys, flat multisignature keys of 2 and 3 members (all of    *)
(* them over 3 key ids: same, other length, differing in the first / a       *)
(* middle / the last member only, same members in another order) and nested  *)
(* keys whose members are such keys.                                         *)

RECURSIVE KeyEquals(_, _)
KeyEquals(A, B) ==
    IF A.t = "k" THEN B.t = "k" /\ A.k = B.k
    ELSE IF B.t # "mk" THEN FALSE                                   \* otherKey, sameType := other.(PublicKeyMultiSignature)
    ELSE IF Len(A.c) # Len(B.c) THEN FALSE
    ELSE \A i \in 1..Len(A.c) : KeyEquals(A.c[i], B.c[i])           \* return false at the first differing member

RECURSIVE AsksAcrossTypes(_, _)
\* while it runs, Equals(A, B) asks a SINGLE key whether it equals a multisignature key (members are compared from
\* the left up to the first differing pair); the single keys' Equals assert the other key's type without checking it
AsksAcrossTypes(A, B) ==
    IF A.t = "k" THEN B.t = "mk"
    ELSE IF B.t # "mk" \/ Len(A.c) # Len(B.c) THEN FALSE
    ELSE \E i \in 1..Len(A.c) : AsksAcrossTypes(A.c[i], B.c[i]) /\ \A j \in 1..(i - 1) : KeyEquals(A.c[j], B.c[j])

EqInner == { SKey(1), MKey(<<SKey(1), SKey(3)>>), MKey(<<SKey(2), SKey(3)>>), MKey(<<SKey(1), SKey(2)>>) }
EqKeys ==
    { SKey(1), SKey(2) }
    \cup { MKey(<<SKey(a), SKey(b)>>) : a \in 1..3, b \in 1..3 }
    \cup { MKey(<<SKey(a), SKey(b), SKey(c)>>) : a \in 1..3, b \in 1..3, c \in 1..3 }
    \cup { MKey(<<x, y>>) : x \in EqInner, y \in EqInner }
    \cup { MKey(<<MKey(<<SKey(1), SKey(2), SKey(3)>>), SKey(1), MKey(<<SKey(2), SKey(3)>>)>>),
           MKey(<<MKey(<<SKey(1), SKey(2), SKey(3)>>), SKey(2), MKey(<<SKey(2), SKey(3)>>)>>) }

\* how two keys differ (for the vacuity checks of the binding)
Members(K) == { <<i, K.c[i]>> : i \in 1..Len(K.c) }
Bag(K) == [x \in { K.c[i] : i \in 1..Len(K.c) } |-> Cardinality({ i \in 1..Len(K.c) : K.c[i] = x })]
DiffClass(A, B) ==
    IF A = B THEN "same"
    ELSE IF A.t # B.t THEN "kind"
    ELSE IF A.t = "k" THEN "simple"
    ELSE IF Len(A.c) # Len(B.c) THEN "length"
    ELSE LET D == { i \in 1..Len(A.c) : A.c[i] # B.c[i] } IN
         IF Bag(A) = Bag(B) THEN "permuted"
         ELSE IF D = {1} THEN "first-only"
         ELSE IF D = {Len(A.c)} THEN "last-only"
         ELSE IF Cardinality(D) = 1 THEN "middle-only"
         ELSE IF Len(A.c) \notin D THEN "several-not-last"
         ELSE "several"
HasNested(K) == K.t = "mk" /\ \E i \in 1..Len(K.c) : K.c[i].t = "mk"

ASSUME \A A \in EqKeys, B \in EqKeys : KeyEquals(A, B) <=> A = B
ASSUME PrintT(ToJson([eqtable |-> { [a |-> EncKey(A), b |-> EncKey(B), equal |-> KeyEquals(A, B), diff |-> DiffClass(A, B),
                                     nested |-> HasNested(A) \/ HasNested(B),
                                     simple_vs_multi |-> AsksAcrossTypes(A, B)] : A \in EqKeys, B \in EqKeys }]))

-----------------------------------------------------------------------------
(* Part 6: assembly BY KEY.  MultiSignature.AddSignature(sig, key, keys)     *)
(* files a signature at getIndex(key, keys), the first position whose key    *)
(* Equals the signer's, through AddSignatureByIndex (Part 4).  For           *)
(* multisignature keys whose members include SIBLING multisignature keys     *)
(* that share their first, their last or no member, every member's good      *)
(* signature (a nested member's is itself assembled by key, in index order)  *)
(* is added in every order.  The property: added in index order - the one    *)
(* order in which AddSignatureByIndex keeps positions, see Part 4 - the      *)
(* result has every listed key's signature in its own position and           *)
(* verifies.  The other orders follow the transcription (conformance note).  *)

GetIndex(pk, keys) ==      \* 0-based; -1: not listed
    IF \E i \in 1..Len(keys) : KeyEquals(pk, keys[i])
    THEN (CHOOSE i \in 1..Len(keys) : KeyEquals(pk, keys[i]) /\ \A j \in 1..(i - 1) : ~KeyEquals(pk, keys[j])) - 1
    ELSE -1

RECURSIVE GoodSig(_)
RECURSIVE AssembleByKey(_, _, _)
\* add the members' signatures in the given order of (0-based) member numbers
AssembleByKey(K, order, q) ==
    IF order = <<>> THEN q
    ELSE AssembleByKey(K, Tail(order), AddSigByIndex(q, GoodSig(K.c[Head(order) + 1]), GetIndex(K.c[Head(order) + 1], K.c)))
IndexOrder(K) == [i \in 1..Len(K.c) |-> i - 1]
GoodSig(K) == IF K.t = "k" THEN Atom("s", K.k, Msg) ELSE MSig(AssembleByKey(K, IndexOrder(K), <<>>))

M2(a, b) == MKey(<<SKey(a), SKey(b)>>)
ByKeyTrees ==
    { MKey(<<SKey(1), SKey(2), SKey(3)>>),                           \* flat (control)
      MKey(<<M2(1, 2), M2(1, 3)>>),                                   \* siblings sharing their first member
      MKey(<<M2(1, 3), M2(2, 3)>>),                                   \* siblings sharing their last member
      MKey(<<M2(1, 2), M2(3, 4)>>),                                   \* siblings sharing no member
      MKey(<<SKey(1), M2(1, 3), M2(2, 3)>>),                          \* a single key, then siblings sharing their last member
      MKey(<<MKey(<<SKey(1), SKey(2), SKey(3)>>), MKey(<<SKey(2), SKey(1), SKey(3)>>)>>),   \* same members, last one in place
      MKey(<<MKey(<<SKey(1), SKey(2), SKey(3)>>), MKey(<<SKey(1), SKey(4), SKey(3)>>)>>),   \* differing in the middle member only
      MKey(<<M2(1, 3), M2(2, 3), SKey(2)>>) }                         \* a single key listed after multisignature keys
Orders(n) == IF n = 2 THEN { <<0, 1>>, <<1, 0>> } ELSE Perms3
\* getIndex asks the signer's key whether it Equals each listed key in turn: a single key is asked about a multisignature key
RECURSIVE SimpleAfterMulti(_)
SimpleAfterMulti(K) ==
    K.t = "mk" /\ ( \/ \E i \in 1..Len(K.c), j \in 1..Len(K.c) : j < i /\ AsksAcrossTypes(K.c[i], K.c[j])
                    \/ \E i \in 1..Len(K.c) : SimpleAfterMulti(K.c[i]) )
ShareClass(K) ==
    LET ms == { i \in 1..Len(K.c) : K.c[i].t = "mk" } IN
    IF Cardinality(ms) < 2 THEN "flat"
    ELSE LET i == CHOOSE x \in ms : \A y \in ms : x <= y
             j == CHOOSE x \in ms \ {i} : \A y \in ms \ {i} : x <= y
         IN DiffClass(K.c[i], K.c[j])

\* no member is listed twice (getIndex finds the first position), and in index order every key's signature is in its position
ASSUME \A K \in ByKeyTrees : \A i \in 1..Len(K.c) : GetIndex(K.c[i], K.c) = i - 1
ASSUME \A K \in ByKeyTrees : Verify(K, Msg, GoodSig(K)) /\ SignedInPosition(K, Msg, GoodSig(K))
ASSUME PrintT(ToJson([bykey |-> UNION { { [key |-> EncKey(K), order |-> o, index_order |-> (o = IndexOrder(K)),
                                   siblings |-> ShareClass(K), simple_after_multi |-> SimpleAfterMulti(K),
                                   nsigs |-> Len(AssembleByKey(K, o, <<>>)),
                                   verifies |-> Verify(K, Msg, MSig(AssembleByKey(K, o, <<>>)))] : o \in Orders(Len(K.c)) }
                                : K \in ByKeyTrees }]))
\* adding in index order puts every signature in its own position
ASSUME Build(<<0, 1, 2>>, <<>>) = <<Atom("s", 1, Msg), Atom("s", 2, Msg), Atom("s", 3, Msg)>>
=============================================================================
