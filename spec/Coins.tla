-------------------------------- MODULE Coins --------------------------------
(***************************************************************************)
(* C18, coin sets: sdk.Coins of posmint (types/coin.go).                   *)
(*                                                                         *)
(* A coin set is what the Go code has: a SEQUENCE of coins [d, a] (denom,  *)
(* amount).  Denominations are the integers 0..ND ordered like the strings *)
(* the driver substitutes for them (byte order); denomination 0 is one     *)
(* that fails the denomination regex and contains an upper-case letter.    *)
(* Part 1 transcribes coin.go (merge addition, subtraction as addition of  *)
(* the negated set, binary-search AmountOf, the comparisons with their     *)
(* length shortcuts, IsValid, NewCoins).  Part 2 is the meaning the        *)
(* property gives them: per-denomination arithmetic and comparison on the  *)
(* function denom -> amount, and the canonical form (sorted by denom, no   *)
(* duplicates, no zero amounts).  Part 3 lets TLC enumerate every pair of  *)
(* canonical sets (and every short sequence for the unary operations),     *)
(* check transcription = meaning, and print the case table for arithdrv.   *)
(*                                                                         *)
(* Named deviations of the code from the documented meaning:               *)
(*   "IsEqualPanics"    Coins.IsEqual compares position-wise with          *)
(*                      Coin.IsEqual, which panics when the denominations  *)
(*                      differ (same length, different denoms => panic);   *)
(*                      pinned by the repository's TestEqualCoins: ruled   *)
(*                      intended, the requirement there is "false or       *)
(*                      panic" (ReqIsEqual)                                *)
(*   "AllGTEmptyFalse"  IsAllGT returns false for an empty receiver even   *)
(*                      when the argument is empty too (its doc comment is *)
(*                      vacuously true there); pinned by the repository's  *)
(*                      tests, a strict order is irreflexive: NOT treated  *)
(*                      as normative, only recorded                        *)
(***************************************************************************)
EXTENDS Integers, Sequences, FiniteSets, FiniteSetsExt, TLC, Json

CONSTANTS
    ND,        \* good denominations are 1..ND
    MaxAmt,    \* amounts of canonical operands are 1..MaxAmt
    MaxLen,    \* unary space: sequences up to this length
    Dev        \* active deviations

VARIABLES kind, A, B

Denoms    == 1..ND
BadDenom  == 0
AllDenoms == 0..ND

Coin(d, a) == [d |-> d, a |-> a]
\* outcome of an operation that may panic: [ok, v]; the value of a panic is never looked at
Ok(val) == [ok |-> TRUE, v |-> val]
Panic   == [ok |-> FALSE, v |-> <<>>]

-----------------------------------------------------------------------------
(* Part 1: coin.go                                                         *)

\* validateDenom: the regex `^[a-z][a-z0-9]{2,15}$`
DenomOK(d) == d # BadDenom
\* strings.ToLower(denom) == denom
IsLower(d) == d # BadDenom

RECURSIVE RemoveZero(_)
\* removeZeroCoins
RemoveZero(s) ==
    IF s = <<>> THEN <<>>
    ELSE IF Head(s).a = 0 THEN RemoveZero(Tail(s)) ELSE <<Head(s)>> \o RemoveZero(Tail(s))

Suffix(s, i) == IF i > Len(s) THEN <<>> ELSE SubSeq(s, i, Len(s))

RECURSIVE Merge(_, _, _, _, _)
\* the loop of safeAdd; i, j are indexA+1, indexB+1
Merge(a, b, i, j, sum) ==
    IF i = Len(a) + 1 THEN
        IF j = Len(b) + 1 THEN sum                               \* both exhausted
        ELSE sum \o RemoveZero(Suffix(b, j))                     \* rest of B without zero coins
    ELSE IF j = Len(b) + 1 THEN sum \o RemoveZero(Suffix(a, i))  \* rest of A without zero coins
    ELSE LET ca == a[i]
             cb == b[j]
         IN  IF ca.d < cb.d THEN                                 \* case -1
                 Merge(a, b, i + 1, j, IF ca.a # 0 THEN Append(sum, ca) ELSE sum)
             ELSE IF ca.d = cb.d THEN                            \* case 0: coinA.Add(coinB)
                 LET r == Coin(ca.d, ca.a + cb.a)
                 IN  Merge(a, b, i + 1, j + 1, IF r.a # 0 THEN Append(sum, r) ELSE sum)
             ELSE                                                \* case 1
                 Merge(a, b, i, j + 1, IF cb.a # 0 THEN Append(sum, cb) ELSE sum)

SafeAdd(a, b) == Merge(a, b, 1, 1, <<>>)
Add(a, b) == SafeAdd(a, b)
Negative(b) == [k \in 1..Len(b) |-> Coin(b[k].d, -b[k].a)]
IsAnyNegative(s) == \E k \in 1..Len(s) : s[k].a < 0
\* SafeSub: <<diff, hasNeg>>
SafeSub(a, b) == LET diff == SafeAdd(a, Negative(b)) IN <<diff, IsAnyNegative(diff)>>
Sub(a, b) == LET r == SafeSub(a, b) IN IF r[2] THEN Panic ELSE Ok(r[1])      \* panic("negative coin amount")

RECURSIVE AmountOfRec(_, _)
\* AmountOf: binary search on the sorted slice (denom already validated)
AmountOfRec(s, d) ==
    IF Len(s) = 0 THEN 0
    ELSE IF Len(s) = 1 THEN (IF s[1].d = d THEN s[1].a ELSE 0)
    ELSE LET mid == (Len(s) \div 2) + 1          \* coins[len/2], 1-based
         IN  IF d < s[mid].d THEN AmountOfRec(SubSeq(s, 1, mid - 1), d)
             ELSE IF d = s[mid].d THEN s[mid].a
             ELSE AmountOfRec(Suffix(s, mid + 1), d)
AmountOf(s, d) == IF ~DenomOK(d) THEN Panic ELSE Ok(AmountOfRec(s, d))     \* mustValidateDenom

\* receiver's denoms are a subset of b's
DenomsSubsetOf(a, b) ==
    IF Len(a) > Len(b) THEN FALSE
    ELSE \A k \in 1..Len(a) : AmountOfRec(b, a[k].d) # 0

IsAllGT(a, b) ==
    IF Len(a) = 0 THEN (IF "AllGTEmptyFalse" \in Dev THEN FALSE ELSE Len(b) = 0)   \* code: return false
    ELSE IF Len(b) = 0 THEN TRUE
    ELSE IF ~DenomsSubsetOf(b, a) THEN FALSE
    ELSE \A k \in 1..Len(b) : AmountOfRec(a, b[k].d) > b[k].a
IsAllGTE(a, b) ==
    IF Len(b) = 0 THEN TRUE
    ELSE IF Len(a) = 0 THEN FALSE
    ELSE \A k \in 1..Len(b) : ~(b[k].a > AmountOfRec(a, b[k].d))
IsAllLT(a, b)  == IsAllGT(b, a)
IsAllLTE(a, b) == IsAllGTE(b, a)
IsAnyGT(a, b) ==
    IF Len(b) = 0 THEN FALSE
    ELSE \E k \in 1..Len(a) : LET amt == AmountOfRec(b, a[k].d) IN a[k].a > amt /\ amt # 0
IsAnyGTE(a, b) ==
    IF Len(b) = 0 THEN FALSE
    ELSE \E k \in 1..Len(a) : LET amt == AmountOfRec(b, a[k].d) IN a[k].a >= amt /\ amt # 0

\* sort.Sort by denom (insertion of the head into the sorted tail; stable enough: the code
\* only sorts sequences whose order among equal denoms does not matter for the result)
RECURSIVE SortCoins(_)
Insert(c, s) ==
    LET k == CHOOSE n \in 0..Len(s) : (\A m \in 1..n : s[m].d <= c.d) /\ (n < Len(s) => s[n + 1].d > c.d)
    IN  SubSeq(s, 1, k) \o <<c>> \o Suffix(s, k + 1)
SortCoins(s) == IF s = <<>> THEN <<>> ELSE Insert(Head(s), SortCoins(Tail(s)))

\* Coins.IsEqual: length, sort both, position-wise Coin.IsEqual (panics on different denoms)
\* result "T", "F" or "panic"
IsEqual(a, b) ==
    IF Len(a) # Len(b) THEN "F"
    ELSE LET sa == SortCoins(a)
             sb == SortCoins(b)
         IN  IF "IsEqualPanics" \in Dev THEN
                 \* the loop returns false at the first unequal amount, panics at the first
                 \* position whose denominations differ, whichever comes first
                 LET bad == { k \in 1..Len(sa) : sa[k].d # sb[k].d \/ sa[k].a # sb[k].a }
                 IN  IF bad = {} THEN "T"
                     ELSE LET k == CHOOSE m \in bad : \A n \in bad : m <= n
                          IN  IF sa[k].d # sb[k].d THEN "panic" ELSE "F"
             ELSE IF sa = sb THEN "T" ELSE "F"

\* Coins.IsValid
IsValid(s) ==
    IF Len(s) = 0 THEN TRUE
    ELSE IF Len(s) = 1 THEN DenomOK(s[1].d) /\ s[1].a > 0
    ELSE /\ DenomOK(s[1].d) /\ s[1].a > 0                      \* the single coin case on coins[0]
         /\ \A k \in 2..Len(s) :
               /\ IsLower(s[k].d)
               /\ s[k].d > s[k - 1].d                          \* coin.Denom <= lowDenom => false
               /\ s[k].a > 0

\* NewCoins
NewCoins(s) ==
    LET nz == RemoveZero(s)
    IN  IF Len(nz) = 0 THEN Ok(<<>>)
        ELSE LET so == SortCoins(nz)
             IN  IF \E k \in 2..Len(so) : so[k].d = so[k - 1].d THEN Panic     \* findDup
                 ELSE IF ~IsValid(so) THEN Panic
                 ELSE Ok(so)

IsZero(s)        == \A k \in 1..Len(s) : s[k].a = 0
Empty(s)         == Len(s) = 0
IsAllPositive(s) == Len(s) # 0 /\ \A k \in 1..Len(s) : s[k].a > 0

-----------------------------------------------------------------------------
(* Part 2: the meaning: functions denom -> amount, canonical form          *)

\* amount of denom d in s (adds up duplicates; canonical sets have none)
Amt(s, d) ==
    LET idx == { k \in 1..Len(s) : s[k].d = d }
    IN  FoldSet(LAMBDA k, acc : acc + s[k].a, 0, idx)
DenomsOf(s) == { s[k].d : k \in 1..Len(s) }

\* sorted by denomination, no duplicates, no zero amounts (amounts may be negative: SafeSub)
SortedNoZero(s) ==
    /\ \A k \in 1..Len(s) : s[k].a # 0
    /\ \A k \in 2..Len(s) : s[k - 1].d < s[k].d
Canonical(s) == SortedNoZero(s) /\ \A k \in 1..Len(s) : s[k].a > 0 /\ DenomOK(s[k].d)

Def_Add(a, b, r)    == Canonical(r) /\ \A d \in AllDenoms : Amt(r, d) = Amt(a, d) + Amt(b, d)
Def_Diff(a, b, r)   == SortedNoZero(r) /\ \A d \in AllDenoms : Amt(r, d) = Amt(a, d) - Amt(b, d)
Def_GoesNeg(a, b)   == \E d \in AllDenoms : Amt(a, d) < Amt(b, d)
Def_AllGT(a, b)     == \A d \in DenomsOf(b) : Amt(a, d) > Amt(b, d)
Def_AllGTE(a, b)    == \A d \in DenomsOf(b) : Amt(a, d) >= Amt(b, d)
Def_AllLT(a, b)     == \A d \in DenomsOf(a) : Amt(a, d) < Amt(b, d)
Def_AllLTE(a, b)    == \A d \in DenomsOf(a) : Amt(a, d) <= Amt(b, d)
\* "any": a denomination present in both sets
Def_AnyGT(a, b)     == \E d \in DenomsOf(a) \cap DenomsOf(b) : Amt(a, d) > Amt(b, d)
Def_AnyGTE(a, b)    == \E d \in DenomsOf(a) \cap DenomsOf(b) : Amt(a, d) >= Amt(b, d)
Def_Equal(a, b)     == \A d \in AllDenoms : Amt(a, d) = Amt(b, d)
Def_Subset(a, b)    == DenomsOf(a) \subseteq DenomsOf(b)
Def_Valid(s)        == Canonical(s)
\* NewCoins: zero coins are dropped; what is left must be a set of positive coins of good
\* denominations without duplicates, returned in canonical order
Def_NewCoinsPanics(s) ==
    LET nz == { k \in 1..Len(s) : s[k].a # 0 }
    IN  \/ \E k \in nz : s[k].a < 0 \/ ~DenomOK(s[k].d)
        \/ \E k, m \in nz : k # m /\ s[k].d = s[m].d
Def_NewCoins(s, r) ==
    /\ Canonical(r)
    /\ \A d \in AllDenoms : Amt(r, d) = Amt(s, d)

-----------------------------------------------------------------------------
(* Part 3: TLC harness: one state per case                                 *)

RECURSIVE CanonFrom(_)
\* all canonical sets over the good denominations >= d, as sequences
CanonFrom(d) ==
    IF d > ND THEN { <<>> }
    ELSE LET rest == CanonFrom(d + 1)
         IN  rest \cup { <<Coin(d, a)>> \o r : a \in 1..MaxAmt, r \in rest }
CanonSets == CanonFrom(1)

RECURSIVE SeqsUpTo(_)
\* all sequences of coins up to length n over all denominations and amounts -1..2
AnyCoin == { Coin(d, a) : d \in AllDenoms, a \in -1..2 }
SeqsUpTo(n) == IF n = 0 THEN { <<>> } ELSE LET s == SeqsUpTo(n - 1) IN s \cup { <<c>> \o t : c \in AnyCoin, t \in { u \in s : Len(u) = n - 1 } }

Init ==
    \/ kind = "pair" /\ A \in CanonSets /\ B \in CanonSets
    \/ kind = "one" /\ A \in SeqsUpTo(MaxLen) /\ B = <<>>
Next == UNCHANGED <<kind, A, B>>

IsPair == kind = "pair"

Inv_Add ==
    IsPair => Def_Add(A, B, Add(A, B))
Inv_SafeSub ==
    IsPair => LET r == SafeSub(A, B) IN Def_Diff(A, B, r[1]) /\ (r[2] <=> Def_GoesNeg(A, B))
Inv_Sub ==
    IsPair => IF Def_GoesNeg(A, B) THEN ~Sub(A, B).ok
              ELSE Sub(A, B).ok /\ Canonical(Sub(A, B).v) /\ Def_Diff(A, B, Sub(A, B).v)
\* Add and Sub are inverse
Inv_Inverse ==
    IsPair => /\ Sub(Add(A, B), B) = Ok(A)
              /\ (~Def_GoesNeg(A, B) => Add(Sub(A, B).v, B) = A)
Inv_AllGT ==
    IsPair => (IsAllGT(A, B) <=> (Def_AllGT(A, B) /\ ~(A = <<>> /\ "AllGTEmptyFalse" \in Dev)))
Inv_AllGTE == IsPair => (IsAllGTE(A, B) <=> Def_AllGTE(A, B))
Inv_AllLT ==
    IsPair => (IsAllLT(A, B) <=> (Def_AllLT(A, B) /\ ~(B = <<>> /\ "AllGTEmptyFalse" \in Dev)))
Inv_AllLTE == IsPair => (IsAllLTE(A, B) <=> Def_AllLTE(A, B))
Inv_AnyGT  == IsPair => (IsAnyGT(A, B) <=> Def_AnyGT(A, B))
Inv_AnyGTE == IsPair => (IsAnyGTE(A, B) <=> Def_AnyGTE(A, B))
\* holds for the intended design only (Dev without "IsEqualPanics")
Inv_Equal  == IsPair => (IsEqual(A, B) = (IF Def_Equal(A, B) THEN "T" ELSE "F"))
Inv_Subset == IsPair => (DenomsSubsetOf(A, B) <=> Def_Subset(A, B))
Inv_AmountOf ==
    IsPair => /\ \A d \in Denoms : AmountOf(A, d) = Ok(Amt(A, d))
              /\ ~AmountOf(A, BadDenom).ok
Inv_Valid == IsValid(A) <=> Def_Valid(A)
Inv_NewCoins ==
    (kind = "one") => IF Def_NewCoinsPanics(A) THEN ~NewCoins(A).ok
                      ELSE NewCoins(A).ok /\ Def_NewCoins(A, NewCoins(A).v)
\* comparisons are consistent with each other on canonical sets
Inv_Order ==
    IsPair => /\ (Def_AllGT(A, B) => Def_AllGTE(A, B))
              /\ (Def_Equal(A, B) => Def_AllGTE(A, B) /\ Def_AllLTE(A, B))
              /\ (Def_AnyGT(A, B) => Def_AnyGTE(A, B))

\* ---- case table -----------------------------------------------------------
EncS(s) == [k \in 1..Len(s) |-> <<s[k].d, s[k].a>>]
\* an outcome [ok, v] whose value is a coin sequence
EncO(o) == IF o.ok THEN [p |-> FALSE, c |-> EncS(o.v)] ELSE [p |-> TRUE, c |-> <<>>]
EncB(b) == IF b THEN "T" ELSE "F"

\* what the property requires of the real code: the documented meaning.  "any" marks the one
\* point where the doc comment and the (test-pinned) code differ and nothing is required.
ReqAllGT(a, b) == IF a = <<>> /\ b = <<>> THEN "any" ELSE EncB(Def_AllGT(a, b))
ReqAllLT(a, b) == IF a = <<>> /\ b = <<>> THEN "any" ELSE EncB(Def_AllLT(a, b))
\* INTERPRETATION (project lead): for two sets of equal length over different denominations the
\* code base's stated contract (TestEqualCoins) is a panic; "F|panic" accepts false or a panic there
ReqIsEqual(a, b) ==
    IF Def_Equal(a, b) THEN "T"
    ELSE IF Len(a) = Len(b) /\ DenomsOf(a) # DenomsOf(b) THEN "F|panic"
    ELSE "F"

PairCase ==
    [ kind |-> "pair", A |-> EncS(A), B |-> EncS(B),
      Add      |-> EncO(Ok(Add(A, B))),
      Sub      |-> EncO(Sub(A, B)),
      SafeSub  |-> EncO(Ok(SafeSub(A, B)[1])),
      SafeSubNeg |-> EncB(Def_GoesNeg(A, B)),
      AddSub   |-> EncO(Ok(A)),
      SubAdd   |-> EncO(IF Def_GoesNeg(A, B) THEN Panic ELSE Ok(A)),
      IsAllGT  |-> ReqAllGT(A, B),
      IsAllGTE |-> EncB(Def_AllGTE(A, B)),
      IsAllLT  |-> ReqAllLT(A, B),
      IsAllLTE |-> EncB(Def_AllLTE(A, B)),
      IsAnyGT  |-> EncB(Def_AnyGT(A, B)),
      IsAnyGTE |-> EncB(Def_AnyGTE(A, B)),
      IsEqual  |-> ReqIsEqual(A, B),
      IsEqualCode |-> IsEqual(A, B),
      DenomsSubsetOf |-> EncB(Def_Subset(A, B)) ]

OneCase ==
    [ kind |-> "one", A |-> EncS(A),
      IsValid  |-> EncB(Def_Valid(A)),
      NewCoins |-> EncO(NewCoins(A)),
      IsZero   |-> EncB(IsZero(A)),
      Empty    |-> EncB(Empty(A)),
      IsAllPositive |-> EncB(IsAllPositive(A)),
      IsAnyNegative |-> EncB(IsAnyNegative(A)),
      \* AmountOf is a lookup on valid sets only
      AmountOf |-> IF Def_Valid(A)
                   THEN [k \in 1..(ND + 1) |-> IF DenomOK(k - 1) THEN ToString(Amt(A, k - 1)) ELSE "panic"]
                   ELSE <<>> ]

PrintCase == PrintT(ToJson(IF IsPair THEN PairCase ELSE OneCase))
=============================================================================
