-------------------------------- MODULE Arith --------------------------------
(***************************************************************************)
(* C18: Int / Uint / Dec arithmetic of posmint (types/int.go, uint.go,     *)
(* decimal.go, staking.go).                                                *)
(*                                                                         *)
(* Part 1 transcribes the Go algorithms (one operator per Go function,     *)
(* same quotient / remainder / half comparison logic, same sign handling,  *)
(* same range checks).  Part 2 states what the property demands with       *)
(* integer inequalities only (nearest with ties to even, toward zero,      *)
(* toward +infinity on exact rationals n/d; "outside the range => panic"). *)
(* Part 3 says, per operation, which outcome the property requires         *)
(* (the Req operators), Part 4 is the model-checking harness: TLC enumerates a *)
(* complete small operand range for a small precision P and checks that    *)
(* every transcribed algorithm produces exactly the required outcome, and  *)
(* prints the case table that arithdrv replays on the real types.          *)
(*                                                                         *)
(* The module is read by TLC (32 bit integers: small P, small ranges) and  *)
(* by Apalache (unbounded integers: P = 10^18 and the real 255/256/315 bit *)
(* ranges, ConstReal), hence the @type annotations and no recursion.       *)
(*                                                                         *)
(* Dec values are their underlying integer ("units" of 1/P).               *)
(* An outcome is [ok |-> TRUE, v |-> value] or the panic outcome.          *)
(*                                                                         *)
(* Named deviations of the code (DESIGN 6.3): with Dev = {} every operator *)
(* is the intended design (single rounding); with a switch in Dev the      *)
(* operator is what decimal.go really executes.                            *)
(*   "QuoDoubleRounding"   Quo multiplies by P twice, divides with         *)
(*                         truncation and then chops half-even: two        *)
(*                         roundings (DESIGN 9 R4)                         *)
(*   "QuoRoundUpTruncFirst" QuoRoundUp does the same truncating division   *)
(*                         first; a remainder hidden below the P*P scale   *)
(*                         is never rounded up                             *)
(*   "CeilNoRangeCheck"    Ceil has no bit-length check                    *)
(***************************************************************************)
EXTENDS Integers, Sequences, FiniteSets, TLC

CONSTANTS
    \* @type: Int;
    P,          \* 10^Precision                       (real: 10^18)
    \* @type: Int;
    IntBits,    \* maxBitLen of Int                   (real: 255)
    \* @type: Int;
    IntMax,     \* 2^IntBits - 1
    \* @type: Int;
    UintMax,    \* 2^UintBits - 1                     (real: 2^256 - 1)
    \* @type: Int;
    DecMax,     \* 2^(IntBits+DecimalPrecisionBits)-1 (real: 2^315 - 1)
    \* @type: Int;
    I64Max,     \* int64 maximum                      (real: 2^63 - 1)
    \* @type: Int;
    U64Max,     \* uint64 maximum                     (real: 2^64 - 1)
    \* @type: Int;
    PR,         \* sdk.PowerReduction                 (real: 10^6)
    \* @type: Int;
    R,          \* TLC only: the dense operand range is -R..R
    \* @type: Int;
    RY,         \* TLC only: the second operand ranges over -RY..RY
    \* @type: Int;
    UPrintR,    \* TLC only: unary cases with |x| < UPrintR are printed
    \* @type: Int;
    EdgeMax,    \* TLC only: bounds (and bound-1) up to this magnitude join the operand range
    \* @type: Int;
    PrintR,     \* TLC only: cases with |x|,|y| < PrintR are printed (0: none)
    \* @type: Set(Str);
    Dev

VARIABLES
    \* @type: Int;
    x,
    \* @type: Int;
    y

\* the real constants (Apalache: --cinit=ConstReal); TLC never evaluates this
ConstReal ==
    /\ P = 10^18 /\ IntBits = 255 /\ IntMax = 2^255 - 1 /\ UintMax = 2^256 - 1
    /\ DecMax = 2^315 - 1 /\ I64Max = 2^63 - 1 /\ U64Max = 2^64 - 1 /\ PR = 10^6
    /\ R = 0 /\ RY = 0 /\ UPrintR = 0 /\ EdgeMax = 0 /\ PrintR = 0
    /\ Dev = {"QuoDoubleRounding", "QuoRoundUpTruncFirst", "CeilNoRangeCheck"}

-----------------------------------------------------------------------------
(* Part 1a: math/big primitives used by the Go code                        *)

Abs(a) == IF a < 0 THEN -a ELSE a
Sgn(a) == IF a < 0 THEN -1 ELSE IF a = 0 THEN 0 ELSE 1

\* big.Int.Quo / QuoRem: T-division (truncation toward zero); b # 0
TQuo(a, b) == IF (a < 0) = (b < 0) THEN Abs(a) \div Abs(b) ELSE -(Abs(a) \div Abs(b))
TRem(a, b) == a - b * TQuo(a, b)
\* big.Int.Mod: Euclidean modulus
EMod(a, b) == LET r == TRem(a, b) IN IF r < 0 THEN r + Abs(b) ELSE r

\* big.Int.BitLen (TLC only: Int.Mul's pre-check)
BitLen(a) == CHOOSE k \in 0..(IntBits + 2) :
                 \/ k = 0 /\ a = 0
                 \/ k > 0 /\ 2^(k - 1) <= Abs(a) /\ Abs(a) < 2^k

\* @type: Int => { ok: Bool, v: Int };
Ok(val) == [ok |-> TRUE, v |-> val]
Panic == [ok |-> FALSE, v |-> 0]
\* @type: (Int, Bool) => { ok: Bool, v: Int };
Out(val, inRange) == IF inRange THEN Ok(val) ELSE Panic

InInt(a)  == Abs(a) <= IntMax               \* BitLen() <= maxBitLen
InUint(a) == 0 <= a /\ a <= UintMax         \* UintOverflow
InDec(a)  == Abs(a) <= DecMax               \* BitLen() <= 255+DecimalPrecisionBits
InI64(a)  == -I64Max - 1 <= a /\ a <= I64Max
InU64(a)  == 0 <= a /\ a <= U64Max

-----------------------------------------------------------------------------
(* Part 1b: decimal.go                                                     *)

Five == P \div 2                             \* fivePrecision

\* chopPrecisionAndRound on a non-negative argument (the code after the sign branch)
ChopRoundNN(d) ==
    LET quo == d \div P
        rem == d % P
    IN  IF rem = 0 THEN quo                                   \* remainder is zero
        ELSE IF rem < Five THEN quo                           \* case -1
        ELSE IF rem > Five THEN quo + 1                       \* case 1
        ELSE IF quo % 2 = 0 THEN quo ELSE quo + 1             \* bankers: quo.Bit(0) == 0
\* chopPrecisionAndRound: negate, recurse, negate
ChopRound(d) == IF d < 0 THEN -ChopRoundNN(-d) ELSE ChopRoundNN(d)
\* chopPrecisionAndTruncate: d.Quo(d, precisionReuse)
ChopTrunc(d) == TQuo(d, P)
\* chopPrecisionAndRoundUp: negative => truncate the magnitude
ChopRoundUp(d) ==
    IF d < 0 THEN -ChopTrunc(-d)
    ELSE LET quo == d \div P
             rem == d % P
         IN  IF rem = 0 THEN quo ELSE quo + 1

\* the intended (single rounding) divisions, used when the deviation is switched off
DivHalfEven(n, d) ==
    LET q == TQuo(n, d)
        r == Abs(TRem(n, d))
        s == IF (n < 0) = (d < 0) THEN 1 ELSE -1
    IN  IF r = 0 THEN q
        ELSE IF 2 * r < Abs(d) THEN q
        ELSE IF 2 * r > Abs(d) THEN q + s
        ELSE IF q % 2 = 0 THEN q ELSE q + s
DivCeil(n, d) ==
    LET q == TQuo(n, d)
    IN  IF TRem(n, d) # 0 /\ ((n < 0) = (d < 0)) THEN q + 1 ELSE q

DecAdd(a, b) == Out(a + b, InDec(a + b))
DecSub(a, b) == Out(a - b, InDec(a - b))
DecMul(a, b) == LET c == ChopRound(a * b) IN Out(c, InDec(c))
DecMulTruncate(a, b) == LET c == ChopTrunc(a * b) IN Out(c, InDec(c))
DecMulInt(a, i) == Out(a * i, InDec(a * i))
\* "multiply precision twice", then big.Int.Quo
QuoInner(a, b) == TQuo(a * P * P, b)
DecQuo(a, b) ==
    IF b = 0 THEN Panic                       \* big.Int.Quo: division by zero
    ELSE LET c == IF "QuoDoubleRounding" \in Dev THEN ChopRound(QuoInner(a, b))
                  ELSE DivHalfEven(a * P, b)
         IN  Out(c, InDec(c))
DecQuoTruncate(a, b) ==
    IF b = 0 THEN Panic
    ELSE LET c == ChopTrunc(QuoInner(a, b)) IN Out(c, InDec(c))
DecQuoRoundUp(a, b) ==
    IF b = 0 THEN Panic
    ELSE LET c == IF "QuoRoundUpTruncFirst" \in Dev THEN ChopRoundUp(QuoInner(a, b))
                  ELSE DivCeil(a * P, b)
         IN  Out(c, InDec(c))
\* QuoInt / QuoInt64: a bare big.Int.Quo, no range check needed (the magnitude cannot grow)
DecQuoInt(a, i) == IF i = 0 THEN Panic ELSE Ok(TQuo(a, i))
DecRoundInt(a)      == LET c == ChopRound(a) IN Out(c, InInt(c))    \* NewIntFromBigInt
DecRoundInt64(a)    == LET c == ChopRound(a) IN Out(c, InI64(c))
DecTruncateInt(a)   == LET c == ChopTrunc(a) IN Out(c, InInt(c))
DecTruncateInt64(a) == LET c == ChopTrunc(a) IN Out(c, InI64(c))
DecTruncateDec(a)   == Ok(ChopTrunc(a) * P)
CeilVal(a) ==
    LET quo == TQuo(a, P)
        rem == TRem(a, P)
    IN  IF rem = 0 THEN quo * P                 \* no need to round with a zero remainder
        ELSE IF rem < 0 THEN quo * P            \* rem.Sign() == -1
        ELSE (quo + 1) * P
DecCeil(a) ==
    LET c == CeilVal(a)
    IN  IF "CeilNoRangeCheck" \in Dev THEN Ok(c) ELSE Out(c, InDec(c))
DecNeg(a) == Ok(-a)
DecAbs(a) == Ok(Abs(a))
DecIsInteger(a) == Ok(IF TRem(a, P) = 0 THEN 1 ELSE 0)
\* Equal, GT, GTE, LT, LTE as bits 1, 2, 4, 8, 16
CmpBits(a, b) == (IF a = b THEN 1 ELSE 0) + (IF a > b THEN 2 ELSE 0) + (IF a >= b THEN 4 ELSE 0)
                 + (IF a < b THEN 8 ELSE 0) + (IF a <= b THEN 16 ELSE 0)
MinOf(a, b) == IF a < b THEN a ELSE b
MaxOf(a, b) == IF a < b THEN b ELSE a

-----------------------------------------------------------------------------
(* Part 1c: int.go, uint.go, staking.go                                    *)

IntAdd(a, b) == Out(a + b, InInt(a + b))
IntSub(a, b) == Out(a - b, InInt(a - b))
\* pre-check on the bit lengths, then the check on the product (TLC only, BitLen)
IntMul(a, b) ==
    IF BitLen(a) + BitLen(b) - 1 > IntBits THEN Panic
    ELSE Out(a * b, InInt(a * b))
IntQuo(a, b) == IF b = 0 THEN Panic ELSE Ok(TQuo(a, b))
IntMod(a, b) == IF b = 0 THEN Panic ELSE Ok(EMod(a, b))
IntNeg(a) == Ok(-a)
IntInt64(a) == Out(a, InI64(a))
IntToDec(a) == Ok(a * P)
\* TokensToConsensusPower: tokens.Quo(PowerReduction).Int64()
IntPower(a) == LET q == TQuo(a, PR) IN Out(q, InI64(q))

UintAdd(a, b) == Out(a + b, InUint(a + b))
UintSub(a, b) == Out(a - b, InUint(a - b))
UintMul(a, b) == Out(a * b, InUint(a * b))
UintQuo(a, b) == IF b = 0 THEN Panic ELSE Ok(a \div b)
UintUint64(a) == Out(a, InU64(a))

-----------------------------------------------------------------------------
(* Part 2: the mathematical definitions (integer inequalities on n/d, d#0) *)

\* r is n/d rounded to the nearest integer, ties to the even one
IsHalfEven(n, d, r) ==
    LET e == 2 * (r * d - n)
    IN  Abs(e) <= Abs(d) /\ (Abs(e) = Abs(d) => r % 2 = 0)
\* r is n/d rounded toward zero
IsTrunc(n, d, r) ==
    /\ Abs(r) * Abs(d) <= Abs(n)
    /\ Abs(n) - Abs(r) * Abs(d) < Abs(d)
    /\ (r # 0 => ((r > 0) = ((n < 0) = (d < 0))))
\* r is n/d rounded toward +infinity
IsCeil(n, d, r) ==
    IF d > 0 THEN r * d >= n /\ (r - 1) * d < n
    ELSE r * d <= n /\ (r - 1) * d > n
\* r is n/d rounded toward -infinity
IsFloor(n, d, r) ==
    IF d > 0 THEN r * d <= n /\ n < (r + 1) * d
    ELSE r * d >= n /\ n > (r + 1) * d
\* r is congruent to n modulo d and smaller than d in magnitude
IsRemainder(n, d, r) == Abs(r) < Abs(d) /\ TRem(n - r, d) = 0

\* the three roundings of n/d all lie within one of the truncated quotient
\* @type: (Int, Int) => Set(Int);
Cand(n, d) == LET t == TQuo(n, d) IN {t - 1, t, t + 1}

-----------------------------------------------------------------------------
(* Part 3: what the property requires of an outcome o of each operation.   *)
(* "ok" outcomes carry the mandated value and it is representable; a panic *)
(* is required exactly when the mandated value is not representable (or    *)
(* the divisor is zero).  mode: "he" half-even, "tr" toward zero, "up"     *)
(* toward +infinity.  lim: 1 Int, 2 Uint, 3 Dec, 4 int64, 5 uint64, 0 none *)

InLim(lim, a) ==
    IF lim = 1 THEN InInt(a) ELSE IF lim = 2 THEN InUint(a) ELSE IF lim = 3 THEN InDec(a)
    ELSE IF lim = 4 THEN InI64(a) ELSE IF lim = 5 THEN InU64(a) ELSE TRUE

Rounds(mode, n, d, r) ==
    IF mode = "he" THEN IsHalfEven(n, d, r)
    ELSE IF mode = "tr" THEN IsTrunc(n, d, r)
    ELSE IsCeil(n, d, r)

\* exact result val
\* @type: (Int, Int, { ok: Bool, v: Int }) => Bool;
ReqExact(val, lim, o) ==
    IF o.ok THEN o.v = val /\ InLim(lim, val) ELSE ~InLim(lim, val)

\* n/d rounded by mode; the result is scaled by mult (1, or P for the Dec valued Ceil/TruncateDec)
\* @type: (Str, Int, Int, Int, Int, { ok: Bool, v: Int }) => Bool;
ReqDiv(mode, n, d, mult, lim, o) ==
    IF d = 0 THEN ~o.ok
    ELSE IF o.ok THEN \E r \in Cand(n, d) : o.v = r * mult /\ Rounds(mode, n, d, r) /\ InLim(lim, o.v)
    ELSE \E r \in Cand(n, d) : Rounds(mode, n, d, r) /\ ~InLim(lim, r * mult)

\* a zero divisor must panic (stated separately: Apalache's constant folding rejects a literal
\* zero divisor even in the branch that is not taken)
\* @type: { ok: Bool, v: Int } => Bool;
Req_DivByZero(o) == ~o.ok

\* @type: (Int, Int, { ok: Bool, v: Int }) => Bool;
Req_DecAdd(a, b, o)        == ReqExact(a + b, 3, o)
\* @type: (Int, Int, { ok: Bool, v: Int }) => Bool;
Req_DecSub(a, b, o)         == ReqExact(a - b, 3, o)
\* @type: (Int, Int, { ok: Bool, v: Int }) => Bool;
Req_DecMul(a, b, o)         == ReqDiv("he", a * b, P, 1, 3, o)
\* @type: (Int, Int, { ok: Bool, v: Int }) => Bool;
Req_DecMulTruncate(a, b, o) == ReqDiv("tr", a * b, P, 1, 3, o)
\* @type: (Int, Int, { ok: Bool, v: Int }) => Bool;
Req_DecMulInt(a, i, o)      == ReqExact(a * i, 3, o)
\* (a/P) / (b/P) in units of 1/P is a*P / b
\* @type: (Int, Int, { ok: Bool, v: Int }) => Bool;
Req_DecQuo(a, b, o)         == ReqDiv("he", a * P, b, 1, 3, o)
\* @type: (Int, Int, { ok: Bool, v: Int }) => Bool;
Req_DecQuoTruncate(a, b, o) == ReqDiv("tr", a * P, b, 1, 3, o)
\* @type: (Int, Int, { ok: Bool, v: Int }) => Bool;
Req_DecQuoRoundUp(a, b, o)  == ReqDiv("up", a * P, b, 1, 3, o)
\* INTERPRETATION (fixed by the project lead): the half-even clause of the property speaks of
\* Dec.Mul / Dec.Quo and their Truncate / RoundUp variants; QuoInt and QuoInt64 are documented
\* only as "quotient" and are the truncating integer quotient of the underlying integer
\* @type: (Int, Int, { ok: Bool, v: Int }) => Bool;
Req_DecQuoInt(a, i, o)      == ReqDiv("tr", a, i, 1, 3, o)
\* @type: (Int, { ok: Bool, v: Int }) => Bool;
Req_DecRoundInt(a, o)       == ReqDiv("he", a, P, 1, 1, o)
\* @type: (Int, { ok: Bool, v: Int }) => Bool;
Req_DecRoundInt64(a, o)     == ReqDiv("he", a, P, 1, 4, o)
\* @type: (Int, { ok: Bool, v: Int }) => Bool;
Req_DecTruncateInt(a, o)    == ReqDiv("tr", a, P, 1, 1, o)
\* @type: (Int, { ok: Bool, v: Int }) => Bool;
Req_DecTruncateInt64(a, o)  == ReqDiv("tr", a, P, 1, 4, o)
\* @type: (Int, { ok: Bool, v: Int }) => Bool;
Req_DecTruncateDec(a, o)    == ReqDiv("tr", a, P, P, 3, o)
\* @type: (Int, { ok: Bool, v: Int }) => Bool;
Req_DecCeil(a, o)           == ReqDiv("up", a, P, P, 3, o)
\* @type: (Int, { ok: Bool, v: Int }) => Bool;
Req_DecNeg(a, o)            == ReqExact(-a, 3, o)
\* @type: (Int, { ok: Bool, v: Int }) => Bool;
Req_DecAbs(a, o)            == ReqExact(Abs(a), 3, o)
\* @type: (Int, { ok: Bool, v: Int }) => Bool;
Req_DecIsInteger(a, o)      == o.ok /\ (o.v = 1) = (\E k \in Cand(a, P) : k * P = a)
\* @type: (Int, Int, { ok: Bool, v: Int }) => Bool;
Req_Cmp(a, b, o)            == o.ok /\ o.v = CmpBits(a, b)
\* @type: (Int, Int, { ok: Bool, v: Int }) => Bool;
Req_Min(a, b, o)            == o.ok /\ o.v <= a /\ o.v <= b /\ o.v \in {a, b}
\* @type: (Int, Int, { ok: Bool, v: Int }) => Bool;
Req_Max(a, b, o)            == o.ok /\ o.v >= a /\ o.v >= b /\ o.v \in {a, b}

\* @type: (Int, Int, { ok: Bool, v: Int }) => Bool;
Req_IntAdd(a, b, o)  == ReqExact(a + b, 1, o)
\* @type: (Int, Int, { ok: Bool, v: Int }) => Bool;
Req_IntSub(a, b, o)  == ReqExact(a - b, 1, o)
\* @type: (Int, Int, { ok: Bool, v: Int }) => Bool;
Req_IntMul(a, b, o)  == ReqExact(a * b, 1, o)
\* @type: (Int, Int, { ok: Bool, v: Int }) => Bool;
Req_IntQuo(a, b, o)  == ReqDiv("tr", a, b, 1, 1, o)
\* any remainder convention: congruent and smaller than the modulus
\* @type: (Int, Int, { ok: Bool, v: Int }) => Bool;
Req_IntMod(a, b, o)  == IF b = 0 THEN ~o.ok ELSE o.ok /\ IsRemainder(a, b, o.v)
\* @type: (Int, { ok: Bool, v: Int }) => Bool;
Req_IntNeg(a, o)     == ReqExact(-a, 1, o)
\* @type: (Int, { ok: Bool, v: Int }) => Bool;
Req_IntInt64(a, o)   == ReqExact(a, 4, o)
\* @type: (Int, { ok: Bool, v: Int }) => Bool;
Req_IntToDec(a, o)   == ReqExact(a * P, 3, o)
\* @type: (Int, { ok: Bool, v: Int }) => Bool;
Req_IntPower(a, o)   == ReqDiv("tr", a, PR, 1, 4, o)
\* @type: (Int, Int, { ok: Bool, v: Int }) => Bool;
Req_UintAdd(a, b, o) == ReqExact(a + b, 2, o)
\* @type: (Int, Int, { ok: Bool, v: Int }) => Bool;
Req_UintSub(a, b, o) == ReqExact(a - b, 2, o)
\* @type: (Int, Int, { ok: Bool, v: Int }) => Bool;
Req_UintMul(a, b, o) == ReqExact(a * b, 2, o)
\* @type: (Int, Int, { ok: Bool, v: Int }) => Bool;
Req_UintQuo(a, b, o) == ReqDiv("tr", a, b, 1, 2, o)
\* @type: (Int, { ok: Bool, v: Int }) => Bool;
Req_UintUint64(a, o) == ReqExact(a, 5, o)
\* constructors from an arbitrary integer: NewIntFromBigInt / NewIntFromString, NewUintFromBigInt / ParseUint
\* @type: (Int, { ok: Bool, v: Int }) => Bool;
Req_IntNew(a, o)     == ReqExact(a, 1, o)
\* @type: (Int, { ok: Bool, v: Int }) => Bool;
Req_UintNew(a, o)    == ReqExact(a, 2, o)
\* @type: (Int, { ok: Bool, v: Int }) => Bool;
Req_IntIsInt64(a, o) == o.ok /\ ((o.v = 1) = InI64(a))
\* String() followed by NewDecFromStr is the identity on a Dec
\* @type: (Int, { ok: Bool, v: Int }) => Bool;
Req_DecIdentity(a, o) == o.ok /\ o.v = a

-----------------------------------------------------------------------------
(* Part 3b: the one-variable relations Apalache proves for all integers    *)
(* (P = 10^18): the chop algorithms are the three roundings of x/P.        *)

Thm_ChopRound   == IsHalfEven(x, P, ChopRound(x))
Thm_ChopTrunc   == IsTrunc(x, P, ChopTrunc(x))
Thm_ChopRoundUp == IsCeil(x, P, ChopRoundUp(x))
Thm_Ceil        == Req_DecCeil(x, Out(CeilVal(x), InDec(CeilVal(x))))
Thm_RoundInt    == Req_DecRoundInt(x, DecRoundInt(x))
Thm_TruncateInt == Req_DecTruncateInt(x, DecTruncateInt(x))
Thm_DivHalfEven == y # 0 => IsHalfEven(x, y, DivHalfEven(x, y))
\* two variables: all pairs of representable Decs
Thm_Mul         == (InDec(x) /\ InDec(y)) => Req_DecMul(x, y, DecMul(x, y))
Thm_MulTruncate == (InDec(x) /\ InDec(y)) => Req_DecMulTruncate(x, y, DecMulTruncate(x, y))
\* Apalache stalls on this one (division by a variable); tried in the thorough tier, a stall is recorded
Thm_QuoTruncate == (InDec(x) /\ InDec(y)) => Req_DecQuoTruncate(x, y, DecQuoTruncate(x, y))
Thm_AddSubRange == /\ Req_IntAdd(x, y, IntAdd(x, y)) /\ Req_IntSub(x, y, IntSub(x, y))
                   /\ Req_UintAdd(x, y, UintAdd(x, y)) /\ Req_UintSub(x, y, UintSub(x, y))
                   /\ Req_DecAdd(x, y, DecAdd(x, y)) /\ Req_DecSub(x, y, DecSub(x, y))

\* case splits of chopPrecisionAndRound; Apalache refutes ~Case_k with a big-integer witness
ChopCase(d) ==
    LET a   == Abs(d)
        quo == a \div P
        rem == a % P
    IN  IF rem = 0 THEN "exact"
        ELSE IF rem < Five THEN "below"
        ELSE IF rem > Five THEN "above"
        ELSE IF quo % 2 = 0 THEN "tie-even" ELSE "tie-odd"

ApaInit  == x \in Int /\ y \in Int
ApaInitX == x \in Int /\ y = 0
ApaNext  == UNCHANGED <<x, y>>

-----------------------------------------------------------------------------
(* Part 4: TLC harness.  One state per operand pair; no transitions.       *)

Edges == { s * (m - k) : s \in {-1, 1}, m \in {IntMax, UintMax, DecMax, I64Max, U64Max}, k \in 0..1 }
Vals  == (-R..R) \cup { v \in Edges : Abs(v) <= EdgeMax }
ValsY == (-RY..RY) \cup { v \in Edges : Abs(v) <= EdgeMax }

\* x is chosen initially, y by the only step (so that TLC's workers share the pairs);
\* until then y holds a value outside Vals
NoY == DecMax + 7
Init == x \in Vals /\ y = NoY
Next == y = NoY /\ y' \in ValsY /\ x' = x
Chosen == y # NoY

VI(a) == InInt(a)
VU(a) == InUint(a)

Inv_DecAdd         == Chosen => Req_DecAdd(x, y, DecAdd(x, y))
Inv_DecSub         == Chosen => Req_DecSub(x, y, DecSub(x, y))
Inv_DecMul         == Chosen => Req_DecMul(x, y, DecMul(x, y))
Inv_DecMulTruncate == Chosen => Req_DecMulTruncate(x, y, DecMulTruncate(x, y))
Inv_DecMulInt      == Chosen /\ VI(y) => Req_DecMulInt(x, y, DecMulInt(x, y))
Inv_DecQuo         == Chosen => Req_DecQuo(x, y, DecQuo(x, y))
Inv_DecQuoTruncate == Chosen => Req_DecQuoTruncate(x, y, DecQuoTruncate(x, y))
Inv_DecQuoRoundUp  == Chosen => Req_DecQuoRoundUp(x, y, DecQuoRoundUp(x, y))
Inv_DecQuoInt      == Chosen /\ VI(y) => Req_DecQuoInt(x, y, DecQuoInt(x, y))
Inv_DecUnary ==
    Chosen =>
    /\ Req_DecRoundInt(x, DecRoundInt(x))
    /\ Req_DecRoundInt64(x, DecRoundInt64(x))
    /\ Req_DecTruncateInt(x, DecTruncateInt(x))
    /\ Req_DecTruncateInt64(x, DecTruncateInt64(x))
    /\ Req_DecTruncateDec(x, DecTruncateDec(x))
    /\ Req_DecNeg(x, DecNeg(x))
    /\ Req_DecAbs(x, DecAbs(x))
    /\ Req_DecIsInteger(x, DecIsInteger(x))
Inv_DecCeil == Chosen => Req_DecCeil(x, DecCeil(x))
Inv_Int ==
    (Chosen /\ VI(x) /\ VI(y)) =>
        /\ Req_IntAdd(x, y, IntAdd(x, y))
        /\ Req_IntSub(x, y, IntSub(x, y))
        /\ Req_IntMul(x, y, IntMul(x, y))
        /\ Req_IntQuo(x, y, IntQuo(x, y))
        /\ Req_IntMod(x, y, IntMod(x, y))
        /\ Req_IntNeg(x, IntNeg(x))
        /\ Req_IntInt64(x, IntInt64(x))
        /\ Req_IntToDec(x, IntToDec(x))
        /\ Req_IntPower(x, IntPower(x))
Inv_Uint ==
    (Chosen /\ VU(x) /\ VU(y)) =>
        /\ Req_UintAdd(x, y, UintAdd(x, y))
        /\ Req_UintSub(x, y, UintSub(x, y))
        /\ Req_UintMul(x, y, UintMul(x, y))
        /\ Req_UintQuo(x, y, UintQuo(x, y))
        /\ Req_UintUint64(x, UintUint64(x))
\* the chop algorithms against the definitions (the relations Apalache proves for P = 10^18)
Inv_Chop == Chosen => Thm_ChopRound /\ Thm_ChopTrunc /\ Thm_ChopRoundUp
\* the definitions determine the result: no second integer satisfies them
Inv_Unique ==
    (Chosen /\ y # 0) => \A m \in {"he", "tr", "up"} :
                 Cardinality({ r \in (TQuo(x, y) - 3)..(TQuo(x, y) + 3) : Rounds(m, x, y, r) }) = 1

\* ---- the case table -------------------------------------------------------
\* rendering of an outcome: the value, or "p" (panic); all strings so that Apalache can type it
\* @type: { ok: Bool, v: Int } => Str;
Rn(o) == IF o.ok THEN ToString(o.v) ELSE "p"
Sv(v) == ToString(v)
NA == "n"      \* operand not valid for the operand type of this operation

\* @type: Seq(Str);
OpNames == << "Dec.Add", "Dec.Sub", "Dec.Mul", "Dec.MulTruncate", "Dec.MulInt", "Dec.Quo",
              "Dec.QuoTruncate", "Dec.QuoRoundUp", "Dec.QuoInt", "Dec.Cmp", "Dec.Min", "Dec.Max",
              "Int.Add", "Int.Sub", "Int.Mul", "Int.Quo", "Int.Mod", "Int.Cmp", "Int.Min", "Int.Max",
              "Uint.Add", "Uint.Sub", "Uint.Mul", "Uint.Quo", "Uint.Cmp", "Uint.Min", "Uint.Max" >>
\* @type: Seq(Str);
UnaryNames == << "Dec.RoundInt", "Dec.RoundInt64", "Dec.TruncateInt", "Dec.TruncateInt64",
                 "Dec.TruncateDec", "Dec.Ceil", "Dec.Neg", "Dec.Abs", "Dec.IsInteger",
                 "Int.Neg", "Int.Int64", "Int.ToDec", "Int.Power", "Uint.Uint64" >>

\* @type: (Int, Int) => Seq(Str);
Row(a, b) ==
    LET vi == VI(a) /\ VI(b)
        vu == VU(a) /\ VU(b)
    IN << Rn(DecAdd(a, b)), Rn(DecSub(a, b)), Rn(DecMul(a, b)), Rn(DecMulTruncate(a, b)),
          IF VI(b) THEN Rn(DecMulInt(a, b)) ELSE NA, Rn(DecQuo(a, b)),
          Rn(DecQuoTruncate(a, b)), Rn(DecQuoRoundUp(a, b)),
          IF VI(b) THEN Rn(DecQuoInt(a, b)) ELSE NA, Sv(CmpBits(a, b)), Sv(MinOf(a, b)), Sv(MaxOf(a, b)),
          IF vi THEN Rn(IntAdd(a, b)) ELSE NA, IF vi THEN Rn(IntSub(a, b)) ELSE NA,
          IF vi THEN Rn(IntMul(a, b)) ELSE NA, IF vi THEN Rn(IntQuo(a, b)) ELSE NA,
          IF vi THEN Rn(IntMod(a, b)) ELSE NA, IF vi THEN Sv(CmpBits(a, b)) ELSE NA,
          IF vi THEN Sv(MinOf(a, b)) ELSE NA, IF vi THEN Sv(MaxOf(a, b)) ELSE NA,
          IF vu THEN Rn(UintAdd(a, b)) ELSE NA, IF vu THEN Rn(UintSub(a, b)) ELSE NA,
          IF vu THEN Rn(UintMul(a, b)) ELSE NA, IF vu THEN Rn(UintQuo(a, b)) ELSE NA,
          IF vu THEN Sv(CmpBits(a, b)) ELSE NA, IF vu THEN Sv(MinOf(a, b)) ELSE NA,
          IF vu THEN Sv(MaxOf(a, b)) ELSE NA >>
\* @type: Int => Seq(Str);
URow(a) ==
    << Rn(DecRoundInt(a)), Rn(DecRoundInt64(a)), Rn(DecTruncateInt(a)), Rn(DecTruncateInt64(a)),
       Rn(DecTruncateDec(a)), Rn(DecCeil(a)), Rn(DecNeg(a)), Rn(DecAbs(a)), Rn(DecIsInteger(a)),
       IF VI(a) THEN Rn(IntNeg(a)) ELSE NA, IF VI(a) THEN Rn(IntInt64(a)) ELSE NA,
       IF VI(a) THEN Rn(IntToDec(a)) ELSE NA, IF VI(a) THEN Rn(IntPower(a)) ELSE NA,
       IF VU(a) THEN Rn(UintUint64(a)) ELSE NA >>

\* which branch of the rounding the product / the scaled quotient / the value takes (vacuity)
\* @type: (Int, Int) => Seq(Str);
Classes(a, b) ==
    << ChopCase(a * b), IF b = 0 THEN "div0" ELSE ChopCase(QuoInner(a, b)), ChopCase(a) >>

\* evaluated once per distinct state; always TRUE
PrintCase ==
    /\ (Chosen /\ Abs(x) < PrintR /\ Abs(y) < PrintR)
           => PrintT(ToString(<<"CASE", Sv(x), Sv(y)>> \o Classes(x, y) \o Row(x, y)))
    /\ (Chosen /\ y = 0 /\ Abs(x) < UPrintR)
           => PrintT(ToString(<<"UCASE", Sv(x), ChopCase(x)>> \o URow(x)))

ASSUME PrintT(ToString(<<"OPS">> \o OpNames)) /\ PrintT(ToString(<<"UOPS">> \o UnaryNames))
=============================================================================
