\* linearizability search over the histories logged by kvdrv conc (conc.ndjson)
SPECIFICATION LSpec
CONSTANTS
  Keys <- KC
  Bounds <- B2
  OpenRanges <- OR1
  BaseInit <- BaseA
  SetVals <- ValBC
  MaxW = 1
  MaxDepth = 1
  MaxIt = 0
  BaseOps = FALSE
  NThreads = 3
  MaxOps = 2
  MaxPre = 2
  GenLen = 3
VIEW CView
INVARIANT Linearized
CHECK_DEADLOCK FALSE
