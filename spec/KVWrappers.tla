------------------------------ MODULE KVWrappers ------------------------------
(***************************************************************************)
(* C16: the store wrappers prefix.Store, gaskv.Store (+ types.GasMeter),     *)
(* tracekv.Store and cachekv.Store stacked in any order the constructors     *)
(* permit over a dbadapter.Store{MemDB}.  Every wrapper method is            *)
(* transcribed as one branch of an operator that recurses over the layers    *)
(* of the stack (index 1 = outermost wrapper, Len(stack)+1 = the base map).  *)
(*                                                                         *)
(*  prefix : key() = cloneAppend(prefix, key); iterator bounds               *)
(*           [prefix+start, end=nil ? PrefixEndBytes(prefix) : prefix+end);  *)
(*           prefixIterator.valid = parent.Valid() && HasPrefix(parent.Key())*)
(*  gas    : the documented function of gaskv/store.go: Get = ReadCostFlat    *)
(*           before, ReadCostPerByte*len(value) after the read; Set =        *)
(*           WriteCostFlat, WriteCostPerByte*len(value), then the write; Has, *)
(*           Delete flat before; an iterator charges                         *)
(*           ReadCostPerByte*len(current value) + IterNextCostFlat at         *)
(*           creation if valid and at every Next while valid (before moving); *)
(*           Key/Value/Valid/Close are free.                                 *)
(*  meter  : basicGasMeter.ConsumeGas: overflow of the uint64 total ->        *)
(*           panic ErrorGasOverflow; else add, then consumed > limit -> panic *)
(*           ErrorOutOfGas (consumed stays past the limit); infinite meter:  *)
(*           only the overflow check.  The total is modelled relative to a   *)
(*           pre-consumed start: room = MaxUint64 - start (or -1: far away).  *)
(*  trace  : one line [operation, key, value] for write (before), read       *)
(*           (after), delete (before), iterKey, iterValue; Has, iterator     *)
(*           creation, Valid, Next, Close write nothing.                     *)
(*  cache  : the abstract overlay of CacheKV.tla (sets, tombstones, Write).   *)
(*           What reaches the layers BELOW a cache depends on the cache's    *)
(*           memoisation and merge-iterator internals, so gas/trace layers   *)
(*           below a cache are not observable exactly (GasExact/TraceExact). *)
(*                                                                         *)
(* Encoding: optional x is <<>> or <<x>>; keys and values are byte sequences. *)
(***************************************************************************)
EXTENDS Integers, Sequences, FiniteSets, TLC, Json

CONSTANTS Stacks,       \* set of stacks; a stack is a sequence of [t : "prefix"|"gas"|"trace"|"cache", p : prefix bytes]
          Meters,       \* set of [kind : "basic"|"inf", lim : relative limit or -1, room : distance to uint64 overflow or -1]
          UserKeys,     \* keys the caller uses at the top of the stack
          Bounds,       \* iterator bounds (nil is added)
          Vals,         \* values (byte sequences) that may be Set
          Inits,        \* set of initial contents: subsets of UserKeys present at the start (with value InitVal)
          GasCap,       \* exploration bound on the consumed gas (state constraint)
          OpenIts,      \* FALSE: only atomic iterations (IterAll), no iterator stays open
          HistLen       \* 0: exhaustive; > 0: simulation, behaviours of that length are printed

VARIABLES stack, meter0, base0,   \* chosen at Init, never changed (base0: dump of the initial base)
          base,     \* [U -> optional value]     the MemDB under everything
          ov,       \* cache overlay [AllKeys -> [d, v]] (used only if the stack has a cache layer)
          m,        \* gas meter [c |-> consumed relative to the start, lim, room]
          it,       \* the open iterator: [open, rest, pv] (at most one)
          dead,     \* TRUE after a gas panic (the program ends there)
          res,      \* observation of the last operation [r, gas, pan, tr, base]
          act,      \* label of the last operation
          hist

vars == <<stack, meter0, base0, base, ov, m, it, dead, res, act, hist>>
sview == <<stack, meter0, base0, base, ov, m, it, dead>>

None == <<>>
Some(x) == <<x>>

\* ---- bytes ---------------------------------------------------------------------------------
RECURSIVE Cmp(_, _)
Cmp(a, b) == IF a = <<>> THEN (IF b = <<>> THEN 0 ELSE -1)
             ELSE IF b = <<>> THEN 1
             ELSE IF a[1] < b[1] THEN -1
             ELSE IF a[1] > b[1] THEN 1
             ELSE Cmp(Tail(a), Tail(b))
InDomain(k, st, en) == (st = None \/ Cmp(k, st[1]) >= 0) /\ (en = None \/ Cmp(k, en[1]) < 0)
HasPrefix(k, p) == Len(k) >= Len(p) /\ SubSeq(k, 1, Len(p)) = p
Strip(k, p) == SubSeq(k, Len(p) + 1, Len(k))
MinKey(S) == CHOOSE k \in S : \A j \in S : Cmp(k, j) <= 0
RECURSIVE SortAsc(_)
SortAsc(S) == IF S = {} THEN <<>> ELSE LET x == MinKey(S) IN <<x>> \o SortAsc(S \ {x})
Rev(s) == [i \in 1..Len(s) |-> s[Len(s) + 1 - i]]

\* store/types/utils.go PrefixEndBytes: increment the last byte; 0xFF carries into a shorter
\* prefix; the empty and the all-0xFF prefix have no end (nil = unbounded)
RECURSIVE PrefixEnd(_)
PrefixEnd(p) == IF Len(p) = 0 THEN None
                ELSE IF p[Len(p)] # 255 THEN Some([p EXCEPT ![Len(p)] = @ + 1])
                ELSE PrefixEnd(SubSeq(p, 1, Len(p) - 1))

\* ---- key universe ----------------------------------------------------------------------------
PrefixesOf(s) == [i \in 1..Len(s) |-> IF s[i].t = "prefix" THEN s[i].p ELSE <<>>]
RECURSIVE Concat(_)
Concat(ss) == IF ss = <<>> THEN <<>> ELSE ss[1] \o Concat(Tail(ss))
FullPrefix(s) == Concat(Rev(PrefixesOf(s)))     \* layer 1 prepends first, so the lowest prefix layer comes first in the base key
\* decoys: keys next to the prefix ranges (the end of a range, just below a prefix, proper prefixes)
Decoys == {<<0, 255>>, <<1>>, <<1, 254>>, <<1, 254, 255>>, <<2>>, <<254>>, <<254, 255>>, <<255>>, <<255, 254>>, <<255, 255>>}
U == UNION {{FullPrefix(s) \o k : k \in UserKeys} : s \in Stacks} \cup Decoys
AllKeys == UNION {{SubSeq(k, j + 1, Len(k)) : j \in 0..Len(k)} : k \in U}
DecoyVal == <<122>>
InitVal == <<97>>

NoEnt == [d |-> FALSE, v |-> None]
n == Len(stack)
HasLayer(t) == \E i \in 1..n : stack[i].t = t
LayerPos(t) == CHOOSE i \in 1..n : stack[i].t = t
\* what the gas meter / the trace show is a function of the caller's operations only if no cache sits above
GasExactIn(s) == ~\E i, j \in 1..Len(s) : i < j /\ s[i].t = "cache" /\ s[j].t = "gas"
TraceExactIn(s) == ~\E i, j \in 1..Len(s) : i < j /\ s[i].t = "cache" /\ s[j].t = "trace"

\* ---- shipped cost table (store/types/gas.go KVGasConfig) -----------------------------------------
HasCost == 1000
DeleteCost == 1000
ReadCostFlat == 1000
ReadCostPerByte == 3
WriteCostFlat == 2000
WriteCostPerByte == 30
IterNextCostFlat == 30

\* ---- functional state threaded through one operation -------------------------------------------
\* G = [base, ov, m, tr (lines written by this operation), pan ("" or the panic kind)]
G0 == [base |-> base, ov |-> ov, m |-> m, tr |-> <<>>, pan |-> ""]

\* basicGasMeter / infiniteGasMeter ConsumeGas
Charge(G, a) ==
  IF G.pan # "" THEN G
  ELSE IF G.m.room # -1 /\ G.m.c + a > G.m.room
       THEN [G EXCEPT !.pan = "GasOverflow"]                            \* reported, not wrapped
       ELSE LET c2 == G.m.c + a IN
            IF G.m.lim # -1 /\ c2 > G.m.lim
            THEN [G EXCEPT !.m.c = c2, !.pan = "OutOfGas"]              \* after adding: consumed is past the limit
            ELSE [G EXCEPT !.m.c = c2]
\* tracekv writeOperation
Emit(G, op, k, v) == IF G.pan # "" THEN G ELSE [G EXCEPT !.tr = Append(@, <<op, k, v>>)]
OptLen(ov1) == IF ov1 = None THEN 0 ELSE Len(ov1[1])
ValOrEmpty(ov1) == IF ov1 = None THEN <<>> ELSE ov1[1]

\* ---- store methods, layer by layer ---------------------------------------------------------------
RECURSIVE SGet(_, _, _), SHas(_, _, _), SSet(_, _, _, _), SDelete(_, _, _), ContentAt(_, _)

SGet(i, G, k) ==
  IF G.pan # "" THEN [G |-> G, r |-> None]
  ELSE IF i = n + 1 THEN [G |-> G, r |-> G.base[k]]
  ELSE LET L == stack[i] IN
    IF L.t = "prefix" THEN SGet(i + 1, G, L.p \o k)
    ELSE IF L.t = "gas" THEN
       LET G1 == Charge(G, ReadCostFlat)
           x == SGet(i + 1, G1, k)
       IN [G |-> Charge(x.G, ReadCostPerByte * OptLen(x.r)), r |-> x.r]
    ELSE IF L.t = "trace" THEN
       LET x == SGet(i + 1, G, k) IN [G |-> Emit(x.G, "read", k, ValOrEmpty(x.r)), r |-> x.r]
    ELSE \* cache
       IF G.ov[k].d THEN [G |-> G, r |-> G.ov[k].v] ELSE SGet(i + 1, G, k)

SHas(i, G, k) ==
  IF G.pan # "" THEN [G |-> G, r |-> FALSE]
  ELSE IF i = n + 1 THEN [G |-> G, r |-> G.base[k] # None]
  ELSE LET L == stack[i] IN
    IF L.t = "prefix" THEN SHas(i + 1, G, L.p \o k)
    ELSE IF L.t = "gas" THEN SHas(i + 1, Charge(G, HasCost), k)
    ELSE IF L.t = "trace" THEN SHas(i + 1, G, k)                         \* no trace line for Has
    ELSE LET x == SGet(i, G, k) IN [G |-> x.G, r |-> x.r # None]         \* cachekv.Has = Get != nil

SSet(i, G, k, v) ==
  IF G.pan # "" THEN G
  ELSE IF i = n + 1 THEN [G EXCEPT !.base[k] = Some(v)]
  ELSE LET L == stack[i] IN
    IF L.t = "prefix" THEN SSet(i + 1, G, L.p \o k, v)
    ELSE IF L.t = "gas" THEN
       SSet(i + 1, Charge(Charge(G, WriteCostFlat), WriteCostPerByte * Len(v)), k, v)
    ELSE IF L.t = "trace" THEN SSet(i + 1, Emit(G, "write", k, v), k, v)
    ELSE [G EXCEPT !.ov[k] = [d |-> TRUE, v |-> Some(v)]]

SDelete(i, G, k) ==
  IF G.pan # "" THEN G
  ELSE IF i = n + 1 THEN [G EXCEPT !.base[k] = None]
  ELSE LET L == stack[i] IN
    IF L.t = "prefix" THEN SDelete(i + 1, G, L.p \o k)
    ELSE IF L.t = "gas" THEN SDelete(i + 1, Charge(G, DeleteCost), k)
    ELSE IF L.t = "trace" THEN SDelete(i + 1, Emit(G, "delete", k, <<>>), k)
    ELSE [G EXCEPT !.ov[k] = [d |-> TRUE, v |-> None]]

\* what a full read of layer i would show (used for the cache's merged iteration and for the invariants)
ContentAt(i, G) ==
  IF i = n + 1 THEN [k \in AllKeys |-> IF k \in U THEN G.base[k] ELSE None]
  ELSE LET L == stack[i]
           below == ContentAt(i + 1, G)
       IN IF L.t = "prefix" THEN [k \in AllKeys |-> IF (L.p \o k) \in AllKeys THEN below[L.p \o k] ELSE None]
          ELSE IF L.t = "cache" THEN [k \in AllKeys |-> IF G.ov[k].d THEN G.ov[k].v ELSE below[k]]
          ELSE below

Order == SortAsc(AllKeys)          \* constant: evaluated once by TLC
RangeItemsV(view, st, en, asc) ==
  LET sk == SelectSeq(Order, LAMBDA k : k \in DOMAIN view /\ view[k] # None /\ InDomain(k, st, en))
      sq == IF asc THEN sk ELSE Rev(sk)
  IN [j \in 1..Len(sq) |-> <<sq[j], view[sq[j]][1]>>]
\* TLC passes operator arguments unevaluated and (in primed / action-property context) re-evaluates them at
\* every use; binding the view through a set comprehension forces ONE evaluation of the whole map
RangeItems(view, st, en, asc) == CHOOSE r \in {RangeItemsV(v, st, en, asc) : v \in {view}} : TRUE

\* cachekv.Store.Write: dirty entries in ascending key order into the layer below, then clean
RECURSIVE FlushKeys(_, _, _)
FlushKeys(i, G, ks) ==
  IF ks = <<>> THEN G
  ELSE LET k == ks[1] IN
       FlushKeys(i, IF G.ov[k].v = None THEN SDelete(i + 1, G, k) ELSE SSet(i + 1, G, k, G.ov[k].v[1]), Tail(ks))
SFlush(G) ==
  LET i == LayerPos("cache")
      G1 == FlushKeys(i, G, SortAsc({k \in AllKeys : G.ov[k].d}))
  IN [G1 EXCEPT !.ov = [k \in AllKeys |-> NoEnt]]

\* ---- iterators, layer by layer --------------------------------------------------------------------
\* I = [rest |-> remaining <<key, value>> of the lowest modelled iterator, pv |-> [layer -> prefixIterator.valid]]
RECURSIVE IValid(_, _), IKey(_, _, _), IValue(_, _, _), INext(_, _, _), ICreate(_, _, _, _, _)

Bottom(i) == i = n + 1 \/ stack[i].t = "cache"      \* a cache's merge iterator is modelled as a snapshot of its view

IValid(i, I) == IF Bottom(i) THEN I.rest # <<>>
                ELSE IF stack[i].t = "prefix" THEN I.pv[i] /\ IValid(i + 1, I)
                ELSE IValid(i + 1, I)

IKey(i, G, I) ==
  IF G.pan # "" THEN [G |-> G, r |-> <<>>]
  ELSE IF Bottom(i) THEN [G |-> G, r |-> I.rest[1][1]]
  ELSE LET L == stack[i] IN
    IF L.t = "prefix" THEN LET x == IKey(i + 1, G, I) IN [G |-> x.G, r |-> Strip(x.r, L.p)]
    ELSE IF L.t = "trace" THEN LET x == IKey(i + 1, G, I) IN [G |-> Emit(x.G, "iterKey", x.r, <<>>), r |-> x.r]
    ELSE IKey(i + 1, G, I)                                               \* gas: Key is free

IValue(i, G, I) ==
  IF G.pan # "" THEN [G |-> G, r |-> <<>>]
  ELSE IF Bottom(i) THEN [G |-> G, r |-> I.rest[1][2]]
  ELSE LET L == stack[i] IN
    IF L.t = "trace" THEN LET x == IValue(i + 1, G, I) IN [G |-> Emit(x.G, "iterValue", <<>>, x.r), r |-> x.r]
    ELSE IValue(i + 1, G, I)                                             \* gas: Value is free; prefix: delegates

\* gasIterator.consumeSeekGas: value := gi.Value(); per-byte charge; flat charge
SeekGas(i, G, I) ==
  LET x == IValue(i + 1, G, I)
  IN Charge(Charge(x.G, ReadCostPerByte * Len(x.r)), IterNextCostFlat)

\* returns [G, I]
INext(i, G, I) ==
  IF G.pan # "" THEN [G |-> G, I |-> I]
  ELSE IF Bottom(i) THEN [G |-> G, I |-> [I EXCEPT !.rest = Tail(@)]]
  ELSE LET L == stack[i] IN
    IF L.t = "prefix" THEN
       LET x == INext(i + 1, G, I) IN
       IF x.G.pan # "" THEN x
       ELSE IF ~IValid(i + 1, x.I) THEN [G |-> x.G, I |-> [x.I EXCEPT !.pv[i] = FALSE]]
       ELSE LET kk == IKey(i + 1, x.G, x.I)                              \* parent.Key() for the HasPrefix test
            IN [G |-> kk.G, I |-> [x.I EXCEPT !.pv[i] = HasPrefix(kk.r, L.p)]]
    ELSE IF L.t = "gas" THEN
       LET G1 == IF IValid(i + 1, I) THEN SeekGas(i, G, I) ELSE G        \* charged for the current item, before moving
       IN IF G1.pan # "" THEN [G |-> G1, I |-> I] ELSE INext(i + 1, G1, I)
    ELSE INext(i + 1, G, I)                                              \* trace: Next writes nothing

ICreate(i, G, st, en, asc) ==
  IF G.pan # "" THEN [G |-> G, I |-> [rest |-> <<>>, pv |-> [j \in 1..n |-> FALSE]]]
  ELSE IF Bottom(i) THEN [G |-> G, I |-> [rest |-> RangeItems(ContentAt(i, G), st, en, asc), pv |-> [j \in 1..n |-> FALSE]]]
  ELSE LET L == stack[i] IN
    IF L.t = "prefix" THEN
       LET newst == Some(L.p \o (IF st = None THEN <<>> ELSE st[1]))     \* cloneAppend(prefix, start)
           newen == IF en = None THEN PrefixEnd(L.p) ELSE Some(L.p \o en[1])
           x == ICreate(i + 1, G, newst, newen, asc)
       IN IF x.G.pan # "" THEN x
          ELSE IF ~IValid(i + 1, x.I) THEN x
          ELSE LET kk == IKey(i + 1, x.G, x.I)
               IN [G |-> kk.G, I |-> [x.I EXCEPT !.pv[i] = HasPrefix(kk.r, L.p)]]
    ELSE IF L.t = "gas" THEN
       LET x == ICreate(i + 1, G, st, en, asc)
       IN IF x.G.pan # "" THEN x
          ELSE IF IValid(i + 1, x.I) THEN [G |-> SeekGas(i, x.G, x.I), I |-> x.I] ELSE x
    ELSE ICreate(i + 1, G, st, en, asc)                                  \* trace: creation writes nothing

\* the caller's loop: Valid(); Key(); Value(); Next() ... until invalid
RECURSIVE Drain(_, _, _)
Drain(G, I, acc) ==
  IF G.pan # "" \/ ~IValid(1, I) THEN [G |-> G, r |-> acc]
  ELSE LET k == IKey(1, G, I)
           v == IValue(1, k.G, I)
           x == INext(1, v.G, I)
       IN Drain(x.G, x.I, Append(acc, <<k.r, v.r>>))

\* ---- operations of the caller (top of the stack) ---------------------------------------------------
NoIt == [open |-> FALSE, rest |-> <<>>, pv |-> <<>>]
BaseDump(b) == RangeItems(b, None, None, TRUE)
Obs(G, r) == [r |-> IF G.pan # "" THEN "panic" ELSE r, gas |-> G.m.c, pan |-> G.pan, tr |-> G.tr]
Lbl(op, k, v, st, en, asc) == [op |-> op, k |-> k, v |-> v, st |-> st, en |-> en, asc |-> asc]

\* commit the effects of an operation; any mutation ends the open iterator (C16 does not study
\* writes under an open iterator, C15 does)
Commit(G, r, newit) ==
  /\ base' = G.base /\ ov' = G.ov /\ m' = G.m
  /\ dead' = (G.pan \in {"GasOverflow", "OutOfGas"})     \* the program ends at a gas panic
  /\ it' = newit
  /\ res' = Obs(G, r)
  /\ UNCHANGED <<stack, meter0, base0>>

Live == ~dead

DoGet(k) == Live /\ LET x == SGet(1, G0, k) IN Commit(x.G, x.r, it) /\ act' = Lbl("Get", k, <<>>, None, None, TRUE)
DoHas(k) == Live /\ LET x == SHas(1, G0, k) IN Commit(x.G, x.r, it) /\ act' = Lbl("Has", k, <<>>, None, None, TRUE)
DoSet(k, v) == Live /\ Commit(SSet(1, G0, k, v), "ok", NoIt) /\ act' = Lbl("Set", k, v, None, None, TRUE)
DoDelete(k) == Live /\ Commit(SDelete(1, G0, k), "ok", NoIt) /\ act' = Lbl("Delete", k, <<>>, None, None, TRUE)
DoFlush == Live /\ HasLayer("cache") /\ Commit(SFlush(G0), "ok", NoIt) /\ act' = Lbl("Flush", <<>>, <<>>, None, None, TRUE)
DoIterAll(st, en, asc) ==
  /\ Live /\ ~it.open
  /\ LET c == ICreate(1, G0, st, en, asc)
         x == Drain(c.G, c.I, <<>>)
     IN Commit(x.G, x.r, it)
  /\ act' = Lbl("IterAll", <<>>, <<>>, st, en, asc)
DoIterOpen(st, en, asc) ==
  /\ OpenIts /\ Live /\ ~it.open
  /\ LET c == ICreate(1, G0, st, en, asc)
     IN Commit(c.G, "ok", IF c.G.pan # "" THEN NoIt ELSE [open |-> TRUE, rest |-> c.I.rest, pv |-> c.I.pv])
  /\ act' = Lbl("IterOpen", <<>>, <<>>, st, en, asc)
ItI == [rest |-> it.rest, pv |-> it.pv]
DoIterRead ==          \* Valid(); if valid Key(), Value()
  /\ Live /\ it.open
  /\ IF IValid(1, ItI)
     THEN LET k == IKey(1, G0, ItI)
              v == IValue(1, k.G, ItI)
          IN Commit(v.G, Some(<<k.r, v.r>>), it)
     ELSE Commit(G0, None, it)
  /\ act' = Lbl("IterRead", <<>>, <<>>, None, None, TRUE)
DoIterNext ==          \* CONTRACT: only while valid
  /\ Live /\ it.open /\ IValid(1, ItI)
  /\ LET x == INext(1, G0, ItI)
     IN Commit(x.G, "ok", [open |-> TRUE, rest |-> x.I.rest, pv |-> x.I.pv])
  /\ act' = Lbl("IterNext", <<>>, <<>>, None, None, TRUE)
DoIterClose ==
  /\ Live /\ it.open
  /\ Commit(G0, "ok", NoIt)
  /\ act' = Lbl("IterClose", <<>>, <<>>, None, None, TRUE)
\* gaskv.Store and tracekv.Store refuse CacheWrap (panic); prefix, cachekv and dbadapter stores accept it
DoCacheWrapProbe ==
  /\ Live
  /\ LET refuses == n > 0 /\ stack[1].t \in {"gas", "trace"}
     IN Commit([G0 EXCEPT !.pan = IF refuses THEN "refused" ELSE ""], "ok", it)
  /\ act' = Lbl("CacheWrap", <<>>, <<>>, None, None, TRUE)

OptBounds == {None} \cup {Some(b) : b \in Bounds}

InitBase(s, present) ==
  LET P == FullPrefix(s) IN
  [k \in U |-> IF HasPrefix(k, P) /\ Strip(k, P) \in UserKeys
               THEN (IF Strip(k, P) \in present THEN Some(InitVal) ELSE None)
               ELSE Some(DecoyVal)]

Init ==
  /\ stack \in Stacks
  /\ meter0 \in Meters
  /\ (GasExactIn(stack) \/ (meter0.lim = -1 /\ meter0.room = -1))       \* a meter below a cache cannot be predicted: infinite
  /\ (\E j \in 1..Len(stack) : stack[j].t = "gas") \/ meter0 = CHOOSE x \in Meters : TRUE   \* no gas layer: meter irrelevant
  /\ \E present \in Inits : base = InitBase(stack, present)
  /\ base0 = BaseDump(base)
  /\ ov = [k \in AllKeys |-> NoEnt]
  /\ m = [c |-> 0, lim |-> meter0.lim, room |-> meter0.room]
  /\ it = NoIt
  /\ dead = FALSE
  /\ res = [r |-> "init", gas |-> 0, pan |-> "", tr |-> <<>>]
  /\ act = Lbl("Init", <<>>, <<>>, None, None, TRUE)
  /\ hist = <<>>

Ops ==
  \/ \E k \in UserKeys : DoGet(k) \/ DoHas(k) \/ DoDelete(k) \/ \E v \in Vals : DoSet(k, v)
  \/ \E st \in OptBounds, en \in OptBounds, asc \in BOOLEAN : DoIterAll(st, en, asc) \/ DoIterOpen(st, en, asc)
  \/ DoIterRead \/ DoIterNext \/ DoIterClose \/ DoFlush \/ DoCacheWrapProbe

Next == Ops /\ UNCHANGED hist
Spec == Init /\ [][Next]_vars

\* ---- simulation ---------------------------------------------------------------------------------------
SimClasses == <<"get", "has", "set", "set", "del", "all", "all", "open", "read", "read", "next", "next", "next", "close", "flush", "wrap">>
ClsEnabled(c) ==
  CASE c \in {"read", "close"} -> it.open
    [] c = "next" -> it.open /\ IValid(1, ItI)
    [] c \in {"open", "all"} -> ~it.open
    [] c = "flush" -> HasLayer("cache")
    [] OTHER -> TRUE
SimOps ==
  \E c0 \in {RandomElement(1..Len(SimClasses))} :
    LET c == IF ClsEnabled(SimClasses[c0]) THEN SimClasses[c0] ELSE "get" IN
    \/ c = "get" /\ \E k \in UserKeys : DoGet(k)
    \/ c = "has" /\ \E k \in UserKeys : DoHas(k)
    \/ c = "set" /\ \E k \in UserKeys, v \in Vals : DoSet(k, v)
    \/ c = "del" /\ \E k \in UserKeys : DoDelete(k)
    \/ c = "all" /\ \E st \in {RandomElement(OptBounds)}, en \in {RandomElement(OptBounds)}, asc \in BOOLEAN : DoIterAll(st, en, asc)
    \/ c = "open" /\ \E st \in {RandomElement(OptBounds)}, en \in {RandomElement(OptBounds)}, asc \in BOOLEAN : DoIterOpen(st, en, asc)
    \/ c = "read" /\ DoIterRead
    \/ c = "next" /\ DoIterNext
    \/ c = "close" /\ DoIterClose
    \/ c = "flush" /\ DoFlush
    \/ c = "wrap" /\ DoCacheWrapProbe
HInit == Init
HNext == /\ IF dead THEN (UNCHANGED sview /\ res' = res /\ act' = Lbl("End", <<>>, <<>>, None, None, TRUE)) ELSE SimOps
         /\ hist' = Append(hist, [a |-> act', o |-> res', b |-> BaseDump(base')])
HSpec == HInit /\ [][HNext]_vars
HistOut == (Len(hist) = HistLen) =>
              PrintT(<<"HIST", ToJson([stack |-> stack, meter |-> meter0, gx |-> GasExactIn(stack), tx |-> TraceExactIn(stack),
                                       init |-> base0, hist |-> hist])>>)
GasBound == m.c <= GasCap

\* ---- C16 as invariants / action properties ---------------------------------------------------------------
\* They restate the property in closed form, independently of the layer-by-layer transcription above.
P == FullPrefix(stack)
Inside(k) == HasPrefix(k, P)
PrefixAbove(i) == Concat(Rev(SubSeq(PrefixesOf(stack), 1, i - 1)))      \* what layers 1..i-1 prepend to a caller's key
HasL(s, t) == \E i \in 1..Len(s) : s[i].t = t
CacheKey(k) == PrefixAbove(LayerPos("cache")) \o k
\* what the caller must see: exactly the base keys that start with the prefix, stripped, overlaid by the cache
TopViewP(b, o, hc, pa, pp) == [k \in AllKeys |->
              IF hc /\ (pa \o k) \in AllKeys /\ o[pa \o k].d THEN o[pa \o k].v
              ELSE IF (pp \o k) \in U THEN b[pp \o k] ELSE None]
TopViewOf(b, o) ==     \* (prefixes bound once through a comprehension, see RangeItems)
  CHOOSE r \in {TopViewP(b, o, hc, pa, pp) : hc \in {HasLayer("cache")},
                                             pa \in {IF HasLayer("cache") THEN PrefixAbove(LayerPos("cache")) ELSE <<>>},
                                             pp \in {P}} : TRUE
TopView == TopViewOf(base, ov)

\* prefix isolation: nothing outside the prefix is ever written or shown; reads and iterations show TopView
Inv_PrefixIsolation ==
  /\ \A pp \in {P} : \A k \in U : ~HasPrefix(k, pp) => base[k] = Some(DecoyVal)
  /\ (act.op = "Get" /\ res.pan = "") => res.r = TopView[act.k]
  /\ (act.op = "Has" /\ res.pan = "") => res.r = (TopView[act.k] # None)
  /\ (act.op = "IterAll" /\ res.pan = "") => res.r = RangeItems(TopView, act.st, act.en, act.asc)
  /\ (act.op = "IterRead" /\ res.pan = "" /\ res.r # None) => TopView[res.r[1][1]] = Some(res.r[1][2])

\* results of gas-metered / traced stores equal the underlying store's: a Set/Delete that completes
\* changes exactly the one key; a panicking one changes nothing below the panicking layer
Act_Transparent ==
  /\ (act'.op = "Set" /\ res'.pan = "") => TopViewOf(base', ov') = [TopView EXCEPT ![act'.k] = Some(act'.v)]
  /\ (act'.op = "Delete" /\ res'.pan = "") => TopViewOf(base', ov') = [TopView EXCEPT ![act'.k] = None]
  /\ (act'.op \in {"Get", "Has", "IterAll", "IterOpen", "IterRead", "IterNext", "IterClose", "CacheWrap"}) => (base' = base /\ ov' = ov)
  /\ (act'.op = "Flush" /\ res'.pan = "") => (TopViewOf(base', ov') = TopView /\ \A k \in AllKeys : ~ov'[k].d)

\* an operation that runs out of gas (or overflows the meter) has not taken effect: every charge of
\* Set/Delete precedes the delegated write
Act_NoEffectOnGasPanic ==
  (res'.pan \in {"OutOfGas", "GasOverflow"}) => (base' = base /\ ov' = ov)

\* the documented gas function (closed form), for stacks where the meter sees the caller's operations
GasVisible == HasLayer("gas") /\ GasExactIn(stack)
ItemsCost(items) == IF items = <<>> THEN 0
                    ELSE (ReadCostPerByte * Len(items[1][2]) + IterNextCostFlat)
                         + LET f[j \in 0..Len(items)] == IF j = 0 THEN 0 ELSE f[j - 1] + ReadCostPerByte * Len(items[j][2]) + IterNextCostFlat
                           IN f[Len(items)]
NoPrefixAboveGas == \A j \in 1..(LayerPos("gas") - 1) : stack[j].t # "prefix"
\* [cost, charges]: total of the charges the operation makes when nothing panics, and whether it charges at all
DocCost(a, itemsBefore) ==
  CASE a.op = "Get" -> [cost |-> ReadCostFlat + ReadCostPerByte * OptLen(TopView[a.k]), n |-> 2]
    [] a.op = "Has" -> [cost |-> HasCost, n |-> 1]
    [] a.op = "Delete" -> [cost |-> DeleteCost, n |-> 1]
    [] a.op = "Set" -> [cost |-> WriteCostFlat + WriteCostPerByte * Len(a.v), n |-> 2]
    [] a.op = "IterAll" -> LET items == RangeItems(TopView, a.st, a.en, a.asc) IN [cost |-> ItemsCost(items), n |-> Len(items)]
    [] a.op = "IterOpen" -> LET items == RangeItems(TopView, a.st, a.en, a.asc)
                            IN [cost |-> IF items = <<>> THEN 0 ELSE ReadCostPerByte * Len(items[1][2]) + IterNextCostFlat, n |-> Len(items)]
    [] a.op = "IterNext" -> [cost |-> ReadCostPerByte * Len(itemsBefore[1][2]) + IterNextCostFlat, n |-> 1]
    [] OTHER -> [cost |-> 0, n |-> 0]
DocApplies(a) == a.op \in {"Get", "Has", "Delete", "Set", "IterRead", "IterClose", "CacheWrap"}
                 \/ (a.op \in {"IterAll", "IterOpen", "IterNext"} /\ NoPrefixAboveGas /\ ~HasLayer("cache"))
Act_GasExact ==
  (GasVisible /\ DocApplies(act') /\ res'.pan # "refused" /\ ~(m.lim # -1 /\ m.room # -1)) =>
     LET d == DocCost(act', it.rest)
         total == m.c + d.cost
     IN IF m.room # -1 /\ total > m.room THEN res'.pan = "GasOverflow"                  \* reported, never wrapped
        ELSE IF m.lim # -1 /\ d.n > 0 /\ total > m.lim THEN (res'.pan = "OutOfGas" /\ m'.c > m.lim /\ m'.c <= total)
        ELSE (res'.pan = "" /\ m'.c = total)                                            \* consumed = documented sum
\* without a visible gas layer nothing is charged and nothing panics
Inv_NoGasNoPanic == (~HasLayer("gas")) => (res.pan \in {"", "refused"} /\ m.c = 0)

\* faithful trace, for stacks where the trace layer sees the caller's operations
TraceVisible == HasLayer("trace") /\ TraceExactIn(stack)
TKey(k) == PrefixAbove(LayerPos("trace")) \o k
Inv_TraceFaithful ==
  /\ (~HasLayer("trace")) => res.tr = <<>>
  /\ TraceVisible =>
       /\ (act.op = "Get" /\ res.pan = "") => res.tr = <<<<"read", TKey(act.k), ValOrEmpty(res.r)>>>>
       /\ (act.op = "Set" /\ res.pan = "") => res.tr = <<<<"write", TKey(act.k), act.v>>>>
       /\ (act.op = "Delete" /\ res.pan = "") => res.tr = <<<<"delete", TKey(act.k), <<>>>>>>
       /\ (act.op \in {"Has", "IterClose", "CacheWrap"}) => res.tr = <<>>
       /\ (act.op = "IterRead" /\ res.pan = "" /\ res.r # None) =>
             res.tr = <<<<"iterKey", TKey(res.r[1][1]), <<>>>>, <<"iterValue", <<>>, res.r[1][2]>>>>
       /\ (act.op \in {"IterAll", "IterOpen", "IterNext", "IterRead"}) => \A j \in 1..Len(res.tr) : res.tr[j][1] \in {"iterKey", "iterValue"}
       /\ (act.op = "IterAll" /\ res.pan = "") =>            \* every item's key and value are recorded, first things first
             LET loggedK == {res.tr[j][2] : j \in {x \in 1..Len(res.tr) : res.tr[x][1] = "iterKey"}}
                 loggedV == {res.tr[j][3] : j \in {x \in 1..Len(res.tr) : res.tr[x][1] = "iterValue"}}
             IN /\ \A j \in 1..Len(res.r) : TKey(res.r[j][1]) \in loggedK /\ res.r[j][2] \in loggedV
                /\ Len(res.tr) >= 2 * Len(res.r)
                /\ res.r # <<>> => \E x \in 1..Len(res.tr) : res.tr[x] = <<"iterKey", TKey(res.r[1][1]), <<>>>>
                                                             /\ \A y \in 1..(x - 1) : res.tr[y][1] # "iterKey"
       /\ (act.op \in {"Get", "Has", "Set", "Delete"}) => Len(res.tr) <= 1

\* res/act are outside the VIEW and TLC evaluates INVARIANTS only on states whose view is new, so the
\* predicates over results are also checked on every transition (primed)
AProp == [][Act_Transparent /\ Act_GasExact /\ Act_NoEffectOnGasPanic /\ Inv_PrefixIsolation' /\ Inv_NoGasNoPanic' /\ Inv_TraceFaithful']_vars

\* ---- constants for the configurations ---------------------------------------------------------------------
Lp(p) == [t |-> "prefix", p |-> p]
Lg == [t |-> "gas", p |-> <<>>]
Lt == [t |-> "trace", p |-> <<>>]
Lc == [t |-> "cache", p |-> <<>>]
PrefixStacks == {<<Lp(<<1>>)>>, <<Lp(<<255>>)>>, <<Lp(<<255, 255>>)>>, <<Lp(<<1, 255>>)>>, <<Lp(<<>>)>>,
                 <<Lp(<<255>>), Lp(<<1>>)>>}                     \* nested: full prefix <<1, 255>>
GasStacks == {<<Lg>>, <<Lg, Lp(<<1, 255>>)>>, <<Lp(<<255>>), Lg>>}
TraceStacks == {<<Lt>>, <<Lt, Lp(<<255>>)>>, <<Lp(<<1, 255>>), Lt>>}
MixedStacks == {<<Lg, Lt>>, <<Lt, Lg>>, <<Lp(<<1>>), Lg, Lt>>, <<Lg, Lp(<<255, 255>>), Lt>>,
                <<Lp(<<1, 255>>), Lg, Lc>>,                      \* Subspace style: prefix over ctx.KVStore (gas over cache)
                <<Lp(<<255>>), Lg, Lc, Lt>>,                     \* the same with CacheWrapWithTrace underneath
                <<Lg, Lc, Lp(<<1>>)>>, <<Lc>>, <<Lc, Lp(<<255>>)>>, <<Lc, Lt>>, <<Lc, Lg>>, <<Lt, Lg, Lc>>, <<>>}
AllStacks == PrefixStacks \cup GasStacks \cup TraceStacks \cup MixedStacks
QuickStacks == {<<Lp(<<255>>)>>, <<Lp(<<1, 255>>)>>, <<Lp(<<255, 255>>)>>}
QuickGasStacks == {<<Lg>>, <<Lt>>, <<Lp(<<255, 255>>), Lg, Lt>>, <<Lp(<<1, 255>>), Lg, Lc>>}
UK2 == {<<0>>, <<255>>}
Inits2 == {{}, UK2}
NoMeter == [kind |-> "inf", lim |-> -1, room |-> -1]
MetersSmall == {NoMeter, [kind |-> "basic", lim |-> 3005, room |-> -1], [kind |-> "basic", lim |-> 3006, room |-> -1],
                [kind |-> "basic", lim |-> 2059, room |-> -1], [kind |-> "basic", lim |-> 2060, room |-> -1],
                [kind |-> "basic", lim |-> 999, room |-> -1], [kind |-> "basic", lim |-> 0, room |-> -1],
                [kind |-> "inf", lim |-> -1, room |-> 3005], [kind |-> "basic", lim |-> -1, room |-> 2059],
                [kind |-> "basic", lim |-> 2000, room |-> 2500]}
UK == {<<>>, <<0>>, <<255>>}
Bnd == {<<>>, <<0>>, <<0, 0>>, <<255>>, <<255, 255>>}
Bnd4 == {<<>>, <<0>>, <<255>>, <<255, 255>>}
BndSmall == {<<0>>, <<255>>}
V2 == {<<>>, <<98, 98>>}
InitsAll == SUBSET UK
InitsFew == {{}, UK, {<<0>>}}
V3 == {<<>>, <<98, 98>>, <<99>>}
IsoStacks == PrefixStacks \cup {<<>>, <<Lc>>, <<Lc, Lp(<<255>>)>>, <<Lp(<<255, 255>>), Lc>>}
TraceMixedStacks == TraceStacks \cup MixedStacks
MetersNone == {NoMeter}
MetersM == {NoMeter, [kind |-> "basic", lim |-> 2059, room |-> -1], [kind |-> "inf", lim |-> -1, room |-> 2059]}
Inits1 == {UK2}
IsoItStacks == QuickStacks \cup {<<Lp(<<255>>), Lp(<<1>>)>>, <<Lc, Lp(<<255>>)>>}
MetersQ == {NoMeter, [kind |-> "basic", lim |-> 2059, room |-> -1], [kind |-> "basic", lim |-> 2060, room |-> -1],
            [kind |-> "basic", lim |-> 1000, room |-> -1], [kind |-> "inf", lim |-> -1, room |-> 2059]}
=============================================================================
