// Package storelib holds what storedrv needs to drive the real rootmulti/iavl/transient stores:
// crashdb (a dbm.DB that numbers, logs and can interrupt every durable write) and the
// executor/projection used by all driver modes.
package storelib

import (
	"encoding/hex"
	"fmt"
	"strconv"
	"strings"
	"sync"

	dbm "github.com/tendermint/tm-db"
)

// Crash is the sentinel crashdb panics with when the write counter reaches CrashAt.
type Crash struct{ K int }

// Op is one key operation inside a durable write.
type Op struct {
	Del bool
	Key []byte
}

// Write is one durable (atomic) write: a single Set/Delete or a whole batch.
type Write struct {
	N     int    // 1-based number since the last ResetLog
	Kind  string // set | delete | batch
	Sync  bool
	Ops   []Op
	Class string // save:<store>:<v> | prune:<store>:<v> | flush:<v> | other:<...> | empty
}

// CrashDB wraps a dbm.DB. Every durable write (Set, SetSync, Delete, DeleteSync, Batch.Write,
// Batch.WriteSync; a batch is ONE atomic write) is numbered and logged. When CrashAt = k > 0 the
// k-th write is NOT applied: the wrapper panics with Crash{k}; the inner DB then holds exactly the
// durable state "just before write k".
type CrashDB struct {
	Inner   dbm.DB
	mu      sync.Mutex
	n       int
	CrashAt int
	Log     []Write
	dead    bool
}

var _ dbm.DB = (*CrashDB)(nil)

func NewCrashDB(inner dbm.DB) *CrashDB { return &CrashDB{Inner: inner} }

// ResetLog starts a new numbering (called right before a Commit).
func (c *CrashDB) ResetLog() {
	c.mu.Lock()
	defer c.mu.Unlock()
	c.n = 0
	c.Log = nil
}

func (c *CrashDB) Count() int { return c.n }

func (c *CrashDB) durable(kind string, sync bool, ops []Op, apply func()) {
	c.mu.Lock()
	if c.dead {
		c.mu.Unlock()
		panic("crashdb: write after crash")
	}
	c.n++
	k := c.n
	if c.CrashAt > 0 && k == c.CrashAt {
		c.dead = true
		c.mu.Unlock()
		panic(Crash{K: k})
	}
	w := Write{N: k, Kind: kind, Sync: sync, Ops: ops}
	w.Class = Classify(ops)
	c.Log = append(c.Log, w)
	c.mu.Unlock()
	apply()
}

func cp(b []byte) []byte { return append([]byte{}, b...) }

func (c *CrashDB) Get(k []byte) []byte { return c.Inner.Get(k) }
func (c *CrashDB) Has(k []byte) bool   { return c.Inner.Has(k) }
func (c *CrashDB) Set(k, v []byte) {
	c.durable("set", false, []Op{{Key: cp(k)}}, func() { c.Inner.Set(k, v) })
}
func (c *CrashDB) SetSync(k, v []byte) {
	c.durable("set", true, []Op{{Key: cp(k)}}, func() { c.Inner.SetSync(k, v) })
}
func (c *CrashDB) Delete(k []byte) {
	c.durable("delete", false, []Op{{Del: true, Key: cp(k)}}, func() { c.Inner.Delete(k) })
}
func (c *CrashDB) DeleteSync(k []byte) {
	c.durable("delete", true, []Op{{Del: true, Key: cp(k)}}, func() { c.Inner.DeleteSync(k) })
}
func (c *CrashDB) Iterator(s, e []byte) dbm.Iterator        { return c.Inner.Iterator(s, e) }
func (c *CrashDB) ReverseIterator(s, e []byte) dbm.Iterator { return c.Inner.ReverseIterator(s, e) }
func (c *CrashDB) Close()                                   {}
func (c *CrashDB) Print()                                   { c.Inner.Print() }
func (c *CrashDB) Stats() map[string]string                 { return c.Inner.Stats() }
func (c *CrashDB) NewBatch() dbm.Batch                      { return &crashBatch{db: c, inner: c.Inner.NewBatch()} }

type crashBatch struct {
	db    *CrashDB
	inner dbm.Batch
	ops   []Op
}

func (b *crashBatch) Set(k, v []byte) {
	b.ops = append(b.ops, Op{Key: cp(k)})
	b.inner.Set(k, v)
}
func (b *crashBatch) Delete(k []byte) {
	b.ops = append(b.ops, Op{Del: true, Key: cp(k)})
	b.inner.Delete(k)
}
func (b *crashBatch) Write() {
	b.db.durable("batch", false, b.ops, func() { b.inner.Write() })
}
func (b *crashBatch) WriteSync() {
	b.db.durable("batch", true, b.ops, func() { b.inner.WriteSync() })
}
func (b *crashBatch) Close() { b.inner.Close() }

// Classify names a durable write by the keys it touches (layout: rootmulti keeps "s/latest" and
// "s/<version>"; every IAVL store lives under "s/k:<name>/" with nodedb keys r<version:8> (root),
// n<hash> (node), o<to:8><from:8><hash> (orphan)).
func Classify(ops []Op) string {
	if len(ops) == 0 {
		return "empty"
	}
	var latest bool
	var cinfo []string
	stores := map[string]bool{}
	var savedRoots, deletedRoots []string
	other := 0
	for _, op := range ops {
		k := string(op.Key)
		switch {
		case k == "s/latest":
			latest = !op.Del
		case strings.HasPrefix(k, "s/k:"):
			rest := k[len("s/k:"):]
			i := strings.IndexByte(rest, '/')
			if i < 0 {
				other++
				continue
			}
			name, sub := rest[:i], rest[i+1:]
			stores[name] = true
			if len(sub) == 9 && sub[0] == 'r' {
				var v int64
				for _, c := range []byte(sub[1:]) {
					v = v<<8 | int64(c)
				}
				if op.Del {
					deletedRoots = append(deletedRoots, name+":"+strconv.FormatInt(v, 10))
				} else {
					savedRoots = append(savedRoots, name+":"+strconv.FormatInt(v, 10))
				}
			}
		case strings.HasPrefix(k, "s/"):
			if _, err := strconv.ParseInt(k[2:], 10, 64); err == nil && !op.Del {
				cinfo = append(cinfo, k[2:])
			} else {
				other++
			}
		default:
			other++
		}
	}
	var parts []string
	if latest || len(cinfo) > 0 {
		// "flush:<v>" only when it is the one batch with both keys; otherwise spell out what is there
		if latest && len(cinfo) == 1 && len(stores) == 0 && other == 0 {
			return "flush:" + cinfo[0]
		}
		if latest {
			parts = append(parts, "latest")
		}
		for _, c := range cinfo {
			parts = append(parts, "cinfo:"+c)
		}
	}
	for _, r := range savedRoots {
		parts = append(parts, "save:"+r)
	}
	for _, r := range deletedRoots {
		parts = append(parts, "prune:"+r)
	}
	if len(parts) == 0 {
		names := []string{}
		for n := range stores {
			names = append(names, n)
		}
		return fmt.Sprintf("other:%v:%d", names, len(ops))
	}
	return strings.Join(parts, "+")
}

// KeyPrefixes renders the key prefixes of a write for logs.
func (w Write) KeyPrefixes() []string {
	seen := map[string]bool{}
	var out []string
	for _, op := range w.Ops {
		k := op.Key
		p := ""
		s := string(k)
		if strings.HasPrefix(s, "s/k:") {
			if i := strings.IndexByte(s[4:], '/'); i >= 0 && len(s) > 4+i+1 {
				p = s[:4+i+1] + string(s[4+i+1])
			} else {
				p = s
			}
		} else if len(k) < 24 {
			p = s
		} else {
			p = hex.EncodeToString(k[:8])
		}
		if op.Del {
			p = "-" + p
		}
		if !seen[p] {
			seen[p] = true
			out = append(out, p)
		}
	}
	return out
}

// SnapshotMem copies the whole content of db into a fresh MemDB.
func SnapshotMem(db dbm.DB) *dbm.MemDB {
	m := dbm.NewMemDB()
	it := db.Iterator(nil, nil)
	defer it.Close()
	for ; it.Valid(); it.Next() {
		m.Set(cp(it.Key()), cp(it.Value()))
	}
	return m
}

// CopyInto copies the whole content of src into dst (dst is expected to be empty).
func CopyInto(src, dst dbm.DB) {
	it := src.Iterator(nil, nil)
	defer it.Close()
	b := dst.NewBatch()
	for ; it.Valid(); it.Next() {
		b.Set(cp(it.Key()), cp(it.Value()))
	}
	b.Write()
	b.Close()
}
