package storelib

import (
	"encoding/hex"
	"fmt"
	"io/ioutil"
	"os"
	"sort"
	"strings"

	abci "github.com/tendermint/tendermint/abci/types"
	"github.com/tendermint/tendermint/crypto/merkle"
	"github.com/tendermint/tendermint/libs/log"
	dbm "github.com/tendermint/tm-db"

	bam "github.com/pokt-network/posmint/baseapp"
	"github.com/pokt-network/posmint/codec"
	"github.com/pokt-network/posmint/store"
	"github.com/pokt-network/posmint/store/rootmulti"
	"github.com/pokt-network/posmint/store/types"
)

// Cfg is the configuration of one store "machine".
type Cfg struct {
	Stores    []string `json:"stores"`    // names of the IAVL stores
	Transient string   `json:"transient"` // name of the transient store ("" = none)
	KR        int64    `json:"kr"`        // PruningOptions.keepRecent
	KE        int64    `json:"ke"`        // PruningOptions.keepEvery
	Backend   string   `json:"backend"`   // memdb | goleveldb
	Lazy      bool     `json:"lazy"`      // rootmulti.SetLazyLoading (the applications never set it)
	// SPAL: call SetPruning on the live store AFTER LoadVersion instead of before it (baseapp's
	// SetPruning option runs before the stores are loaded, other callers configure a loaded store)
	SPAL bool `json:"spal"`
	// Strat: when set, the pruning options are NOT (KR, KE) but whatever the real
	// store.NewPruningOptionsFromString makes of this strategy string (the empty string is a
	// strategy string too, hence the pointer); KR / KE are then ignored.
	Strat *string `json:"strat,omitempty"`
	// Palette: the specification's keys are opaque NAMES ("a", "ab", "b", ...); the bytes the real
	// stores see are obtained letter by letter through this map (letter -> hex of its image; letters
	// without an entry stand for themselves).  The images are prefix-free, so the map is injective and
	// preserves the prefix relation between names; everything reported back is translated to names.
	Palette map[string]string `json:"palette,omitempty"`
}

// Conc: key name -> the bytes handed to the stores.
func (c Cfg) Conc(name string) []byte {
	if len(c.Palette) == 0 {
		return []byte(name)
	}
	out := []byte{}
	for i := 0; i < len(name); i++ {
		if h, ok := c.Palette[name[i:i+1]]; ok {
			b, err := hex.DecodeString(h)
			if err != nil {
				panic("bad palette entry " + h)
			}
			out = append(out, b...)
		} else {
			out = append(out, name[i])
		}
	}
	return out
}

// Name: bytes seen in a store -> key name (inverse of Conc; bytes that are nobody's image are
// rendered as "?<hex>").
func (c Cfg) Name(b []byte) string {
	if len(c.Palette) == 0 {
		return string(b)
	}
	out := ""
	for i := 0; i < len(b); {
		hit := false
		for l, h := range c.Palette {
			img, _ := hex.DecodeString(h)
			if len(img) > 0 && len(b)-i >= len(img) && string(b[i:i+len(img)]) == string(img) {
				out += l
				i += len(img)
				hit = true
				break
			}
		}
		if hit {
			continue
		}
		if _, isLetter := c.Palette[string(b[i:i+1])]; isLetter || b[i] < 0x20 || b[i] > 0x7e {
			return "?" + hex.EncodeToString(b)
		}
		out += string(b[i : i+1])
		i++
	}
	return out
}

func (c Cfg) names(m map[string]string) map[string]string {
	if len(c.Palette) == 0 {
		return m
	}
	out := map[string]string{}
	for k, v := range m {
		out[c.Name([]byte(k))] = v
	}
	return out
}

// Pruning returns the options the stores of this machine are configured with.
func (c Cfg) Pruning() types.PruningOptions {
	if c.Strat != nil {
		return store.NewPruningOptionsFromString(*c.Strat)
	}
	return types.NewPruningOptions(c.KR, c.KE)
}

// WOp is one write of a block.
type WOp struct {
	S   string `json:"s"`
	K   string `json:"k"`
	V   string `json:"v,omitempty"`
	Del bool   `json:"del,omitempty"`
}

type M = map[string]interface{}

// Handle is a live rootmulti.Store with its keys.
type Handle struct {
	MS   *rootmulti.Store
	Keys map[string]types.StoreKey
	Cfg  Cfg
}

func catch(f func()) (perr string, crash *Crash) {
	defer func() {
		if r := recover(); r != nil {
			if c, ok := r.(Crash); ok {
				crash = &c
				return
			}
			perr = fmt.Sprintf("panic: %v", r)
			if perr == "" {
				perr = "panic"
			}
		}
	}()
	f()
	return
}

// Open builds a fresh rootmulti.Store over db and loads version ver (-1 = LoadLatestVersion).
func Open(db dbm.DB, cfg Cfg, ver int64) (h *Handle, errs string) {
	ms := rootmulti.NewStore(db)
	if !cfg.SPAL {
		ms.SetPruning(cfg.Pruning())
	}
	ms.SetLazyLoading(cfg.Lazy)
	keys := map[string]types.StoreKey{}
	for _, n := range cfg.Stores {
		k := types.NewKVStoreKey(n)
		keys[n] = k
		ms.MountStoreWithDB(k, types.StoreTypeIAVL, nil)
	}
	if cfg.Transient != "" {
		k := types.NewTransientStoreKey(cfg.Transient)
		keys[cfg.Transient] = k
		ms.MountStoreWithDB(k, types.StoreTypeTransient, nil)
	}
	var err error
	perr, _ := catch(func() {
		if ver < 0 {
			err = ms.LoadLatestVersion()
		} else {
			err = ms.LoadVersion(ver)
		}
	})
	if perr != "" {
		return nil, perr
	}
	if err != nil {
		return nil, "error: " + err.Error()
	}
	if cfg.SPAL {
		if perr, _ := catch(func() { ms.SetPruning(cfg.Pruning()) }); perr != "" {
			return nil, perr
		}
	}
	return &Handle{MS: ms, Keys: keys, Cfg: cfg}, ""
}

// iterate returns the full ascending content of a KVStore; a panic while iterating is reported.
func iterate(kv types.KVStore) (m map[string]string, perr string) {
	m = map[string]string{}
	perr, _ = catch(func() {
		it := kv.Iterator(nil, nil)
		defer it.Close()
		var last []byte
		first := true
		for ; it.Valid(); it.Next() {
			k := it.Key()
			if !first && string(last) >= string(k) {
				panic(fmt.Sprintf("iterator not strictly ascending: %q then %q", last, k))
			}
			first = false
			last = append([]byte{}, k...)
			m[string(k)] = string(it.Value())
		}
	})
	return
}

// Content projects every mounted store of the handle (IAVL stores under "stores", transient
// under "trans").
func (h *Handle) Content() (stores M, trans M, perr string) {
	stores, trans = M{}, nil
	for _, n := range h.Cfg.Stores {
		m, e := iterate(h.MS.GetKVStore(h.Keys[n]))
		if e != "" {
			perr = n + ": " + e
			stores[n] = M{"!panic": e}
			continue
		}
		// cross-check Get/Has against the iteration
		kv := h.MS.GetKVStore(h.Keys[n])
		for k, v := range m {
			if string(kv.Get([]byte(k))) != v || !kv.Has([]byte(k)) {
				perr = fmt.Sprintf("%s: Get/Has disagree with iteration on %q", n, k)
			}
		}
		stores[n] = h.Cfg.names(m)
	}
	if h.Cfg.Transient != "" {
		m, e := iterate(h.MS.GetKVStore(h.Keys[h.Cfg.Transient]))
		if e != "" {
			perr = h.Cfg.Transient + ": " + e
		}
		trans = M{}
		for k, v := range h.Cfg.names(m) {
			trans[k] = v
		}
	}
	return
}

func (h *Handle) State() M {
	id := h.MS.LastCommitID()
	st, tr, perr := h.Content()
	m := M{"ver": id.Version, "hash": hex.EncodeToString(id.Hash), "stores": st}
	if tr != nil {
		m["trans"] = tr
	}
	if perr != "" {
		m["perr"] = perr
	}
	return m
}

func (h *Handle) Apply(w WOp) string {
	perr, _ := catch(func() {
		kv := h.MS.GetKVStore(h.Keys[w.S])
		if w.Del {
			kv.Delete(h.Cfg.Conc(w.K))
		} else {
			kv.Set(h.Cfg.Conc(w.K), []byte(w.V))
		}
	})
	return perr
}

// LiveLoad calls LoadVersion(v) on the LIVE handle and reports the outcome together with the
// handle's projected state before ("pre") and after the call.
func (h *Handle) LiveLoad(v int64) M {
	pre := h.State()
	var err error
	perr, _ := catch(func() { err = h.MS.LoadVersion(v) })
	out := h.State()
	out["pre"] = pre
	switch {
	case perr != "":
		out["ok"] = false
		out["err"] = perr
		out["panic"] = true
	case err != nil:
		out["ok"] = false
		out["err"] = "error: " + err.Error()
	default:
		out["ok"] = true
	}
	return out
}

// Commit runs the real Commit; a crashdb interruption comes back as crash != nil.
func (h *Handle) Commit() (id types.CommitID, perr string, crash *Crash) {
	perr, crash = catch(func() { id = h.MS.Commit() })
	return
}

// ------------------------------------------------------------------------------------------------

// Node is one machine: a durable DB, possibly a live handle, the writes of the running block and
// the hashes the uninterrupted line of execution returned.
type Node struct {
	Cfg     Cfg
	Raw     dbm.DB // backend
	DB      *CrashDB
	H       *Handle
	Pending []WOp
	Hashes  map[int64]string // version -> hash returned by Commit on the main line
	dir     string
}

func NewNode(cfg Cfg) (*Node, error) {
	n := &Node{Cfg: cfg, Hashes: map[int64]string{}}
	switch cfg.Backend {
	case "", "memdb":
		n.Raw = dbm.NewMemDB()
	case "goleveldb":
		d, err := ioutil.TempDir("", "storedrv-ldb-")
		if err != nil {
			return nil, err
		}
		n.dir = d
		db, err := dbm.NewGoLevelDB("st", d)
		if err != nil {
			return nil, err
		}
		n.Raw = db
	default:
		return nil, fmt.Errorf("unknown backend %q", cfg.Backend)
	}
	n.DB = NewCrashDB(n.Raw)
	return n, nil
}

func (n *Node) Close() {
	if n.Raw != nil {
		n.Raw.Close()
	}
	if n.dir != "" {
		os.RemoveAll(n.dir)
	}
}

// Reopen throws the live handle away (volatile state is lost) and builds a fresh one over the
// durable DB; with GoLevelDB the database itself is closed and opened again.
func (n *Node) Reopen() M {
	n.H = nil
	n.Pending = nil
	if n.Cfg.Backend == "goleveldb" {
		n.Raw.Close()
		db, err := dbm.NewGoLevelDB("st", n.dir)
		if err != nil {
			return M{"ok": false, "err": "tool: reopen goleveldb: " + err.Error()}
		}
		n.Raw = db
	}
	n.DB = NewCrashDB(n.Raw)
	h, errs := Open(n.DB, n.Cfg, -1)
	if errs != "" {
		return M{"ok": false, "err": errs}
	}
	n.H = h
	m := h.State()
	m["ok"] = true
	return m
}

// ReplaceDurable makes snapshot the durable state of the node (used after a simulated crash).
func (n *Node) ReplaceDurable(snap *dbm.MemDB) error {
	n.H = nil
	if n.Cfg.Backend == "goleveldb" {
		n.Raw.Close()
		os.RemoveAll(n.dir)
		d, err := ioutil.TempDir("", "storedrv-ldb-")
		if err != nil {
			return err
		}
		n.dir = d
		db, err := dbm.NewGoLevelDB("st", d)
		if err != nil {
			return err
		}
		CopyInto(snap, db)
		n.Raw = db
	} else {
		n.Raw = snap
	}
	n.DB = NewCrashDB(n.Raw)
	return nil
}

func classes(log []Write) []string {
	out := make([]string, 0, len(log))
	for _, w := range log {
		out = append(out, w.Class)
	}
	return out
}

func writeLog(log []Write) []M {
	out := []M{}
	for _, w := range log {
		out = append(out, M{"n": w.N, "kind": w.Kind, "sync": w.Sync, "class": w.Class, "nops": len(w.Ops), "keys": w.KeyPrefixes()})
	}
	return out
}

// LoadFresh opens a fresh handle over a COPY of the durable state at version v and projects it.
func LoadFresh(db dbm.DB, cfg Cfg, v int64) M {
	h, errs := Open(NewCrashDB(SnapshotMem(db)), cfg, v)
	if errs != "" {
		return M{"ok": false, "err": errs}
	}
	m := h.State()
	delete(m, "trans")
	if pe, ok := m["perr"]; ok {
		// the version "loaded" but its content cannot be read: unreadable, not data
		return M{"ok": false, "err": fmt.Sprintf("loaded but unreadable: %v", pe), "lazyfail": true}
	}
	m["ok"] = true
	return m
}

// VersionedView reads version v through CacheMultiStoreWithVersion on the live handle.
func (h *Handle) VersionedView(v int64) M {
	var out M
	perr, _ := catch(func() {
		cms, err := h.MS.CacheMultiStoreWithVersion(v)
		if err != nil {
			out = M{"ok": false, "err": err.Error()}
			return
		}
		st := M{}
		for _, n := range h.Cfg.Stores {
			m, e := iterate(cms.GetKVStore(h.Keys[n]))
			if e != "" {
				out = M{"ok": false, "err": "unreadable: " + e}
				return
			}
			st[n] = h.Cfg.names(m)
		}
		out = M{"ok": true, "stores": st}
	})
	if perr != "" {
		return M{"ok": false, "err": perr}
	}
	return out
}

func keyPath(store string, key []byte) string {
	kp := merkle.KeyPath{}
	kp = kp.AppendKey([]byte(store), merkle.KeyEncodingHex)
	kp = kp.AppendKey(key, merkle.KeyEncodingHex)
	return kp.String()
}

// Query runs the real rootmulti Query (via = "ms") or BaseApp.Query on a BaseApp freshly opened
// over the same durable DB (via = "app"), and lets the real proof runtime judge the proof
// against every known root hash.
func Query(h *Handle, db dbm.DB, cfg Cfg, via, store, key string, height int64, prove bool, hashes map[int64]string) M {
	kb := cfg.Conc(key)
	res, perr := rawQuery(h, db, cfg, via, store, "key", kb, height, prove)
	if perr != "" {
		return M{"panic": perr}
	}
	return judgeQuery(res, store, kb, hashes)
}

// Subspace runs a "/<store>/subspace" query for the prefix named `prefix` and decodes the answer:
// "answered" (a value came back), "kv" (the pairs in the order returned, keys as names), "sorted"
// (strictly ascending in the real byte order).
func Subspace(h *Handle, db dbm.DB, cfg Cfg, via, store, prefix string, height int64) M {
	res, perr := rawQuery(h, db, cfg, via, store, "subspace", cfg.Conc(prefix), height, false)
	if perr != "" {
		return M{"panic": perr}
	}
	out := M{"code": res.Code, "height": res.Height, "log": res.Log, "answered": res.Value != nil}
	kv := [][]string{}
	sorted := true
	if res.Value != nil {
		var pairs []types.KVPair
		if e, _ := catch(func() { codec.New().MustUnmarshalBinaryLengthPrefixed(res.Value, &pairs) }); e != "" {
			out["decode_error"] = e
			out["answered"] = false
		}
		for i, p := range pairs {
			if i > 0 && string(pairs[i-1].Key) >= string(p.Key) {
				sorted = false
			}
			kv = append(kv, []string{cfg.Name(p.Key), string(p.Value)})
		}
	}
	out["kv"] = kv
	out["sorted"] = sorted
	return out
}

func rawQuery(h *Handle, db dbm.DB, cfg Cfg, via, store, sub string, kb []byte, height int64, prove bool) (res abci.ResponseQuery, perr string) {
	perr, _ = catch(func() {
		switch via {
		case "app":
			app := bam.NewBaseApp("q", log.NewNopLogger(), db, nil)
			app.Store().SetPruning(cfg.Pruning())
			var main *types.KVStoreKey
			for _, n := range cfg.Stores {
				k := types.NewKVStoreKey(n)
				if main == nil {
					main = k
				}
				app.MountStore(k, types.StoreTypeIAVL)
			}
			if cfg.Transient != "" {
				app.MountStore(types.NewTransientStoreKey(cfg.Transient), types.StoreTypeTransient)
			}
			if err := app.LoadLatestVersion(main); err != nil {
				panic("baseapp load: " + err.Error())
			}
			res = app.Query(abci.RequestQuery{Path: "/store/" + store + "/" + sub, Data: kb, Height: height, Prove: prove})
		default:
			res = h.MS.Query(abci.RequestQuery{Path: "/" + store + "/" + sub, Data: kb, Height: height, Prove: prove})
		}
	})
	return
}

func judgeQuery(res abci.ResponseQuery, store string, kb []byte, hashes map[int64]string) M {
	out := M{"code": res.Code, "height": res.Height, "log": res.Log}
	if res.Value != nil {
		out["value"] = string(res.Value)
	} else {
		out["value"] = nil
	}
	nops := 0
	if res.Proof != nil {
		nops = len(res.Proof.Ops)
	}
	out["nops"] = nops
	if nops > 0 {
		prt := rootmulti.DefaultProofRuntime()
		kp := keyPath(store, kb)
		var ok []int64
		vers := make([]int64, 0, len(hashes))
		for v := range hashes {
			vers = append(vers, v)
		}
		sort.Slice(vers, func(i, j int) bool { return vers[i] < vers[j] })
		for _, v := range vers {
			root, _ := hex.DecodeString(hashes[v])
			var err error
			pe, _ := catch(func() {
				if res.Value != nil {
					err = prt.VerifyValue(res.Proof, root, kp, res.Value)
				} else {
					err = prt.VerifyAbsence(res.Proof, root, kp)
				}
			})
			if pe == "" && err == nil {
				ok = append(ok, v)
			} else if v == res.Height {
				if pe != "" {
					out["verr"] = pe
				} else {
					out["verr"] = err.Error()
				}
			}
		}
		if ok == nil {
			ok = []int64{}
		}
		out["verifies"] = ok
		// the proof must not prove anything else: another value, or absence/presence flipped
		bad := []string{}
		root, have := hashes[res.Height]
		if have {
			rb, _ := hex.DecodeString(root)
			pe, _ := catch(func() {
				if res.Value != nil {
					if prt.VerifyValue(res.Proof, rb, kp, append([]byte("not-"), res.Value...)) == nil {
						bad = append(bad, "other-value")
					}
					if prt.VerifyAbsence(res.Proof, rb, kp) == nil {
						bad = append(bad, "absence-of-present")
					}
				} else {
					if prt.VerifyValue(res.Proof, rb, kp, []byte("x")) == nil {
						bad = append(bad, "value-of-absent")
					}
				}
				if prt.VerifyValue(res.Proof, rb, keyPath(store, append(append([]byte{}, kb...), '~')), res.Value) == nil && res.Value != nil {
					bad = append(bad, "other-key")
				}
			})
			if pe != "" && !strings.Contains(pe, "panic") {
				bad = append(bad, pe)
			}
		}
		out["forged"] = bad
	}
	return out
}
