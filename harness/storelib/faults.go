package storelib

import (
	"encoding/hex"

	dbm "github.com/tendermint/tm-db"
)

// CrashRun re-executes "the running block" (pending) on a fresh handle over a copy of the
// pre-commit durable state pre and interrupts the Commit before durable write k (k = 0: no
// interruption). It returns the durable state left behind, the writes done, the interrupted write
// class ("end" when the commit completed) and the commit id if it completed.
type CrashResult struct {
	Durable   *dbm.MemDB
	Done      []string
	Log       []Write
	Next      string
	Completed bool
	Ver       int64
	Hash      string
	Err       string // anything that went wrong before the crash point (reported, never judged here)
	// Panic: the real Commit itself panicked before the crash point was reached (real-code
	// behaviour, as opposed to Err = the experiment could not be set up)
	Panic string
}

func CrashRun(pre *dbm.MemDB, cfg Cfg, pending []WOp, k int) CrashResult {
	mem := SnapshotMem(pre)
	cdb := NewCrashDB(mem)
	h, errs := Open(cdb, cfg, -1)
	if errs != "" {
		return CrashResult{Durable: mem, Err: "open: " + errs}
	}
	for _, w := range pending {
		if e := h.Apply(w); e != "" {
			return CrashResult{Durable: mem, Err: "apply: " + e}
		}
	}
	cdb.ResetLog()
	cdb.CrashAt = k
	id, perr, crash := h.Commit()
	r := CrashResult{Durable: mem, Done: classes(cdb.Log), Log: cdb.Log}
	switch {
	case crash != nil:
		r.Next = "?"
	case perr != "":
		r.Panic = "commit: " + perr
	default:
		r.Completed = true
		r.Next = "end"
		r.Ver = id.Version
		r.Hash = hex.EncodeToString(id.Hash)
	}
	return r
}

// Recover reopens a fresh handle over a copy of the durable state left by a crash, projects
// it, tries every version, re-executes the interrupted block if the store came back at the
// pre-commit version, and reports everything. No judgement is made here.
func Recover(durable *dbm.MemDB, cfg Cfg, pending []WOp, preVer int64, maxVer int64, withLoads bool) M {
	out := M{}
	mem := SnapshotMem(durable)
	cdb := NewCrashDB(mem)
	h, errs := Open(cdb, cfg, -1)
	if errs != "" {
		out["reopen"] = M{"ok": false, "err": errs}
		return out
	}
	st := h.State()
	st["ok"] = true
	out["reopen"] = st
	if withLoads {
		loads := M{}
		for v := int64(1); v <= maxVer; v++ {
			loads[itoa(v)] = LoadFresh(durable, cfg, v)
		}
		out["loads"] = loads
	}
	ver := h.MS.LastCommitID().Version
	if ver == preVer {
		re := M{}
		bad := ""
		for _, w := range pending {
			if e := h.Apply(w); e != "" {
				bad = "apply: " + e
				break
			}
		}
		if bad == "" {
			cdb.ResetLog()
			id, perr, _ := h.Commit()
			if perr != "" {
				bad = "commit: " + perr
			} else {
				re = h.State()
				re["ver"] = id.Version
				re["hash"] = hex.EncodeToString(id.Hash)
				re["writes"] = classes(cdb.Log)
				// and the re-executed commit must itself be durable
				re["after"] = LoadFresh(mem, cfg, -1)
			}
		}
		if bad != "" {
			re = M{"ok": false, "err": bad}
		} else {
			re["ok"] = true
		}
		out["reexec"] = re
	} else {
		out["reexec"] = M{"ok": true, "skipped": true, "ver": ver, "hash": st["hash"], "stores": st["stores"]}
	}
	return out
}

func itoa(v int64) string {
	neg := v < 0
	if neg {
		v = -v
	}
	if v == 0 {
		return "0"
	}
	b := []byte{}
	for v > 0 {
		b = append([]byte{byte('0' + v%10)}, b...)
		v /= 10
	}
	if neg {
		b = append([]byte{'-'}, b...)
	}
	return string(b)
}

// Faults enumerates every crash point of the commit of `pending` on top of `pre`: k = 1..W+1
// (W+1 = right after the last write). tries > 1 repeats each k so that different sub-store orders
// (Go map iteration) get a chance.
func Faults(pre *dbm.MemDB, cfg Cfg, pending []WOp, preVer int64, withLoads bool, tries int) []M {
	var out []M
	seen := map[string]bool{}
	for k := 1; ; k++ {
		last := false
		for t := 0; t < tries; t++ {
			r := CrashRun(pre, cfg, pending, k)
			if r.Completed {
				last = true
			}
			key := itoa(int64(k)) + "|" + join(r.Done)
			if seen[key] {
				continue
			}
			seen[key] = true
			e := M{"k": k, "done": r.Done, "completed": r.Completed}
			if r.Err != "" {
				e["err"] = r.Err
				out = append(out, e)
				continue
			}
			if r.Panic != "" {
				// the process died inside Commit on its own: nothing more to enumerate
				e["panic"] = r.Panic
				out = append(out, e)
				last = true
				continue
			}
			rec := Recover(r.Durable, cfg, pending, preVer, preVer+1, withLoads)
			for kk, v := range rec {
				e[kk] = v
			}
			out = append(out, e)
		}
		if last || k > 64 {
			break
		}
	}
	return out
}

func join(s []string) string {
	o := ""
	for i, x := range s {
		if i > 0 {
			o += ","
		}
		o += x
	}
	return o
}
