module verif/harness

go 1.13

require (
	github.com/pokt-network/posmint v0.0.0
	github.com/tendermint/go-amino v0.15.0
	github.com/tendermint/tendermint v0.32.10
	github.com/tendermint/tm-db v0.2.0
	golang.org/x/crypto v0.0.0-20190313024323-a1f597ede03a
)

replace github.com/pokt-network/posmint => /repo

replace github.com/tendermint/tendermint => github.com/pokt-network/tendermint v0.32.11-0.20200616153411-15dcdd9fbf5f
