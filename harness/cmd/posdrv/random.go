package main

import (
	"bufio"
	"encoding/json"
	"fmt"
	"math/rand"
	"os"

	"verif/harness/app"
)

// random: a seeded adversarial driver (code -> spec). It runs the REAL application with the
// shipped power reduction, large amounts, many validators and long histories, choosing every
// next request from the real current state (votes exactly over the set Tendermint would have,
// amounts around the balance and the minimum stake, evidence of every age, malformed and
// unauthorised transactions, read-only traffic), and logs the same ndjson lines as `run`;
// Trace_Posmint.tla validates them with the constants of the configuration.

type rcfg struct {
	App       app.Cfg `json:"app"`
	FracDen   int64   `json:"fracDen"`
	MaxHeight int     `json:"maxHeight"`
	MaxTx     int     `json:"maxTx"`
	BurnNums  []int64 `json:"burnNums"`
	Exports   int     `json:"exports"` // export/import restarts allowed per history
	Crashes   int     `json:"crashes"` // crashes (loss of everything uncommitted, reopen) allowed per history
}

type rec map[string]interface{}

func randomRun(cfgPath string, seed int64, nbeh int, outPath string) error {
	var rc rcfg
	bz, err := os.ReadFile(cfgPath)
	if err != nil {
		return err
	}
	if err := json.Unmarshal(bz, &rc); err != nil {
		return err
	}
	out, err := os.Create(outPath)
	if err != nil {
		return err
	}
	defer out.Close()
	w := bufio.NewWriter(out)
	defer w.Flush()
	enc := json.NewEncoder(w)
	rng := rand.New(rand.NewSource(seed))
	n := rc.App.N
	for b := 1; b <= nbeh; b++ {
		c := rc.App
		c.KeySeed = seed*1000 + int64(b)
		r, err := app.NewRunner(c)
		if err != nil {
			return err
		}
		i := 0
		committedTx, pendingTx := 0, 0
		// Tendermint pipeline: vs[0] signs the next block's LastCommitInfo
		vs := [3]map[int]int64{{}, {}, {}}
		applyUpd := func(base map[int]int64, upd [][2]int64) map[int]int64 {
			m := map[int]int64{}
			for k, v := range base {
				m[k] = v
			}
			for _, u := range upd {
				if u[1] == 0 {
					delete(m, int(u[0]))
				} else {
					m[int(u[0])] = u[1]
				}
			}
			return m
		}
		flaky := rng.Intn(n) + 1 // one validator that misses often
		// a theme per behaviour steers it into one corner: 0 mixed, 1 unstake-heavy (many validators in
		// the same queue slot) with evidence, 2 downtime-heavy, 3 stake/unstake churn at the cut-off
		theme := rng.Intn(4)
		do := func(a rec) app.Result {
			raw, _ := json.Marshal(a)
			act, err := specAction(raw, committedTx, r.A)
			if err != nil {
				panic(err)
			}
			res := r.Exec(act)
			if act.A == "Tx" {
				pendingTx = len(r.Delivered)
			}
			if act.A == "Commit" {
				committedTx = pendingTx
			}
			if act.A == "Crash" {
				pendingTx = committedTx
			}
			i++
			ln := line{B: b, I: i, Act: raw, Res: toLineRes(res), Post: toPost(r.A.Project(), rc.FracDen)}
			ln.Post.DAuth, ln.Post.DRest = r.A.Digests()
			if err := enc.Encode(ln); err != nil {
				panic(err)
			}
			return res
		}
		amount := func(bal int64) int64 {
			ms := c.MinStake
			switch rng.Intn(9) {
			case 0:
				return ms - 1
			case 1:
				return ms
			case 2:
				return ms + 1
			case 3:
				return bal
			case 4:
				return bal + 1
			case 5:
				return bal - c.Fee
			case 6:
				return 0
			case 7:
				return ms*2 + rng.Int63n(ms)
			}
			return rng.Int63n(3*ms) + 1
		}
		tx := func(a string) rec {
			st := r.A.Project()
			from := rng.Intn(n) + 1
			bal := st.Bal[from-1]
			fee := c.Fee
			if rng.Intn(12) == 0 && fee > 0 {
				fee--
			}
			t := rec{"a": a, "kind": "send", "from": from, "to": 0, "amt": int64(0), "fee": fee, "bad": "none"}
			pick := rng.Intn(10)
			if theme == 1 && rng.Intn(2) == 0 {
				pick = 3
			}
			if theme == 3 {
				pick = []int{0, 0, 3, 3, 5, 7}[rng.Intn(6)]
			}
			if theme == 2 && rng.Intn(3) == 0 {
				pick = 5
			}
			switch pick {
			case 0, 1, 2:
				t["kind"] = "stake"
				t["amt"] = amount(bal)
			case 3, 4:
				t["kind"] = "unstake"
			case 5, 6:
				t["kind"] = "unjail"
			default:
				to := rng.Intn(n+2) + 1 // users, fee collector (n+1), pool (n+2)
				if to == n+1 && (fee == 0 || rng.Intn(2) == 0) {
					to = n + 2 // (without fees nothing creates the fee collector's module account before a transfer could)
				}
				switch rng.Intn(12) {
				case 0, 1:
					to = n + 5 + rng.Intn(2) // an address outside the named ones (fresh or reused; n+6: of unusual length)
				case 2:
					if rng.Intn(3) == 0 {
						to = n + 3 // the pos module account's address (not created before the first fee distribution)
					}
				}
				t["to"] = to
				x := amount(bal)
				if rng.Intn(3) == 0 {
					x = rng.Int63n(5) + 1
				}
				t["amt"] = x
			}
			if rng.Intn(9) == 0 {
				t["kind"], t["to"], t["amt"] = "send", 1, int64(1)
				t["bad"] = []string{"garbage", "sig", "mut", "replay"}[rng.Intn(4)]
			}
			return t
		}
		res := do(rec{"a": "InitChain"})
		set := applyUpd(map[int]int64{}, res.Updates)
		vs = [3]map[int]int64{{}, set, set}
		halted := res.Class == "halt"
		exports, crashes := 0, 0
		for h := 1; h <= rc.MaxHeight && !halted; h++ {
			st := r.A.Project()
			votes := [][3]int64{}
			for id := 1; id <= n; id++ {
				if p, ok := vs[0][id]; ok {
					signed := int64(1)
					miss := 6
					if id == flaky {
						miss = 2
					}
					if theme == 2 {
						miss = 2
					}
					if rng.Intn(miss) == 0 {
						signed = 0
					}
					votes = append(votes, [3]int64{int64(id), signed, p})
				}
			}
			evs := []rec{}
			evp := 6
			if theme == 1 {
				evp = 3
			}
			if rng.Intn(evp) == 0 && len(st.Pkrel) > 0 {
				// one or (sometimes) two pieces of evidence, against different validators: a second one against
				// the same validator would hit the tombstone and panic the real BeginBlock (modelled as halt)
				nev := 1
				if rng.Intn(4) == 0 {
					nev = 2
				}
				used := map[int]bool{}
				for e := 0; e < nev; e++ {
					v := st.Pkrel[rng.Intn(len(st.Pkrel))]
					val := st.Val[v-1]
					if used[v] || !val.Ex || val.Status == 0 || st.Sinfo[v-1].Tomb { // anything else makes the real BeginBlock panic (kept out)
						continue
					}
					used[v] = true
					age := []int64{0, c.MaxEvAge, c.MaxEvAge + 1, rng.Int63n(c.MaxEvAge + 2)}[rng.Intn(4)]
					cur := val.Tokens / c.PR
					power := []int64{cur, cur + 1, cur * 3, 1, 0, cur / 2}[rng.Intn(6)]
					// infraction height: the previous blocks, the current one, or (invalid) one in the future
					hback := []int{1, 1, 2, 0, -2}[rng.Intn(5)]
					evs = append(evs, rec{"v": v, "age": age, "hback": hback, "power": power})
				}
			}
			dt := []int64{0, 1, 1, 2, 5, c.UnstakeTime}[rng.Intn(6)]
			res = do(rec{"a": "BeginBlock", "dt": dt, "prop": rng.Intn(n + 1), "votes": votes, "evs": evs})
			if res.Class == "halt" {
				halted = true
				break
			}
			ntx, next := 0, 0
			for {
				k := rng.Intn(100)
				switch {
				case k < 55 && ntx < rc.MaxTx:
					do(tx("Tx"))
					ntx++
				case k < 63 && next < 3:
					do(rec{"a": "ExtAward", "to": rng.Intn(n+6) + 1, "amt": rng.Int63n(c.MinStake*2) + 1})
					next++
				case k < 68 && next < 3 && len(rc.BurnNums) > 0:
					cur := r.A.Project()
					var ex []int
					for id, v := range cur.Val {
						if v.Ex {
							ex = append(ex, id+1)
						}
					}
					if len(ex) > 0 {
						do(rec{"a": "ExtBurn", "from": ex[rng.Intn(len(ex))], "num": rc.BurnNums[rng.Intn(len(rc.BurnNums))]})
						next++
					}
				case k < 74:
					do(tx("CheckTx"))
				case k < 78:
					do(rec{"a": "Query", "kind": []string{"store-acc", "store-pos", "custom-pool", "custom-params", "custom-vals", "version", "bad-path"}[rng.Intn(7)]})
				case k >= 85 || ntx >= rc.MaxTx:
					goto end
				}
			}
		end:
			// now and then the node dies inside the block (before or after EndBlock): everything since the last
			// Commit is lost, the next block starts from the committed state again
			if rc.Crashes > 0 && crashes < rc.Crashes && r.CanCrash() && rng.Intn(8) == 0 {
				if rng.Intn(2) == 0 {
					if res = do(rec{"a": "EndBlock"}); res.Class == "halt" {
						halted = true
						break
					}
				}
				do(rec{"a": "Crash"})
				crashes++
				continue
			}
			res = do(rec{"a": "EndBlock"})
			if res.Class == "halt" {
				halted = true
				break
			}
			vs = [3]map[int]int64{vs[1], vs[2], applyUpd(vs[2], res.Updates)}
			do(rec{"a": "Commit"})
			// now and then: stop the chain, export its state and restart a new chain from the export
			// (only with empty award/burn queues: the export does not carry them)
			if rc.Exports > 0 && exports < rc.Exports && rng.Intn(6) == 0 && h < rc.MaxHeight {
				cur := r.A.Project()
				empty := true
				for _, x := range cur.AwardQ {
					if x != 0 {
						empty = false
					}
				}
				for _, x := range cur.BurnQ {
					if x != "" {
						empty = false
					}
				}
				if empty {
					res = do(rec{"a": "ExportImport"})
					exports++
					if res.Class == "halt" {
						halted = true
						break
					}
					set := applyUpd(map[int]int64{}, res.Updates)
					vs = [3]map[int]int64{{}, set, set}
				}
			}
		}
		r.A.Close()
	}
	return nil
}

func init() {
	extraModes["random"] = func(args []string) error {
		if len(args) < 4 {
			return fmt.Errorf("usage: posdrv random <cfg.json> <seed> <nbeh> <trace.ndjson>")
		}
		var seed int64
		var nbeh int
		fmt.Sscan(args[1], &seed)
		fmt.Sscan(args[2], &nbeh)
		return randomRun(args[0], seed, nbeh, args[3])
	}
}
