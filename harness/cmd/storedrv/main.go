// storedrv drives the real rootmulti / iavl / transient stores of posmint for the MultiStore
// specification (properties C12, C13, C14).  It only executes and projects; it judges nothing.
//
//	storedrv replay <programs.ndjson>     one JSON program per line -> one JSON result per line
//	storedrv record [flags]               seeded random history -> ndjson trace events (stdout)
//
// A program is {"id":..,"cfg":{stores,transient,kr,ke,backend[,strat]},"steps":[...]} (with "strat" the
// pruning options are what the real store.NewPruningOptionsFromString makes of that string) with steps
//
//	{"a":"reopen"}                         drop the handle, build a fresh one (LoadLatestVersion)
//	{"a":"write","op":{"s","k","v","del"}}
//	{"a":"observe"}                        only the observations below
//	{"a":"commit","faults":bool,"tries":n} real Commit; faults: enumerate every crash point
//	{"a":"liveload","v":n}                 LoadVersion(n) on the LIVE handle: ok/err, the handle's
//	                                       LastCommitID and content before ("pre") and after
//	{"a":"crash"}                          the process dies between durable writes of no commit
//	{"a":"crashcommit","done":[classes]}   the process dies inside Commit after exactly these writes
//
// and every step may carry "loads":[v..] (LoadVersion(v) on a fresh handle + versioned view on the
// live one), "queries":[[via,store,key,height,prove]..] and "subs":[[via,store,prefix,height]..]
// ("/<store>/subspace" queries).  Keys are NAMES; cfg.palette says which bytes a name stands for.
package main

import (
	"bufio"
	"encoding/hex"
	"encoding/json"
	"flag"
	"fmt"
	"math/rand"
	"os"
	"sort"

	sl "verif/harness/storelib"
)

type Step struct {
	A       string          `json:"a"`
	Op      *sl.WOp         `json:"op,omitempty"`
	V       int64           `json:"v,omitempty"`
	Faults  bool            `json:"faults,omitempty"`
	Tries   int             `json:"tries,omitempty"`
	Done    []string        `json:"done,omitempty"`
	Loads   []int64         `json:"loads,omitempty"`
	Queries [][]interface{} `json:"queries,omitempty"`
	Subs    [][]interface{} `json:"subs,omitempty"`
}

type Program struct {
	ID    interface{} `json:"id"`
	Cfg   sl.Cfg      `json:"cfg"`
	Steps []Step      `json:"steps"`
}

func observe(n *sl.Node, st Step, out sl.M) {
	if len(st.Loads) > 0 {
		loads := []sl.M{}
		for _, v := range st.Loads {
			e := sl.M{"v": v, "load": sl.LoadFresh(n.Raw, n.Cfg, v)}
			if n.H != nil {
				e["view"] = n.H.VersionedView(v)
			}
			loads = append(loads, e)
		}
		out["loads"] = loads
	}
	if len(st.Queries) > 0 && n.H != nil {
		qs := []sl.M{}
		for _, q := range st.Queries {
			via, _ := q[0].(string)
			store, _ := q[1].(string)
			key, _ := q[2].(string)
			h, _ := q[3].(float64)
			p, _ := q[4].(bool)
			r := sl.Query(n.H, n.DB, n.Cfg, via, store, key, int64(h), p, n.Hashes)
			r["q"] = q
			qs = append(qs, r)
		}
		out["queries"] = qs
	}
	if len(st.Subs) > 0 && n.H != nil {
		ss := []sl.M{}
		for _, q := range st.Subs {
			via, _ := q[0].(string)
			store, _ := q[1].(string)
			prefix, _ := q[2].(string)
			h, _ := q[3].(float64)
			r := sl.Subspace(n.H, n.DB, n.Cfg, via, store, prefix, int64(h))
			r["q"] = q
			ss = append(ss, r)
		}
		out["subs"] = ss
	}
}

// storeVers: the IAVL version every sub-store of the live handle is at (what the latest commit
// info points to when nothing is half done)
func storeVers(n *sl.Node) sl.M {
	m := sl.M{}
	if n.H == nil {
		return m
	}
	for _, s := range n.Cfg.Stores {
		m[s] = n.H.MS.GetCommitStore(n.H.Keys[s]).LastCommitID().Version
	}
	return m
}

func eqs(a, b []string) bool {
	if len(a) != len(b) {
		return false
	}
	for i := range a {
		if a[i] != b[i] {
			return false
		}
	}
	return true
}

func runProgram(p Program) sl.M {
	res := sl.M{"id": p.ID}
	n, err := sl.NewNode(p.Cfg)
	if err != nil {
		res["tool_error"] = err.Error()
		return res
	}
	defer n.Close()
	var obs []sl.M
	for i, st := range p.Steps {
		o := sl.M{"i": i, "a": st.A}
		switch st.A {
		case "reopen":
			for k, v := range n.Reopen() {
				o[k] = v
			}
			observe(n, st, o)
		case "write":
			if n.H == nil {
				o["tool_error"] = "write without a handle"
				break
			}
			if e := n.H.Apply(*st.Op); e != "" {
				o["perr"] = e
			}
			n.Pending = append(n.Pending, *st.Op)
			for k, v := range n.H.State() {
				o[k] = v
			}
		case "observe":
			observe(n, st, o)
		case "liveload":
			if n.H == nil {
				o["tool_error"] = "liveload without a handle"
				break
			}
			r := n.H.LiveLoad(st.V)
			for k, v := range r {
				o[k] = v
			}
			if r["ok"] == true {
				// the uncommitted writes went with the replaced sub-stores
				n.Pending = nil
			}
		case "commit":
			if n.H == nil {
				o["tool_error"] = "commit without a handle"
				break
			}
			pre := sl.SnapshotMem(n.Raw)
			preVer := n.H.MS.LastCommitID().Version
			o["storevers"] = storeVers(n)
			n.DB.ResetLog()
			id, perr, _ := n.H.Commit()
			if perr != "" {
				o["ok"] = false
				o["err"] = perr
				n.H = nil
				break
			}
			o["ok"] = true
			for k, v := range n.H.State() {
				o[k] = v
			}
			o["ver"] = id.Version
			o["hash"] = hex.EncodeToString(id.Hash)
			o["prever"] = preVer
			n.Hashes[id.Version] = hex.EncodeToString(id.Hash)
			ws := []string{}
			for _, w := range n.DB.Log {
				ws = append(ws, w.Class)
			}
			o["writes"] = ws
			// a fresh handle on the durable state must report what Commit returned
			o["fresh"] = sl.LoadFresh(n.Raw, n.Cfg, -1)
			if st.Faults {
				tries := st.Tries
				if tries <= 0 {
					tries = 4
				}
				o["faults"] = sl.Faults(pre, n.Cfg, n.Pending, preVer, true, tries)
			}
			n.Pending = nil
			observe(n, st, o)
		case "crash":
			n.H = nil
		case "crashcommit":
			if n.H == nil {
				o["tool_error"] = "crashcommit without a handle"
				break
			}
			pre := sl.SnapshotMem(n.Raw)
			o["storevers"] = storeVers(n)
			ideal := sl.CrashRun(pre, n.Cfg, n.Pending, 0)
			o["ideal"] = sl.M{"ok": ideal.Completed, "ver": ideal.Ver, "hash": ideal.Hash, "err": ideal.Err, "panic": ideal.Panic, "writes": ideal.Done}
			tries := st.Tries
			if tries <= 0 {
				tries = 400
			}
			seen := map[string]bool{}
			matched := false
			var r sl.CrashResult
			t := 0
			for ; t < tries && !matched; t++ {
				r = sl.CrashRun(pre, n.Cfg, n.Pending, len(st.Done)+1)
				if r.Err != "" {
					o["tool_error"] = r.Err
					break
				}
				if r.Panic != "" {
					// the real Commit panics before it gets to the crash point
					o["panic"] = r.Panic
					o["done_before_panic"] = r.Done
					break
				}
				seen[fmt.Sprint(r.Done)] = true
				matched = eqs(r.Done, st.Done)
			}
			o["matched"] = matched
			o["tries"] = t
			if _, p := o["panic"]; p {
				// the process is gone, what it wrote stays
				if err := n.ReplaceDurable(r.Durable); err != nil {
					o["tool_error"] = err.Error()
				}
			} else if !matched {
				keys := []string{}
				for k := range seen {
					keys = append(keys, k)
				}
				sort.Strings(keys)
				o["seen"] = keys
			} else {
				o["completed"] = r.Completed
				if err := n.ReplaceDurable(r.Durable); err != nil {
					o["tool_error"] = err.Error()
				}
			}
			n.H = nil
		default:
			o["tool_error"] = "unknown step " + st.A
		}
		obs = append(obs, o)
		if _, bad := o["tool_error"]; bad {
			break
		}
	}
	res["obs"] = obs
	return res
}

func replay(path string) int {
	f, err := os.Open(path)
	if err != nil {
		fmt.Fprintln(os.Stderr, err)
		return 2
	}
	defer f.Close()
	sc := bufio.NewScanner(f)
	sc.Buffer(make([]byte, 1<<20), 1<<30)
	w := bufio.NewWriterSize(os.Stdout, 1<<20)
	defer w.Flush()
	enc := json.NewEncoder(w)
	for sc.Scan() {
		line := sc.Bytes()
		if len(line) == 0 {
			continue
		}
		var p Program
		if err := json.Unmarshal(line, &p); err != nil {
			fmt.Fprintln(os.Stderr, "bad program:", err)
			return 2
		}
		if err := enc.Encode(runProgram(p)); err != nil {
			fmt.Fprintln(os.Stderr, err)
			return 2
		}
	}
	return 0
}

// ------------------------------------------------------------------------------------------------
// record: seeded random history -> trace events for Trace_MultiStore

func record(args []string) int {
	fs := flag.NewFlagSet("record", flag.ExitOnError)
	seed := fs.Int64("seed", 1, "seed")
	commits := fs.Int("commits", 20, "number of commits")
	kr := fs.Int64("kr", 0, "keepRecent")
	ke := fs.Int64("ke", 1, "keepEvery")
	nstores := fs.Int("stores", 2, "number of IAVL stores")
	backend := fs.String("backend", "memdb", "memdb|goleveldb")
	maxw := fs.Int("maxwrites", 4, "max writes per block")
	pobs := fs.Float64("pobs", 0.5, "probability of an observation burst after a commit")
	prestart := fs.Float64("prestart", 0.05, "probability of a clean restart after a commit")
	spal := fs.Bool("set-pruning-after-load", false, "call SetPruning on the live store after LoadLatestVersion instead of before")
	pruneAfter := fs.Bool("prune-after-flush", false, "log the pruning steps that wrote nothing after the flush (for code that prunes after the flush)")
	strategy := fs.String("strategy", "", "pruning strategy string resolved by store.NewPruningOptionsFromString (overrides --kr/--ke; may be empty: see --use-strategy)")
	useStrategy := fs.Bool("use-strategy", false, "take the pruning options from --strategy")
	palette := fs.String("palette", "", `JSON object letter -> hex image: the bytes a key name stands for (see storelib.Cfg.Palette)`)
	noProve := fs.Bool("noprove", false, "never ask for proofs (used with palettes that contain 0xFF bytes)")
	pll := fs.Float64("pliveload", 0, "probability of LoadVersion calls on the live handle after a commit (and a quarter of it between two writes)")
	fs.Parse(args)

	rng := rand.New(rand.NewSource(*seed))
	noProveFlag = *noProve
	cfg := sl.Cfg{Transient: "t1", KR: *kr, KE: *ke, Backend: *backend, SPAL: *spal}
	if *palette != "" {
		if err := json.Unmarshal([]byte(*palette), &cfg.Palette); err != nil {
			fmt.Fprintln(os.Stderr, "bad --palette:", err)
			return 2
		}
	}
	stratName := "<pair>" // MultiStore.tla: NoStrategy
	if *useStrategy {
		cfg.Strat = strategy
		stratName = *strategy
	}
	// what the stores are really configured with (with a strategy: what the real function returned)
	rkr, rke := cfg.Pruning().KeepRecent(), cfg.Pruning().KeepEvery()
	for i := 1; i <= *nstores; i++ {
		cfg.Stores = append(cfg.Stores, fmt.Sprintf("s%d", i))
	}
	keys := []string{"a", "ab", "abc", "b", "ba", "c", "k/1", "k/2", "z"}
	vals := []string{"x", "y", "z", "xx", "0", ""} // the stores accept empty (non-nil) values
	w := bufio.NewWriterSize(os.Stdout, 1<<20)
	defer w.Flush()
	enc := json.NewEncoder(w)
	enc.SetEscapeHTML(false)
	emit := func(m sl.M) { enc.Encode(m) }

	n, err := sl.NewNode(cfg)
	if err != nil {
		fmt.Fprintln(os.Stderr, err)
		return 2
	}
	defer n.Close()
	palJSON, _ := json.Marshal(cfg.Palette) // as text: the trace monitor never reads it
	emit(sl.M{"a": "reset", "palette": string(palJSON), "kr": rkr, "ke": rke, "strat": stratName, "spal": *spal, "stores": cfg.Stores, "seed": *seed, "backend": *backend})
	open := func() bool {
		r := n.Reopen()
		r["a"] = "open"
		emit(r)
		return r["ok"] == true
	}
	if !open() {
		return 0
	}
	storeHash := func(s string) string {
		return hex.EncodeToString(n.H.MS.GetCommitStore(n.H.Keys[s]).LastCommitID().Hash)
	}
	all := append(append([]string{}, cfg.Stores...), cfg.Transient)
	// LoadVersion calls on the live handle.  The recorder only decides by what the calls RETURN:
	// after a call that returned nil for an older version the handle is rolled back and is brought
	// to the latest version again before anything else is done with it (the specification has no
	// writes / Commit on a rolled-back handle); after an error the handle is simply used on.
	var lastVer int64 // version returned by the last Commit / reported at the last open
	liveLoad := func(v int64) bool {
		r := n.H.LiveLoad(v)
		pre := r["pre"].(sl.M)
		e := sl.M{"a": "liveload", "v": v, "ok": r["ok"], "ver": r["ver"], "hash": r["hash"], "stores": r["stores"], "trans": r["trans"],
			"pver": pre["ver"], "phash": pre["hash"], "pstores": pre["stores"], "ptrans": pre["trans"]}
		if r["ok"] != true {
			e["err"] = r["err"]
		}
		emit(e)
		return r["ok"] == true
	}
	// returns false when the history cannot go on
	liveBurst := func(k int) bool {
		rolled := false
		for i := 0; i < k; i++ {
			var v int64
			switch rng.Intn(6) {
			case 0:
				v = lastVer + 1
			case 1:
				v = lastVer
			default:
				v = 1 + rng.Int63n(lastVer+1)
			}
			if v < 1 {
				v = 1
			}
			if liveLoad(v) {
				rolled = v != lastVer
			}
		}
		if rolled && !liveLoad(lastVer) {
			emit(sl.M{"a": "restart"})
			return open()
		}
		return true
	}
	lastVer = n.H.MS.LastCommitID().Version
	for c := 0; c < *commits; c++ {
		nw := rng.Intn(*maxw + 1)
		for i := 0; i < nw; i++ {
			op := sl.WOp{S: all[rng.Intn(len(all))], K: keys[rng.Intn(len(keys))]}
			if rng.Intn(4) == 0 {
				op.Del = true
			} else {
				op.V = vals[rng.Intn(len(vals))]
			}
			if e := n.H.Apply(op); e != "" {
				emit(sl.M{"a": "tool_error", "err": e})
				return 0
			}
			st := n.H.State()
			emit(sl.M{"a": "write", "s": op.S, "k": op.K, "v": op.V, "del": op.Del, "stores": st["stores"], "trans": st["trans"]})
			// queries between the transactions of a block
			if rng.Float64() < *pobs/4 {
				queryBurst(n, rng, keys, emit, 2)
			}
			if *pll > 0 && rng.Float64() < *pll/4 {
				if !liveBurst(1) {
					return 0
				}
			}
		}
		emit(sl.M{"a": "commitstart"})
		n.DB.ResetLog()
		id, perr, _ := n.H.Commit()
		if perr != "" {
			emit(sl.M{"a": "commitpanic", "err": perr})
			return 0
		}
		n.Hashes[id.Version] = hex.EncodeToString(id.Hash)
		lastVer = id.Version
		// the durable writes of this commit, in the order they happened; SaveVersion and the
		// pruning delete of one store belong together (iavl.Store.Commit), a store whose pruning
		// wrote nothing still took the step
		var full []sl.M
		saved := map[string]bool{}
		pruneLogged := map[string]bool{}
		parse := func(class string) (kind, s string, v int64) {
			for _, st := range cfg.Stores {
				var x int64
				if _, err := fmt.Sscanf(class, "save:"+st+":%d", &x); err == nil && class == fmt.Sprintf("save:%s:%d", st, x) {
					return "save", st, x
				}
				if _, err := fmt.Sscanf(class, "prune:"+st+":%d", &x); err == nil && class == fmt.Sprintf("prune:%s:%d", st, x) {
					return "prune", st, x
				}
			}
			var x int64
			if _, err := fmt.Sscanf(class, "flush:%d", &x); err == nil && class == fmt.Sprintf("flush:%d", x) {
				return "flush", "", x
			}
			return "other", "", 0
		}
		log := n.DB.Log
		flushed := false
		for i := 0; i < len(log); i++ {
			kind, s, v := parse(log[i].Class)
			switch kind {
			case "save":
				saved[s] = true
				full = append(full, sl.M{"a": "save", "s": s, "v": v, "tok": storeHash(s), "wrote": true})
				if i+1 < len(log) {
					if k2, s2, _ := parse(log[i+1].Class); k2 == "prune" && s2 == s {
						continue
					}
				}
				if !*pruneAfter {
					full = append(full, sl.M{"a": "prune", "s": s, "v": 0})
					pruneLogged[s] = true
				}
			case "prune":
				pruneLogged[s] = true
				full = append(full, sl.M{"a": "prune", "s": s, "v": v})
			case "flush":
				// stores whose SaveVersion wrote nothing (idempotent re-save) still took their steps
				for _, st := range cfg.Stores {
					if !saved[st] && !flushed {
						full = append(full, sl.M{"a": "save", "s": st, "v": n.H.MS.GetCommitStore(n.H.Keys[st]).LastCommitID().Version, "tok": storeHash(st), "wrote": false})
						if !*pruneAfter {
							full = append(full, sl.M{"a": "prune", "s": st, "v": 0})
							pruneLogged[st] = true
						}
					}
				}
				flushed = true
				full = append(full, sl.M{"a": "tcommit"})
				st := n.H.State()
				full = append(full, sl.M{"a": "flush", "ver": id.Version, "hash": hex.EncodeToString(id.Hash), "stores": st["stores"], "trans": st["trans"], "nops": len(log[i].Ops)})
			default:
				full = append(full, sl.M{"a": "otherwrite", "class": log[i].Class})
			}
		}
		if !flushed {
			// Commit returned but no single batch carried commit info + latest marker: the steps
			// are logged all the same (nops = 0), the writes it did issue are "otherwrite" above
			for _, st := range cfg.Stores {
				if !saved[st] {
					full = append(full, sl.M{"a": "save", "s": st, "v": n.H.MS.GetCommitStore(n.H.Keys[st]).LastCommitID().Version, "tok": storeHash(st), "wrote": false})
				}
				if !pruneLogged[st] && !*pruneAfter {
					full = append(full, sl.M{"a": "prune", "s": st, "v": 0})
					pruneLogged[st] = true
				}
			}
			full = append(full, sl.M{"a": "tcommit"})
			st := n.H.State()
			full = append(full, sl.M{"a": "flush", "ver": id.Version, "hash": hex.EncodeToString(id.Hash), "stores": st["stores"], "trans": st["trans"], "nops": 0})
		}
		for _, st := range cfg.Stores {
			if !pruneLogged[st] {
				full = append(full, sl.M{"a": "prune", "s": st, "v": 0})
			}
		}
		for _, e := range full {
			emit(e)
		}
		if rng.Float64() < *pobs {
			loadBurst(n, rng, emit, 3)
			queryBurst(n, rng, keys, emit, 6)
		}
		if *pll > 0 && rng.Float64() < *pll {
			if !liveBurst(1 + rng.Intn(2)) {
				return 0
			}
		}
		if rng.Float64() < *prestart {
			emit(sl.M{"a": "restart"})
			if !open() {
				return 0
			}
			lastVer = n.H.MS.LastCommitID().Version
		}
	}
	// final sweep: every version, a fresh handle
	last := n.H.MS.LastCommitID().Version
	for v := int64(1); v <= last+1; v++ {
		emitLoad(n, v, emit)
	}
	emit(sl.M{"a": "restart"})
	open()
	return 0
}

func emitLoad(n *sl.Node, v int64, emit func(sl.M)) {
	r := sl.LoadFresh(n.Raw, n.Cfg, v)
	e := sl.M{"a": "load", "v": v, "ok": r["ok"]}
	if r["ok"] == true {
		e["stores"] = r["stores"]
		e["ver"] = r["ver"]
		e["hash"] = r["hash"]
	} else {
		e["err"] = r["err"]
	}
	vw := n.H.VersionedView(v)
	e["vok"] = vw["ok"]
	if vw["ok"] == true {
		e["vstores"] = vw["stores"]
	}
	emit(e)
}

func loadBurst(n *sl.Node, rng *rand.Rand, emit func(sl.M), k int) {
	last := n.H.MS.LastCommitID().Version
	for i := 0; i < k; i++ {
		var v int64
		switch rng.Intn(4) {
		case 0:
			v = last - int64(rng.Intn(3))
		case 1:
			v = last + 1
		default:
			v = 1 + rng.Int63n(last+1)
		}
		if v < 1 {
			v = 1
		}
		emitLoad(n, v, emit)
	}
}

// prefixes of the recorded "/subspace" queries: a prefix whose successor is a stored key ("a" with
// "b"), prefixes equal to whole keys, a prefix nobody has, a longer family
var noProveFlag bool

var subPrefixes = []string{"a", "ab", "abc", "b", "ba", "c", "k", "k/", "z", "q"}

func subspaceQuery(n *sl.Node, rng *rand.Rand, emit func(sl.M)) {
	last := n.H.MS.LastCommitID().Version
	s := n.Cfg.Stores[rng.Intn(len(n.Cfg.Stores))]
	p := subPrefixes[rng.Intn(len(subPrefixes))]
	h := int64(0)
	if rng.Intn(2) == 0 {
		h = rng.Int63n(last + 3) // the height is ignored by the code: any height, also pruned and future ones
	}
	via := "ms"
	if rng.Intn(3) == 0 {
		via = "app"
	}
	r := sl.Subspace(n.H, n.DB, n.Cfg, via, s, p, h)
	e := sl.M{"a": "subspace", "via": via, "s": s, "p": p, "h": h}
	if _, bad := r["panic"]; bad {
		e["a"] = "querypanic"
		e["k"] = p
		e["sub"] = true
		e["panic"] = r["panic"]
		e["ok"] = false
		e["kv"] = sl.M{}
		e["n"] = 0
		e["sorted"] = true
		emit(e)
		return
	}
	kv := sl.M{}
	pairs := r["kv"].([][]string)
	for _, x := range pairs {
		kv[x[0]] = x[1]
	}
	e["ok"] = r["answered"]
	e["kv"] = kv
	e["n"] = len(pairs) // = number of distinct keys unless a key came twice
	e["sorted"] = r["sorted"]
	e["log"] = r["log"]
	emit(e)
}

func queryBurst(n *sl.Node, rng *rand.Rand, keys []string, emit func(sl.M), k int) {
	last := n.H.MS.LastCommitID().Version
	for i := 0; i < (k+1)/2; i++ {
		subspaceQuery(n, rng, emit)
	}
	for i := 0; i < k; i++ {
		s := n.Cfg.Stores[rng.Intn(len(n.Cfg.Stores))]
		key := keys[rng.Intn(len(keys))]
		if rng.Intn(8) == 0 {
			key = "nokey"
		}
		var h int64
		switch rng.Intn(5) {
		case 0:
			h = 0
		case 1:
			h = last + 1 + int64(rng.Intn(2))
		case 2:
			h = last - int64(rng.Intn(3))
		default:
			h = 1 + rng.Int63n(last+1)
		}
		if h < 0 {
			h = 0
		}
		prove := rng.Intn(2) == 0 && !noProveFlag
		via := "ms"
		if rng.Intn(3) == 0 {
			via = "app"
		}
		r := sl.Query(n.H, n.DB, n.Cfg, via, s, key, h, prove, n.Hashes)
		if _, bad := r["panic"]; bad {
			// a panicking query is no step of the specification: logged for the python side, skipped by the monitor
			emit(sl.M{"a": "querypanic", "via": via, "s": s, "k": key, "h": h, "p": prove, "panic": r["panic"], "err": true, "value": "<nil>", "proof": false, "height": 0, "verifies": []int64{}})
			continue
		}
		val := "<nil>"
		if v, ok := r["value"].(string); ok {
			val = v
		}
		code, _ := r["code"].(uint32)
		e := sl.M{"a": "query", "via": via, "s": s, "k": key, "h": h, "p": prove,
			"err": code != 0, "value": val, "proof": r["nops"].(int) > 0, "height": r["height"], "log": r["log"]}
		if code != 0 {
			e["height"] = 0
		}
		if vs, ok := r["verifies"]; ok {
			e["verifies"] = vs
			e["forged"] = r["forged"]
		} else {
			e["verifies"] = []int64{}
		}
		emit(e)
	}
}

func main() {
	if len(os.Args) > 2 && os.Args[1] == "replay" {
		os.Exit(replay(os.Args[2]))
	}
	if len(os.Args) > 1 && os.Args[1] == "record" {
		os.Exit(record(os.Args[2:]))
	}
	fmt.Fprintln(os.Stderr, "usage: storedrv replay <programs.ndjson> | storedrv record [flags]")
	os.Exit(2)
}
