package main

import (
	"encoding/json"
	"fmt"

	"verif/harness/app"
)

func main() {
	c := app.Cfg{N: 3, PR: 2, MinStake: 2, MaxVals: 2, UnstakeTime: 1, Window: 3, JailDur: 1, MaxEvAge: 2, Fee: 1,
		Bal: []int64{10, 10, 10}, GVals: []app.GVal{{V: 1, Status: 2, Tokens: 4}}, DaoTokens: 5, DaoOwner: 2, AclOwner: []int{3}}
	r, err := app.NewRunner(c)
	if err != nil {
		panic(err)
	}
	defer r.A.Close()
	for _, act := range []app.Action{{A: "InitChain"}, {A: "BeginBlock", Dt: 1, Prop: 1}, {A: "Tx", Kind: "garbage", Variant: 4, Fee: 1}, {A: "CheckTx", Kind: "garbage", Variant: 4, Fee: 1}} {
		res := r.Exec(act)
		rb, _ := json.Marshal(res)
		fmt.Printf("%s -> %.300s\n", act.A, rb)
	}
}
