package main

import (
	"encoding/json"
	"fmt"

	"verif/harness/app"
)

func show(r *app.Runner, act app.Action) {
	res := r.Exec(act)
	ab, _ := json.Marshal(act)
	rb, _ := json.Marshal(res)
	fmt.Printf("%s\n  -> %s\n", ab, rb)
	st := r.A.Project()
	sb, _ := json.Marshal(st)
	fmt.Printf("  st %.420s\n", sb)
}

func main() {
	c := app.Cfg{N: 3, PR: 2, MinStake: 2, MaxVals: 2, UnstakeTime: 1, Window: 3, JailDur: 1, MaxEvAge: 2, Fee: 1,
		Bal: []int64{10, 10, 10}, GVals: []app.GVal{{V: 1, Status: 2, Tokens: 4}}, DaoTokens: 5, DaoOwner: 2, AclOwner: []int{3}}
	r, err := app.NewRunner(c)
	if err != nil {
		panic(err)
	}
	defer r.A.Close()
	show(r, app.Action{A: "InitChain"})
	show(r, app.Action{A: "BeginBlock", Dt: 1, Prop: 1})
	show(r, app.Action{A: "Tx", Kind: "stake", From: 2, Amt: 4, Fee: 1})
	show(r, app.Action{A: "Tx", Kind: "send", From: 3, To: 2, Amt: 3, Fee: 1})
	show(r, app.Action{A: "Tx", Kind: "send", From: 3, To: 2, Amt: 3, Fee: 1, Signer: 1})
	show(r, app.Action{A: "ExtAward", To: 3, Amt: 2})
	show(r, app.Action{A: "EndBlock"})
	show(r, app.Action{A: "Commit"})
	show(r, app.Action{A: "BeginBlock", Dt: 1, Prop: 1, Votes: [][3]int64{{1, 1, 2}}})
	show(r, app.Action{A: "Tx", Replay: 2})
	show(r, app.Action{A: "Tx", Kind: "unstake", From: 2, Fee: 1})
	show(r, app.Action{A: "EndBlock"})
	show(r, app.Action{A: "Commit"})
	show(r, app.Action{A: "Restart"})
	show(r, app.Action{A: "BeginBlock", Dt: 1, Prop: 1, Votes: [][3]int64{{1, 1, 2}}})
	show(r, app.Action{A: "EndBlock"})
	show(r, app.Action{A: "Commit"})
	fmt.Println("rpc calls", r.A.RPC.Calls)
}
