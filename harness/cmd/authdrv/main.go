// authdrv binds spec/AnteAuth.tla to the real ante handler.
//
//	authdrv run <cases.ndjson> <trace.ndjson> <seed>
//
// Every case of the specification's decision table (message type, key type, who signed and
// how, where the public key comes from, mutation after signing, fee / balance levels, fee
// multiplier, replay) is instantiated with real keys, real signatures and a real mutation of
// the named field, and sent through the real BaseApp.DeliverTx (the unmodified ante handler,
// with the tx-index lookup served by the fake Tendermint RPC). Messages are chosen so that their
// handlers fail: a transaction that passed the ante handler is then visible as "fee taken,
// nothing else changed". One ndjson line per case: the case, whether the ante handler accepted
// it, and the balance movements of signer and fee collector.
package main

import (
	"bufio"
	"crypto/sha256"
	"encoding/json"
	"fmt"
	"os"
	"strconv"

	"github.com/pokt-network/posmint/crypto"
	sdk "github.com/pokt-network/posmint/types"
	"github.com/pokt-network/posmint/x/auth"
	authtypes "github.com/pokt-network/posmint/x/auth/types"
	govtypes "github.com/pokt-network/posmint/x/gov/types"
	postypes "github.com/pokt-network/posmint/x/pos/types"
	abci "github.com/tendermint/tendermint/abci/types"
	"github.com/tendermint/tendermint/crypto/secp256k1"
	tmtypes "github.com/tendermint/tendermint/types"
	"verif/harness/app"
)

type Case struct {
	Msg   string `json:"msg"`
	Ktype string `json:"ktype"`
	Who   string `json:"who"`
	Pksrc string `json:"pksrc"`
	Mut   string `json:"mut"`
	FeeD  int64  `json:"feeD"`
	BalD  int64  `json:"balD"`
	Mult  int64  `json:"mult"`
	Rp    string `json:"rp"` // no | ok | failed
	Fx    string `json:"fx"` // plain | extra | foreign
}

type Obs struct {
	Accepted    bool   `json:"accepted"`
	Class       string `json:"class"`
	Code        uint32 `json:"code"`
	Fee         int64  `json:"fee"`
	Required    int64  `json:"required"`
	SignerDelta int64  `json:"signerDelta"`
	FeeDelta    int64  `json:"feeDelta"`
	OtherDelta  int64  `json:"otherDelta"` // sum of |balance change| of every other account
	Log         string `json:"log"`
	CheckOK     bool   `json:"checkOk"` // CheckTx of the same bytes (asked first) answered code 0
}

const baseFee = 3

// the names the fee tables (PosFeeMap, GovFeeMap, auth FeeMultipliers) are keyed by
var msgNames = map[string]string{"stake": "stake_validator", "unstake": "begin_unstaking_validator", "unjail": "unjail", "send": "send",
	"changeparam": "change_param", "upgrade": "upgrade", "daotransfer": "dao_tranfer"}

const sigLimit = 7

// a signing identity: simple key or (nested) multisig
type ident struct {
	priv  crypto.PrivateKey // nil for multisig
	pub   crypto.PublicKey
	parts []ident // multisig components
}

func edKeyN(tag string, n int) ident {
	h := sha256.Sum256([]byte(fmt.Sprintf("verif-ed-%s-%d", tag, n)))
	var seed int64
	for i := 0; i < 7; i++ {
		seed = seed<<8 | int64(h[i])
	}
	ks := app.GenKeys(1, seed)
	return ident{priv: ks[0].Priv, pub: ks[0].Pub}
}

func secpKey(tag string) ident {
	p := secp256k1.GenPrivKeySecp256k1([]byte("verif-secp-" + tag))
	priv := crypto.Secp256k1PrivateKey(p)
	return ident{priv: priv, pub: priv.PublicKey()}
}

func multi(parts ...ident) ident {
	pubs := make([]crypto.PublicKey, len(parts))
	for i, p := range parts {
		pubs[i] = p.pub
	}
	return ident{pub: crypto.PublicKeyMultiSignature{PublicKeys: pubs}, parts: parts}
}

func makeIdent(ktype, owner string) ident {
	switch ktype {
	case "ed":
		return edKeyN(owner+"-a", 1)
	case "secp":
		return secpKey(owner + "-a")
	case "ms2":
		return multi(edKeyN(owner+"-a", 2), secpKey(owner+"-b"))
	case "msn":
		return multi(edKeyN(owner+"-a", 3), multi(edKeyN(owner+"-c", 4), secpKey(owner+"-d")))
	case "msmax", "msbig":
		n := sigLimit - 1
		if ktype == "msbig" {
			n = sigLimit
		}
		var ps []ident
		for i := 0; i < n; i++ {
			ps = append(ps, edKeyN(owner+"-m", 10+i))
		}
		return multi(ps...)
	}
	panic("ktype " + ktype)
}

// sign produces the signature bytes of id over msg with the given defect applied at the top level.
func sign(id ident, msg []byte, defect string) []byte {
	if id.parts == nil {
		s, err := id.priv.Sign(msg)
		if err != nil {
			panic(err)
		}
		return s
	}
	sigs := make([][]byte, len(id.parts))
	for i, p := range id.parts {
		sigs[i] = sign(p, msg, "")
	}
	switch defect {
	case "ms_missing":
		sigs = sigs[:len(sigs)-1]
	case "ms_swapped":
		sigs[0], sigs[1] = sigs[1], sigs[0]
	case "ms_onebad": // last component signs a different message
		sigs[len(sigs)-1] = sign(id.parts[len(id.parts)-1], append([]byte("x"), msg...), "")
	case "ms_dup": // first component's signature repeated in the last position
		sigs[len(sigs)-1] = sigs[0]
	}
	return crypto.MultiSignature{Sigs: sigs}.Marshal()
}

func coins(x int64) sdk.Coins { return sdk.NewCoins(sdk.NewCoin(sdk.DefaultStakeDenom, sdk.NewInt(x))) }

func main() {
	if len(os.Args) < 5 || os.Args[1] != "run" {
		fmt.Fprintln(os.Stderr, "usage: authdrv run <cases.ndjson> <trace.ndjson> <seed>")
		os.Exit(2)
	}
	seed, _ := strconv.ParseInt(os.Args[4], 10, 64)
	cfg := app.Cfg{N: 3, PR: 2, MinStake: 2, MaxVals: 5, UnstakeTime: 1, Window: 5, JailDur: 1, MaxEvAge: 1, Fee: baseFee, GovFee: baseFee,
		FeeMult: 1, Bal: []int64{50, 50, 50}, DaoTokens: 9, DaoOwner: 3, AclOwner: []int{3}, KeySeed: seed, FracDen: 4}
	r, err := app.NewRunner(cfg)
	if err != nil {
		panic(err)
	}
	a := r.A
	defer a.Close()
	r.Exec(app.Action{A: "InitChain"})
	r.Exec(app.Action{A: "BeginBlock", Dt: 1, Prop: 1})
	in, err := os.Open(os.Args[2])
	if err != nil {
		panic(err)
	}
	defer in.Close()
	outf, err := os.Create(os.Args[3])
	if err != nil {
		panic(err)
	}
	defer outf.Close()
	w := bufio.NewWriter(outf)
	defer w.Flush()
	enc := json.NewEncoder(w)
	sc := bufio.NewScanner(in)
	sc.Buffer(make([]byte, 1<<20), 1<<26)
	owner := fmt.Sprintf("own%d", seed)
	attacker := fmt.Sprintf("att%d", seed)
	idCache := map[string]ident{}
	getID := func(kt, who string) ident {
		k := kt + "/" + who
		if v, ok := idCache[k]; ok {
			return v
		}
		v := makeIdent(kt, who)
		idCache[k] = v
		return v
	}
	// entropies as the transaction builder draws them (RandInt64): large; the "entropy" mutation moves it by one
	entropy := int64(1)<<61 + 1000
	n := 0
	for sc.Scan() {
		if len(sc.Bytes()) == 0 {
			continue
		}
		var c Case
		if err := json.Unmarshal(sc.Bytes(), &c); err != nil {
			panic(err)
		}
		n++
		entropy++
		own := getID(c.Ktype, owner)
		att := getID(c.Ktype, attacker)
		signer := sdk.Address(own.pub.Address())
		ctx := a.Ctx()
		// fee multiplier setting
		// the multiplier under test is configured for THIS kind of message under its documented name
		// (written out here, not taken from msg.Type()); every other kind and the default stay at 1, so a
		// lookup under a wrong name prices the transaction too low
		ap := authtypes.DefaultParams()
		ap.FeeMultiplier.Default = 1
		for _, k := range []string{"stake", "unstake", "unjail", "send", "changeparam", "upgrade", "daotransfer"} {
			m := int64(1)
			if k == c.Msg {
				m = c.Mult
			}
			ap.FeeMultiplier.FeeMultis = append(ap.FeeMultiplier.FeeMultis, authtypes.FeeMultiplier{Key: msgNames[k], Multiplier: m})
		}
		if n%2 == 0 { // (half of the cases: the plain default multiplier, nothing per message)
			ap.FeeMultiplier = authtypes.FeeMultipliers{Default: c.Mult}
		}
		a.AK.SetParams(ctx, ap)
		required := baseFee * c.Mult
		fee := required + c.FeeD
		bal := fee + c.BalD
		// the signer's account, with or without a public key in state (x/auth registers no codec
		// name for MultiSigAccount, so a multisignature key in state lives in a BaseAccount)
		{
			acc := auth.NewBaseAccountWithAddress(signer)
			acc.Coins = coins(bal)
			if c.Pksrc != "state_nokey" {
				acc.PubKey = own.pub
			}
			if c.Pksrc == "state_foreign" { // the account at the signer's address carries somebody else's key
				acc.PubKey = att.pub
			}
			a.AK.SetAccount(ctx, &acc)
		}
		// a message whose declared signer is `signer` and whose handler fails
		var msg sdk.Msg
		switch c.Msg {
		case "stake":
			msg = postypes.MsgStake{PubKey: own.pub, Value: sdk.NewInt(1)}
		case "unstake":
			msg = postypes.MsgBeginUnstake{Address: signer}
		case "unjail":
			msg = postypes.MsgUnjail{ValidatorAddr: signer}
		case "send":
			msg = postypes.MsgSend{FromAddress: signer, ToAddress: a.Addr(2), Amount: sdk.NewInt(1000000)}
		case "changeparam":
			msg = govtypes.MsgChangeParam{FromAddress: signer, ParamKey: "pos/MaxValidators", ParamVal: []byte(`"7"`)}
		case "upgrade":
			msg = govtypes.MsgUpgrade{Address: signer, Upgrade: govtypes.Upgrade{Height: 5000, Version: "9.9.9"}}
		case "daotransfer":
			msg = govtypes.MsgDAOTransfer{FromAddress: signer, ToAddress: a.Addr(2), Amount: sdk.NewInt(1), Action: govtypes.DAOTransferString}
		default:
			panic("msg " + c.Msg)
		}
		memo := "m"
		feeCoins := coins(fee)
		switch c.Fx {
		case "extra": // the stake-denomination part plus a coin of another denomination the signer holds
			feeCoins = feeCoins.Add(sdk.NewCoins(sdk.NewCoin("zzz", sdk.NewInt(1))))
		case "foreign": // nothing in the stake denomination at all
			fee = 0
			feeCoins = sdk.NewCoins(sdk.NewCoin("zzz", sdk.NewInt(5)))
		}
		{ // the signer holds the foreign coins it offers
			acc := a.AK.GetAccount(ctx, signer)
			_ = acc.SetCoins(acc.GetCoins().Add(sdk.NewCoins(sdk.NewCoin("zzz", sdk.NewInt(9)))))
			a.AK.SetAccount(ctx, acc)
		}
		chain := a.Cfg.ChainID
		if c.Mut == "chain" {
			chain += "-other"
		}
		sb, err := auth.StdSignBytes(chain, entropy, feeCoins, msg, memo)
		if err != nil {
			panic(err)
		}
		who := own
		defect := ""
		switch c.Who {
		case "own":
		case "other":
			who = att
		default:
			defect = c.Who
		}
		sig := sign(who, sb, defect)
		ss := auth.StdSignature{Signature: sig}
		switch c.Pksrc {
		case "sig_signer":
			ss.PublicKey = who.pub
		case "sig_own":
			ss.PublicKey = own.pub
		}
		tx := auth.StdTx{Msg: msg, Fee: feeCoins, Signature: ss, Memo: memo, Entropy: entropy}
		switch c.Mut {
		case "msg":
			switch m := msg.(type) {
			case postypes.MsgStake:
				m.Value = sdk.NewInt(2)
				tx.Msg = m
			case postypes.MsgBeginUnstake, postypes.MsgUnjail:
				// the only signed field is the signer address itself: re-target the message at another
				// address of the same key type (the signature then is "by another key" for that signer)
				o := sdk.Address(att.pub.Address())
				if _, ok := m.(postypes.MsgBeginUnstake); ok {
					tx.Msg = postypes.MsgBeginUnstake{Address: o}
				} else {
					tx.Msg = postypes.MsgUnjail{ValidatorAddr: o}
				}
				acc := auth.NewBaseAccountWithAddress(o)
				acc.Coins = coins(bal)
				a.AK.SetAccount(ctx, &acc)
			case postypes.MsgSend:
				m.Amount = sdk.NewInt(1000001)
				tx.Msg = m
			case govtypes.MsgChangeParam:
				m.ParamVal = []byte(`"8"`)
				tx.Msg = m
			case govtypes.MsgUpgrade:
				m.Upgrade.Height = 5001
				tx.Msg = m
			case govtypes.MsgDAOTransfer:
				m.Amount = sdk.NewInt(2)
				tx.Msg = m
			}
		case "fee":
			tx.Fee = feeCoins.Add(coins(1))
		case "memo":
			tx.Memo = memo + "x"
		case "entropy":
			tx.Entropy = entropy + []int64{1, -1, 100, 1000000}[n%4]
		case "sig":
			s2 := append([]byte{}, sig...)
			s2[len(s2)-3] ^= 0x04
			tx.Signature.Signature = s2
		}
		bz, err := a.Cdc.MarshalBinaryLengthPrefixed(tx)
		if err != nil {
			panic(err)
		}
		switch c.Rp {
		case "ok":
			a.RPC.Add(tmtypes.Tx(bz).Hash())
		case "failed":
			a.RPC.AddCode(tmtypes.Tx(bz).Hash(), 101)
		}
		payer := tx.Msg.GetSigner()
		before := a.Project()
		pb := a.AK.GetCoins(a.Ctx(), payer).AmountOf(sdk.DefaultStakeDenom).Int64()
		// the mempool's question first: CheckTx runs the same ante handler (on the check state)
		chk := a.B.CheckTx(abci.RequestCheckTx{Tx: bz})
		out := a.B.DeliverTx(abci.RequestDeliverTx{Tx: bz})
		after := a.Project()
		pa := a.AK.GetCoins(a.Ctx(), payer).AmountOf(sdk.DefaultStakeDenom).Int64()
		fi := a.Cfg.N // index of the fee collector in Bal
		o := Obs{Code: out.Code, Fee: fee, Required: required,
			SignerDelta: pa - pb, FeeDelta: after.Bal[fi] - before.Bal[fi]}
		// the payer's own account is either a named one or part of the OUT/ODD buckets (every other address)
		pi := a.ID(payer) - 1
		if pi < 0 {
			pi = a.Cfg.N + 4
			if len(payer) != sdk.AddrLen {
				pi = a.Cfg.N + 5
			}
		}
		for i := range after.Bal {
			if i != fi {
				d := after.Bal[i] - before.Bal[i]
				if i == pi {
					d -= pa - pb
				}
				if d < 0 {
					d = -d
				}
				o.OtherDelta += d
			}
		}
		switch {
		case out.Code == 0:
			o.Class = "ok"
		case o.FeeDelta != 0 || o.SignerDelta != 0:
			o.Class = "rej_post"
		default:
			o.Class = "rej_pre"
		}
		o.Accepted = o.Class != "rej_pre"
		o.CheckOK = chk.Code == 0
		if c.Rp != "no" && o.Accepted && !a.RPC.WasAsked(tmtypes.Tx(bz).Hash()) {
			fmt.Fprintln(os.Stderr, "harness failure: the tx-index lookup never reached the fake RPC server")
			os.Exit(3)
		}
		if len(out.Log) > 120 {
			o.Log = out.Log[:120]
		} else {
			o.Log = out.Log
		}
		if err := enc.Encode(map[string]interface{}{"case": c, "obs": o}); err != nil {
			panic(err)
		}
		// drain the fee collector so deltas stay small
	}
	if err := sc.Err(); err != nil {
		panic(err)
	}
	fmt.Fprintf(os.Stderr, "authdrv: %d cases, %d rpc calls\n", n, a.RPC.Calls)
}
