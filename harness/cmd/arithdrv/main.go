// arithdrv executes the REAL sdk.Int / sdk.Uint / sdk.Dec / sdk.Coins operations of posmint on
// operands read as JSON and reports what happened. It never judges a result: the TLA+
// specifications (spec/Arith.tla, spec/Coins.tla) are the oracle, python compares.
//
//	arithdrv eval            ndjson requests on stdin -> ndjson responses on stdout
//	arithdrv gen  -seed S -n N   seeded operand tuples over the full 255/256/315-bit range, already
//	                         executed on the real types (code -> spec direction)
//
// Numbers travel as decimal strings. A Dec travels as its underlying integer (units of 10^-18).
// Outcome kinds: "ok" (value in v), "panic" (recovered panic, text in msg), "skip" (the operand
// cannot be given to this operation, e.g. it does not fit the int64 of a *Raw variant).
// Every response carries the operands re-read after the call (a2, b2).
package main

import (
	"bufio"
	"encoding/json"
	"flag"
	"fmt"
	"math/big"
	"math/rand"
	"os"
	"sort"

	sdk "github.com/pokt-network/posmint/types"
)

type Req struct {
	ID   int        `json:"id"`
	Op   string     `json:"op"`
	A    string     `json:"a,omitempty"`
	B    string     `json:"b,omitempty"`
	CA   [][]string `json:"A,omitempty"` // Coins operand: [[denom, amount], ...] in the given order
	CB   [][]string `json:"B,omitempty"`
	Dens []string   `json:"denoms,omitempty"`
	Cat  string     `json:"cat,omitempty"`
}

type Outc struct {
	Op  string `json:"op,omitempty"`
	K   string `json:"k"`
	V   string `json:"v,omitempty"`
	Msg string `json:"msg,omitempty"`
}

type Resp struct {
	ID   int    `json:"id"`
	Op   string `json:"op"`
	A    string `json:"a,omitempty"`
	B    string `json:"b,omitempty"`
	Cat  string `json:"cat,omitempty"`
	K    string `json:"k"`
	V    string `json:"v,omitempty"`
	Msg  string `json:"msg,omitempty"`
	A2   string `json:"a2,omitempty"`
	B2   string `json:"b2,omitempty"`
	Alts []Outc `json:"alts,omitempty"`
	// coins
	Coins map[string]CoinOut `json:"coins,omitempty"`
}

func bi(s string) *big.Int {
	v, ok := new(big.Int).SetString(s, 10)
	if !ok {
		fmt.Fprintf(os.Stderr, "arithdrv: bad integer %q\n", s)
		os.Exit(3)
	}
	return v
}

// guard runs f and turns a panic into the "panic" outcome.
func guard(f func() string) (o Outc) {
	defer func() {
		if r := recover(); r != nil {
			o = Outc{K: "panic", Msg: fmt.Sprint(r)}
		}
	}()
	return Outc{K: "ok", V: f()}
}

func b2s(b bool) string {
	if b {
		return "1"
	}
	return "0"
}

func cmpBits(eq, gt, gte, lt, lte bool) string {
	n := 0
	if eq {
		n |= 1
	}
	if gt {
		n |= 2
	}
	if gte {
		n |= 4
	}
	if lt {
		n |= 8
	}
	if lte {
		n |= 16
	}
	return fmt.Sprint(n)
}

var skip = Outc{K: "skip"}

func mkInt(v *big.Int) (i sdk.Int, ok bool) {
	defer func() {
		if recover() != nil {
			ok = false
		}
	}()
	return sdk.NewIntFromBigInt(new(big.Int).Set(v)), true
}

func mkUint(v *big.Int) (u sdk.Uint, ok bool) {
	defer func() {
		if recover() != nil {
			ok = false
		}
	}()
	return sdk.NewUintFromBigInt(new(big.Int).Set(v)), true
}

func mkDec(v *big.Int) sdk.Dec { return sdk.Dec{Int: new(big.Int).Set(v)} }

// evalArith runs one Int/Uint/Dec operation. Operands are built fresh from the strings, so the
// only way a2/b2 can differ from a/b is that the operation mutated its operand.
func evalArith(op string, as, bs string) (main Outc, a2, b2 string, alts []Outc) {
	av := bi(as)
	var bv *big.Int
	if bs != "" {
		bv = bi(bs)
	} else {
		bv = new(big.Int)
	}
	typ := op[:3]
	switch typ {
	case "Dec":
		a, b := mkDec(av), mkDec(bv)
		var bi_ sdk.Int
		biOK := false
		needInt := op == "Dec.MulInt" || op == "Dec.QuoInt"
		if needInt {
			bi_, biOK = mkInt(bv)
			if !biOK {
				return skip, as, bs, nil
			}
		}
		switch op {
		case "Dec.Add":
			main = guard(func() string { return a.Add(b).Int.String() })
		case "Dec.Sub":
			main = guard(func() string { return a.Sub(b).Int.String() })
		case "Dec.Mul":
			main = guard(func() string { return a.Mul(b).Int.String() })
		case "Dec.MulTruncate":
			main = guard(func() string { return a.MulTruncate(b).Int.String() })
		case "Dec.MulInt":
			main = guard(func() string { return a.MulInt(bi_).Int.String() })
			if bv.IsInt64() {
				o := guard(func() string { return a.MulInt64(bv.Int64()).Int.String() })
				o.Op = "Dec.MulInt64"
				alts = append(alts, o)
			}
		case "Dec.Quo":
			main = guard(func() string { return a.Quo(b).Int.String() })
		case "Dec.QuoTruncate":
			main = guard(func() string { return a.QuoTruncate(b).Int.String() })
		case "Dec.QuoRoundUp":
			main = guard(func() string { return a.QuoRoundUp(b).Int.String() })
		case "Dec.QuoInt":
			main = guard(func() string { return a.QuoInt(bi_).Int.String() })
			if bv.IsInt64() {
				o := guard(func() string { return a.QuoInt64(bv.Int64()).Int.String() })
				o.Op = "Dec.QuoInt64"
				alts = append(alts, o)
			}
		case "Dec.Cmp":
			main = guard(func() string { return cmpBits(a.Equal(b), a.GT(b), a.GTE(b), a.LT(b), a.LTE(b)) })
		case "Dec.Min":
			main = guard(func() string { return sdk.MinDec(a, b).Int.String() })
		case "Dec.Max":
			main = guard(func() string { return sdk.MaxDec(a, b).Int.String() })
		case "Dec.RoundInt":
			main = guard(func() string { return a.RoundInt().String() })
		case "Dec.RoundInt64":
			main = guard(func() string { return fmt.Sprint(a.RoundInt64()) })
		case "Dec.TruncateInt":
			main = guard(func() string { return a.TruncateInt().String() })
		case "Dec.TruncateInt64":
			main = guard(func() string { return fmt.Sprint(a.TruncateInt64()) })
		case "Dec.TruncateDec":
			main = guard(func() string { return a.TruncateDec().Int.String() })
		case "Dec.Ceil":
			main = guard(func() string { return a.Ceil().Int.String() })
		case "Dec.Neg":
			main = guard(func() string { return a.Neg().Int.String() })
		case "Dec.Abs":
			main = guard(func() string { return a.Abs().Int.String() })
		case "Dec.IsInteger":
			main = guard(func() string { return b2s(a.IsInteger()) })
		case "Dec.StrRoundTrip":
			// String() then NewDecFromStr: a conversion pair that must be the identity
			main = guard(func() string {
				d, err := sdk.NewDecFromStr(a.String())
				if err != nil {
					panic(err)
				}
				return d.Int.String()
			})
		default:
			fmt.Fprintf(os.Stderr, "arithdrv: unknown op %q\n", op)
			os.Exit(3)
		}
		a2, b2 = a.Int.String(), b.Int.String()
		if needInt {
			b2 = bi_.String()
		}
		if bs == "" {
			b2 = ""
		}
		return
	case "Int":
		if op == "Int.New" {
			main = guard(func() string { return sdk.NewIntFromBigInt(av).String() })
			o := guard(func() string {
				i, ok := sdk.NewIntFromString(as)
				if !ok {
					panic("NewIntFromString !ok")
				}
				return i.String()
			})
			o.Op = "Int.NewFromString"
			alts = append(alts, o)
			return main, av.String(), "", alts
		}
		a, okA := mkInt(av)
		b, okB := mkInt(bv)
		if !okA || !okB {
			return skip, as, bs, nil
		}
		raw := func(name string, f func(int64) string) {
			if bv.IsInt64() {
				o := guard(func() string { return f(bv.Int64()) })
				o.Op = name
				alts = append(alts, o)
			}
		}
		switch op {
		case "Int.Add":
			main = guard(func() string { return a.Add(b).String() })
			raw("Int.AddRaw", func(n int64) string { return a.AddRaw(n).String() })
		case "Int.Sub":
			main = guard(func() string { return a.Sub(b).String() })
			raw("Int.SubRaw", func(n int64) string { return a.SubRaw(n).String() })
		case "Int.Mul":
			main = guard(func() string { return a.Mul(b).String() })
			raw("Int.MulRaw", func(n int64) string { return a.MulRaw(n).String() })
		case "Int.Quo":
			main = guard(func() string { return a.Quo(b).String() })
			raw("Int.QuoRaw", func(n int64) string { return a.QuoRaw(n).String() })
		case "Int.Mod":
			main = guard(func() string { return a.Mod(b).String() })
			raw("Int.ModRaw", func(n int64) string { return a.ModRaw(n).String() })
		case "Int.Cmp":
			main = guard(func() string { return cmpBits(a.Equal(b), a.GT(b), a.GTE(b), a.LT(b), a.LTE(b)) })
		case "Int.Min":
			main = guard(func() string { return sdk.MinInt(a, b).String() })
		case "Int.Max":
			main = guard(func() string { return sdk.MaxInt(a, b).String() })
		case "Int.Neg":
			main = guard(func() string { return a.Neg().String() })
		case "Int.Int64":
			main = guard(func() string { return fmt.Sprint(a.Int64()) })
			o := guard(func() string { return b2s(a.IsInt64()) })
			o.Op = "Int.IsInt64"
			alts = append(alts, o)
		case "Int.ToDec":
			main = guard(func() string { return a.ToDec().Int.String() })
		case "Int.Power":
			main = guard(func() string { return fmt.Sprint(sdk.TokensToConsensusPower(a)) })
		default:
			fmt.Fprintf(os.Stderr, "arithdrv: unknown op %q\n", op)
			os.Exit(3)
		}
		a2, b2 = a.String(), b.String()
		if bs == "" {
			b2 = ""
		}
		return
	case "Uin":
		if op == "Uint.New" {
			main = guard(func() string { return sdk.NewUintFromBigInt(av).String() })
			o := guard(func() string {
				u, err := sdk.ParseUint(as)
				if err != nil {
					panic(err)
				}
				return u.String()
			})
			o.Op = "Uint.Parse"
			alts = append(alts, o)
			return main, av.String(), "", alts
		}
		a, okA := mkUint(av)
		b, okB := mkUint(bv)
		if !okA || !okB {
			return skip, as, bs, nil
		}
		raw := func(name string, f func(uint64) string) {
			if bv.IsUint64() {
				o := guard(func() string { return f(bv.Uint64()) })
				o.Op = name
				alts = append(alts, o)
			}
		}
		switch op {
		case "Uint.Add":
			main = guard(func() string { return a.Add(b).String() })
			raw("Uint.AddUint64", func(n uint64) string { return a.AddUint64(n).String() })
		case "Uint.Sub":
			main = guard(func() string { return a.Sub(b).String() })
			raw("Uint.SubUint64", func(n uint64) string { return a.SubUint64(n).String() })
		case "Uint.Mul":
			main = guard(func() string { return a.Mul(b).String() })
			raw("Uint.MulUint64", func(n uint64) string { return a.MulUint64(n).String() })
		case "Uint.Quo":
			main = guard(func() string { return a.Quo(b).String() })
			raw("Uint.QuoUint64", func(n uint64) string { return a.QuoUint64(n).String() })
		case "Uint.Cmp":
			main = guard(func() string { return cmpBits(a.Equal(b), a.GT(b), a.GTE(b), a.LT(b), a.LTE(b)) })
		case "Uint.Min":
			main = guard(func() string { return sdk.MinUint(a, b).String() })
		case "Uint.Max":
			main = guard(func() string { return sdk.MaxUint(a, b).String() })
		case "Uint.Uint64":
			main = guard(func() string { return fmt.Sprint(a.Uint64()) })
		default:
			fmt.Fprintf(os.Stderr, "arithdrv: unknown op %q\n", op)
			os.Exit(3)
		}
		a2, b2 = a.String(), b.String()
		if bs == "" {
			b2 = ""
		}
		return
	}
	fmt.Fprintf(os.Stderr, "arithdrv: unknown op %q\n", op)
	os.Exit(3)
	return
}

// ---------------------------------------------------------------------------------------------
// Coins

type CoinOut struct {
	K     string     `json:"k"`
	Coins [][]string `json:"c,omitempty"` // result coin set, in the order of the slice
	Flag  *bool      `json:"f,omitempty"` // boolean result (comparisons, SafeSub's hasNeg, IsValid)
	V     string     `json:"v,omitempty"` // integer result (AmountOf)
	Valid *bool      `json:"valid,omitempty"`
	Same  bool       `json:"same"` // operands unchanged after the call
	Msg   string     `json:"msg,omitempty"`
}

func mkCoins(l [][]string) sdk.Coins {
	cs := make(sdk.Coins, 0, len(l))
	for _, c := range l {
		// a Coin literal, not NewCoin: invalid members must be expressible for IsValid/NewCoins
		cs = append(cs, sdk.Coin{Denom: c[0], Amount: sdk.NewIntFromBigInt(bi(c[1]))})
	}
	return cs
}

func showCoins(cs sdk.Coins) [][]string {
	out := make([][]string, 0, len(cs))
	for _, c := range cs {
		out = append(out, []string{c.Denom, c.Amount.String()})
	}
	return out
}

func sameCoins(cs sdk.Coins, l [][]string) bool {
	if len(cs) != len(l) {
		return false
	}
	for i, c := range cs {
		if c.Denom != l[i][0] || c.Amount.String() != l[i][1] {
			return false
		}
	}
	return true
}

func evalCoins(r Req) map[string]CoinOut {
	res := map[string]CoinOut{}
	run := func(name string, f func(A, B sdk.Coins) CoinOut) {
		A, B := mkCoins(r.CA), mkCoins(r.CB) // fresh operands for every operation
		var o CoinOut
		func() {
			defer func() {
				if p := recover(); p != nil {
					o = CoinOut{K: "panic", Msg: fmt.Sprint(p)}
				}
			}()
			o = f(A, B)
			o.K = "ok"
		}()
		o.Same = sameCoins(A, r.CA) && sameCoins(B, r.CB)
		res[name] = o
	}
	cres := func(c sdk.Coins) CoinOut {
		v := c.IsValid()
		return CoinOut{Coins: showCoins(c), Valid: &v}
	}
	fres := func(b bool) CoinOut { return CoinOut{Flag: &b} }
	switch r.Op {
	case "Coins.Pair": // every binary operation on the pair (A, B)
		run("Add", func(A, B sdk.Coins) CoinOut { return cres(A.Add(B)) })
		run("Sub", func(A, B sdk.Coins) CoinOut { return cres(A.Sub(B)) })
		run("SafeSub", func(A, B sdk.Coins) CoinOut {
			d, neg := A.SafeSub(B)
			o := cres(d)
			o.Flag = &neg
			return o
		})
		run("AddSub", func(A, B sdk.Coins) CoinOut { return cres(A.Add(B).Sub(B)) })
		run("SubAdd", func(A, B sdk.Coins) CoinOut { return cres(A.Sub(B).Add(B)) })
		run("IsAllGT", func(A, B sdk.Coins) CoinOut { return fres(A.IsAllGT(B)) })
		run("IsAllGTE", func(A, B sdk.Coins) CoinOut { return fres(A.IsAllGTE(B)) })
		run("IsAllLT", func(A, B sdk.Coins) CoinOut { return fres(A.IsAllLT(B)) })
		run("IsAllLTE", func(A, B sdk.Coins) CoinOut { return fres(A.IsAllLTE(B)) })
		run("IsAnyGT", func(A, B sdk.Coins) CoinOut { return fres(A.IsAnyGT(B)) })
		run("IsAnyGTE", func(A, B sdk.Coins) CoinOut { return fres(A.IsAnyGTE(B)) })
		run("IsEqual", func(A, B sdk.Coins) CoinOut { return fres(A.IsEqual(B)) })
		run("DenomsSubsetOf", func(A, B sdk.Coins) CoinOut { return fres(A.DenomsSubsetOf(B)) })
	case "Coins.One": // every unary operation on A (any sequence of coins, valid or not)
		run("IsValid", func(A, B sdk.Coins) CoinOut { return fres(A.IsValid()) })
		run("NewCoins", func(A, B sdk.Coins) CoinOut {
			// NewCoins works in place on its variadic slice: hand it a copy, as a caller with
			// a literal argument list would
			cp := append(sdk.Coins(nil), A...)
			return cres(sdk.NewCoins(cp...))
		})
		run("IsZero", func(A, B sdk.Coins) CoinOut { return fres(A.IsZero()) })
		run("Empty", func(A, B sdk.Coins) CoinOut { return fres(A.Empty()) })
		run("IsAllPositive", func(A, B sdk.Coins) CoinOut { return fres(A.IsAllPositive()) })
		run("IsAnyNegative", func(A, B sdk.Coins) CoinOut { return fres(A.IsAnyNegative()) })
		for _, d := range r.Dens {
			d := d
			run("AmountOf:"+d, func(A, B sdk.Coins) CoinOut { return CoinOut{V: A.AmountOf(d).String()} })
		}
	default:
		fmt.Fprintf(os.Stderr, "arithdrv: unknown coins op %q\n", r.Op)
		os.Exit(3)
	}
	return res
}

// ---------------------------------------------------------------------------------------------

func handle(r Req) Resp {
	if len(r.Op) > 6 && r.Op[:6] == "Coins." {
		return Resp{ID: r.ID, Op: r.Op, K: "ok", Coins: evalCoins(r)}
	}
	o, a2, b2, alts := evalArith(r.Op, r.A, r.B)
	return Resp{ID: r.ID, Op: r.Op, A: r.A, B: r.B, Cat: r.Cat, K: o.K, V: o.V, Msg: o.Msg, A2: a2, B2: b2, Alts: alts}
}

func evalMode() {
	in := bufio.NewScanner(os.Stdin)
	in.Buffer(make([]byte, 1<<20), 1<<26)
	out := bufio.NewWriterSize(os.Stdout, 1<<20)
	defer out.Flush()
	enc := json.NewEncoder(out)
	for in.Scan() {
		line := in.Bytes()
		if len(line) == 0 {
			continue
		}
		var r Req
		if err := json.Unmarshal(line, &r); err != nil {
			fmt.Fprintf(os.Stderr, "arithdrv: bad request: %v\n", err)
			os.Exit(3)
		}
		if err := enc.Encode(handle(r)); err != nil {
			panic(err)
		}
	}
}

// ---------------------------------------------------------------------------------------------
// gen: seeded operands over the full range. The generator knows number theory, not the answers.

var (
	one    = big.NewInt(1)
	ten18  = new(big.Int).Exp(big.NewInt(10), big.NewInt(18), nil)
	five17 = new(big.Int).Quo(ten18, big.NewInt(2))
	intMax = new(big.Int).Sub(new(big.Int).Lsh(one, 255), one)
	uMax   = new(big.Int).Sub(new(big.Int).Lsh(one, 256), one)
	decMax = new(big.Int).Sub(new(big.Int).Lsh(one, 315), one)
	i64Max = new(big.Int).Sub(new(big.Int).Lsh(one, 63), one)
	u64Max = new(big.Int).Sub(new(big.Int).Lsh(one, 64), one)
)

type gen struct {
	r   *rand.Rand
	out []Req
}

func (g *gen) bits(n int) *big.Int { // uniform below 2^n with a random bit length <= n
	if n <= 0 {
		return new(big.Int)
	}
	k := g.r.Intn(n + 1)
	if k == 0 {
		return new(big.Int)
	}
	v := new(big.Int).Rand(g.r, new(big.Int).Lsh(one, uint(k-1)))
	return v.Add(v, new(big.Int).Lsh(one, uint(k-1)))
}

func (g *gen) sign(v *big.Int) *big.Int {
	if g.r.Intn(2) == 0 {
		return new(big.Int).Neg(v)
	}
	return v
}

func (g *gen) delta() *big.Int { return big.NewInt(int64(g.r.Intn(3) - 1)) }

func add(a, b *big.Int) *big.Int { return new(big.Int).Add(a, b) }
func sub(a, b *big.Int) *big.Int { return new(big.Int).Sub(a, b) }
func mul(a, b *big.Int) *big.Int { return new(big.Int).Mul(a, b) }
func quo(a, b *big.Int) *big.Int { return new(big.Int).Quo(a, b) }
func p10(k int) *big.Int         { return new(big.Int).Exp(big.NewInt(10), big.NewInt(int64(k)), nil) }

func clamp(v, max *big.Int) *big.Int {
	if v.CmpAbs(max) > 0 {
		if v.Sign() < 0 {
			return new(big.Int).Neg(max)
		}
		return new(big.Int).Set(max)
	}
	return v
}

// val: one "interesting" value with magnitude <= max
func (g *gen) val(max *big.Int, nbits int) *big.Int {
	var v *big.Int
	switch g.r.Intn(8) {
	case 0:
		v = big.NewInt(int64(g.r.Intn(41) - 20))
	case 1:
		v = g.sign(p10(g.r.Intn(96)))
	case 2: // around a power of two that is a bound somewhere
		ks := []int{63, 64, 255, 256, 315, g.r.Intn(316)}
		v = g.sign(add(new(big.Int).Lsh(one, uint(ks[g.r.Intn(len(ks))])), g.delta()))
	case 3: // a rounding tie of the 18 chopped digits, or one unit either side
		q := g.bits(g.r.Intn(nbits-58) + 1)
		v = g.sign(add(add(mul(q, ten18), five17), g.delta()))
	case 4: // one unit either side of the bound
		v = g.sign(sub(max, big.NewInt(int64(g.r.Intn(3)))))
	case 5: // integer valued decimal, or just off it
		v = g.sign(add(mul(g.bits(g.r.Intn(nbits-58)+1), ten18), g.delta()))
	default:
		v = g.sign(g.bits(nbits))
	}
	return clamp(v, max)
}

func (g *gen) emit(op, cat string, a, b *big.Int) {
	r := Req{ID: len(g.out), Op: op, Cat: cat, A: a.String()}
	if b != nil {
		r.B = b.String()
	}
	g.out = append(g.out, r)
}

// solve a*mult = rem (mod m) for a; nil if mult is not invertible
func solve(mult, rem, m *big.Int) *big.Int {
	inv := new(big.Int).ModInverse(new(big.Int).Mod(mult, m), m)
	if inv == nil {
		return nil
	}
	a := mul(inv, rem)
	return a.Mod(a, m)
}

func (g *gen) decPair(op string) {
	switch op {
	case "Dec.Add", "Dec.Sub":
		switch g.r.Intn(3) {
		case 0: // the sum / difference lands within one unit of the bound
			a := g.val(decMax, 315)
			t := g.sign(sub(decMax, big.NewInt(int64(g.r.Intn(3)-1)))) // bound-1, bound, bound+1
			b := sub(t, a)
			if op == "Dec.Sub" {
				b = sub(a, t)
			}
			if b.CmpAbs(decMax) <= 0 {
				g.emit(op, "bound", a, b)
				return
			}
			fallthrough
		default:
			g.emit(op, "mixed", g.val(decMax, 315), g.val(decMax, 315))
		}
	case "Dec.Mul", "Dec.MulTruncate":
		switch g.r.Intn(5) {
		case 0: // a*b is an exact tie: 5*10^8*m times 10^9*n with m*n odd
			m := add(mul(g.bits(100), big.NewInt(2)), one)
			n := add(mul(g.bits(100), big.NewInt(2)), one)
			g.emit(op, "tie", g.sign(mul(m, big.NewInt(500000000))), g.sign(mul(n, big.NewInt(1000000000))))
		case 1: // the product is a tie-adjacent value times one unit
			q := g.bits(250)
			g.emit(op, "tie-adjacent", g.sign(add(add(mul(q, ten18), five17), g.delta())), g.sign(big.NewInt(1)))
		case 2: // the rounded product lands on the overflow bound or next to it
			a := g.val(decMax, 315)
			if a.Sign() == 0 {
				a = big.NewInt(7)
			}
			t := add(mul(decMax, ten18), mul(g.delta(), five17))
			b := add(quo(t, a), g.delta())
			g.emit(op, "bound", a, clamp(b, decMax))
		default:
			na := g.r.Intn(316)
			g.emit(op, "mixed", g.sign(g.bits(na)), g.val(decMax, 315))
		}
	case "Dec.Quo", "Dec.QuoTruncate", "Dec.QuoRoundUp":
		switch g.r.Intn(8) {
		case 0:
			g.emit(op, "div0", g.val(decMax, 315), new(big.Int))
		case 1: // exact tie: (2q+1) / 2.0
			q := g.bits(250)
			g.emit(op, "tie", g.sign(add(mul(q, big.NewInt(2)), one)), g.sign(mul(big.NewInt(2), ten18)))
		case 2, 3: // the exact quotient sits a hair (< 10^-36) above a tie of the 18th decimal:
			// a*10^18 = k*b + (b+1)/2 with b odd and coprime to 10. The parity of k depends on b
			// only; an even k is the case in which rounding the truncated quotient differs from
			// rounding the exact one, so divisors with even k are preferred (3 of 4).
			wantEven := g.r.Intn(4) != 0
			for try := 0; try < 12; try++ {
				b := add(ten18, big.NewInt(int64(2*g.r.Intn(500000)+1)))
				if g.r.Intn(2) == 0 {
					b = add(mul(g.bits(120), big.NewInt(2)), add(ten18, one))
				}
				rem := quo(add(b, one), big.NewInt(2))
				cat := "hair-above-tie"
				if g.r.Intn(5) == 0 {
					rem = quo(sub(b, one), big.NewInt(2))
					cat = "hair-below-tie"
				}
				a := solve(ten18, rem, b)
				if a == nil {
					continue
				}
				k := quo(sub(mul(a, ten18), rem), b)
				if (k.Bit(0) == 0) != wantEven && try < 11 {
					continue
				}
				if k.Bit(0) == 0 {
					cat += "-even"
				} else {
					cat += "-odd"
				}
				a = add(a, mul(b, g.bits(60)))
				g.emit(op, cat, g.sign(a), g.sign(b))
				return
			}
			g.emit(op, "mixed", g.val(decMax, 315), g.val(decMax, 315))
		case 4: // the exact quotient sits a hair above an exact 18-decimal value: a*10^18 = k*b + 1
			b := add(mul(g.bits(140), big.NewInt(2)), add(mul(ten18, big.NewInt(3)), one))
			a := solve(ten18, one, b)
			if a == nil {
				g.emit(op, "mixed", g.val(decMax, 315), b)
				return
			}
			a = add(a, mul(b, g.bits(40)))
			g.emit(op, "hair-above-exact", g.sign(a), g.sign(b))
		case 5: // quotient at the overflow bound: tiny divisors
			a := g.val(decMax, 315)
			g.emit(op, "bound", a, g.sign(add(quo(mul(a, ten18), decMax), g.delta())))
		default:
			g.emit(op, "mixed", g.val(decMax, 315), g.val(decMax, 315))
		}
	case "Dec.MulInt":
		if g.r.Intn(3) == 0 {
			a := g.val(decMax, 315)
			if a.Sign() == 0 {
				a = big.NewInt(3)
			}
			g.emit(op, "bound", a, clamp(add(quo(decMax, a), g.delta()), intMax))
		} else {
			g.emit(op, "mixed", g.val(decMax, 315), g.val(intMax, 255))
		}
	case "Dec.QuoInt":
		switch g.r.Intn(4) {
		case 0:
			g.emit(op, "div0", g.val(decMax, 315), new(big.Int))
		case 1: // tie: odd / 2, odd*k / 2k
			k := add(g.bits(62), one)
			q := add(mul(g.bits(200), big.NewInt(2)), one)
			g.emit(op, "tie", g.sign(mul(q, k)), g.sign(mul(k, big.NewInt(2))))
		default:
			g.emit(op, "mixed", g.val(decMax, 315), g.val(intMax, 255))
		}
	default:
		g.emit(op, "mixed", g.val(decMax, 315), g.val(decMax, 315))
	}
}

func (g *gen) decUnary(op string) {
	switch op {
	case "Dec.RoundInt", "Dec.TruncateInt":
		if g.r.Intn(3) == 0 { // rounds onto the Int bound or next to it
			t := add(mul(add(intMax, g.delta()), ten18), add(mul(g.delta(), five17), g.delta()))
			g.emit(op, "bound", clamp(g.sign(t), decMax), nil)
			return
		}
	case "Dec.RoundInt64", "Dec.TruncateInt64":
		if g.r.Intn(2) == 0 {
			lim := add(i64Max, big.NewInt(int64(g.r.Intn(2)))) // 2^63-1 or 2^63 (the negative bound)
			t := add(mul(add(lim, g.delta()), ten18), add(mul(g.delta(), five17), g.delta()))
			g.emit(op, "bound", g.sign(t), nil)
			return
		}
	case "Dec.Ceil":
		if g.r.Intn(3) == 0 {
			g.emit(op, "bound", g.sign(sub(decMax, g.bits(62))), nil)
			return
		}
	}
	g.emit(op, "mixed", g.val(decMax, 315), nil)
}

func (g *gen) intPair(op string, max *big.Int, nbits int, signed bool) {
	v := func() *big.Int {
		x := g.val(max, nbits)
		if !signed {
			x.Abs(x)
		}
		return x
	}
	name := op[len(op)-3:]
	switch name {
	case "Add", "Sub":
		if g.r.Intn(2) == 0 {
			a := v()
			t := sub(max, big.NewInt(int64(g.r.Intn(3)-1)))
			if signed {
				t = g.sign(t)
			}
			b := sub(t, a)
			if name == "Sub" {
				b = sub(a, t)
			}
			if !signed && name == "Sub" && g.r.Intn(2) == 0 { // around zero: a - b in {-1, 0, 1}
				b = add(a, g.delta())
			}
			if b.CmpAbs(max) <= 0 && (signed || b.Sign() >= 0) {
				g.emit(op, "bound", a, b)
				return
			}
		}
		g.emit(op, "mixed", v(), v())
	case "Mul":
		switch g.r.Intn(4) {
		case 0: // powers of two: the bit-length pre-check boundary
			k := g.r.Intn(nbits)
			a := new(big.Int).Lsh(one, uint(k))
			b := add(new(big.Int).Lsh(one, uint(nbits-k-g.r.Intn(2))), g.delta())
			if signed {
				a, b = g.sign(a), g.sign(b)
			}
			g.emit(op, "bitlen", clamp(a, max), clamp(b, max))
		case 1: // product within one of the bound
			a := v()
			if a.Sign() == 0 {
				a = big.NewInt(3)
			}
			b := add(quo(max, a), g.delta())
			if !signed {
				b.Abs(b)
			}
			g.emit(op, "bound", a, clamp(b, max))
		default:
			na := g.r.Intn(nbits + 1)
			a := g.bits(na)
			if signed {
				a = g.sign(a)
			}
			g.emit(op, "mixed", a, v())
		}
	case "Quo", "Mod":
		if g.r.Intn(6) == 0 {
			g.emit(op, "div0", v(), new(big.Int))
		} else {
			g.emit(op, "mixed", v(), v())
		}
	default:
		g.emit(op, "mixed", v(), v())
	}
}

// boundarySuite: fixed cases one unit either side of every range bound (independent of the seed)
func (g *gen) boundarySuite() {
	two := big.NewInt(2)
	neg := func(v *big.Int) *big.Int { return new(big.Int).Neg(v) }
	type rng struct {
		t      string
		max    *big.Int
		bits   int
		signed bool
	}
	for _, r := range []rng{{"Int", intMax, 255, true}, {"Uint", uMax, 256, false}, {"Dec", decMax, 315, true}} {
		m, m1 := r.max, sub(r.max, one)
		zero := new(big.Int)
		for _, p := range [][2]*big.Int{{m, zero}, {m, one}, {m1, one}, {m1, two}, {one, m}, {m, m}} {
			g.emit(r.t+".Add", "suite", p[0], p[1])
		}
		g.emit(r.t+".Sub", "suite", m, zero)
		g.emit(r.t+".Sub", "suite", m, m)
		if r.signed {
			for _, p := range [][2]*big.Int{{neg(m), neg(one)}, {neg(m), zero}, {neg(m1), neg(one)}, {neg(m1), neg(two)}, {m, neg(m)}, {neg(m), neg(m)}} {
				g.emit(r.t+".Add", "suite", p[0], p[1])
			}
			for _, p := range [][2]*big.Int{{m, neg(one)}, {m1, neg(one)}, {neg(m), one}, {neg(m1), one}, {neg(m), m}, {m, neg(m)}} {
				g.emit(r.t+".Sub", "suite", p[0], p[1])
			}
		} else {
			for _, p := range [][2]*big.Int{{zero, one}, {one, one}, {zero, zero}, {big.NewInt(5), big.NewInt(6)}, {m1, m}} {
				g.emit(r.t+".Sub", "suite", p[0], p[1])
			}
		}
		if r.t != "Dec" {
			half := add(quo(m, two), one) // 2^(bits-1)
			for _, p := range [][2]*big.Int{{m, one}, {m, two}, {half, two}, {sub(half, one), two}, {quo(m, big.NewInt(3)), big.NewInt(3)},
				{add(quo(m, big.NewInt(3)), one), big.NewInt(3)}} {
				g.emit(r.t+".Mul", "suite", p[0], p[1])
				if r.signed {
					g.emit(r.t+".Mul", "suite", neg(p[0]), p[1])
					g.emit(r.t+".Mul", "suite", neg(p[0]), neg(p[1]))
				}
			}
			for _, k := range []int{1, 64, 127, r.bits - 1} {
				a := new(big.Int).Lsh(one, uint(k))
				g.emit(r.t+".Mul", "suite-bitlen", a, new(big.Int).Lsh(one, uint(r.bits-k)))           // 2^bits: out
				g.emit(r.t+".Mul", "suite-bitlen", a, new(big.Int).Lsh(one, uint(r.bits-k-1)))         // 2^(bits-1): in
				g.emit(r.t+".Mul", "suite-bitlen", a, sub(new(big.Int).Lsh(one, uint(r.bits-k)), one)) // just below 2^bits
			}
			g.emit(r.t+".Quo", "suite", m, zero)
			g.emit(r.t+".Quo", "suite", m, one)
			g.emit(r.t+".Quo", "suite", m, m)
		}
	}
	// the native-integer forms (AddRaw, SubRaw, MulRaw, QuoRaw, ModRaw; Dec.MulInt64 / QuoInt64) take an int64:
	// both ends of its range and their neighbours as the second operand (negating or widening the
	// smallest int64 natively wraps)
	i64Min := new(big.Int).Neg(add(i64Max, one))
	for _, b := range []*big.Int{i64Min, add(i64Min, one), i64Max, sub(i64Max, one), big.NewInt(-1), one} {
		for _, a := range []*big.Int{new(big.Int), one, big.NewInt(-1), i64Max, i64Min, big.NewInt(7), sub(intMax, i64Max), neg(sub(intMax, i64Max))} {
			for _, op := range []string{"Int.Add", "Int.Sub", "Int.Mul", "Int.Quo", "Int.Mod"} {
				g.emit(op, "suite-int64", a, b)
			}
		}
		for _, a := range []*big.Int{new(big.Int), ten18, neg(ten18), five17, mul(i64Max, ten18), big.NewInt(3)} {
			g.emit("Dec.MulInt", "suite-int64", a, b)
			g.emit("Dec.QuoInt", "suite-int64", a, b)
		}
	}
	// Dec: products / quotients / conversions that land on a bound
	for _, d := range []int64{-1, 0, 1} {
		g.emit("Dec.Mul", "suite", decMax, add(ten18, big.NewInt(d)))
		g.emit("Dec.MulTruncate", "suite", decMax, add(ten18, big.NewInt(d)))
		g.emit("Dec.Quo", "suite", decMax, add(ten18, big.NewInt(d)))
		g.emit("Dec.QuoTruncate", "suite", decMax, add(ten18, big.NewInt(d)))
		g.emit("Dec.QuoRoundUp", "suite", decMax, add(ten18, big.NewInt(d)))
		g.emit("Dec.MulInt", "suite", add(quo(decMax, two), big.NewInt(d+1)), two)
		for _, sgn := range []int64{1, -1} {
			s := big.NewInt(sgn)
			g.emit("Dec.RoundInt", "suite", mul(s, add(add(mul(intMax, ten18), five17), big.NewInt(d))), nil)
			g.emit("Dec.RoundInt", "suite", mul(s, add(sub(mul(intMax, ten18), five17), big.NewInt(d))), nil)
			g.emit("Dec.TruncateInt", "suite", mul(s, add(mul(add(intMax, one), ten18), big.NewInt(d))), nil)
			g.emit("Dec.RoundInt64", "suite", mul(s, add(add(mul(i64Max, ten18), five17), big.NewInt(d))), nil)
			g.emit("Dec.RoundInt64", "suite", mul(s, add(add(mul(add(i64Max, one), ten18), five17), big.NewInt(d))), nil)
			g.emit("Dec.TruncateInt64", "suite", mul(s, add(mul(add(i64Max, one), ten18), big.NewInt(d))), nil)
			g.emit("Dec.TruncateInt64", "suite", mul(s, add(mul(add(i64Max, two), ten18), big.NewInt(d))), nil)
			g.emit("Dec.Ceil", "suite", mul(s, add(sub(decMax, ten18), big.NewInt(d))), nil)
			g.emit("Int.Int64", "suite", mul(s, add(i64Max, big.NewInt(d+1))), nil)
			g.emit("Int.New", "suite", mul(s, add(intMax, big.NewInt(d))), nil)
		}
		g.emit("Uint.New", "suite", add(uMax, big.NewInt(d)), nil)
		g.emit("Uint.New", "suite", big.NewInt(d), nil)
		g.emit("Uint.Uint64", "suite", add(u64Max, big.NewInt(d)), nil)
		g.emit("Dec.Quo", "suite", big.NewInt(d), new(big.Int))
		g.emit("Dec.QuoInt", "suite", big.NewInt(d), new(big.Int))
		g.emit("Int.Mod", "suite", big.NewInt(d), new(big.Int))
	}
}

func genMode(seed int64, n int) {
	g := &gen{r: rand.New(rand.NewSource(seed))}
	g.boundarySuite()
	n += len(g.out)
	decBin := []string{"Dec.Add", "Dec.Sub", "Dec.Mul", "Dec.MulTruncate", "Dec.MulInt", "Dec.Quo", "Dec.Quo",
		"Dec.QuoTruncate", "Dec.QuoRoundUp", "Dec.QuoRoundUp", "Dec.QuoInt", "Dec.Cmp", "Dec.Min", "Dec.Max"}
	decUn := []string{"Dec.RoundInt", "Dec.RoundInt64", "Dec.TruncateInt", "Dec.TruncateInt64", "Dec.TruncateDec",
		"Dec.Ceil", "Dec.Neg", "Dec.Abs", "Dec.IsInteger", "Dec.StrRoundTrip"}
	intBin := []string{"Int.Add", "Int.Sub", "Int.Mul", "Int.Mul", "Int.Quo", "Int.Mod", "Int.Cmp", "Int.Min", "Int.Max"}
	intUn := []string{"Int.Neg", "Int.Int64", "Int.ToDec", "Int.Power"}
	uBin := []string{"Uint.Add", "Uint.Sub", "Uint.Mul", "Uint.Quo", "Uint.Cmp", "Uint.Min", "Uint.Max"}
	for len(g.out) < n {
		switch g.r.Intn(12) {
		case 0, 1, 2, 3, 4:
			g.decPair(decBin[g.r.Intn(len(decBin))])
		case 5, 6:
			g.decUnary(decUn[g.r.Intn(len(decUn))])
		case 7, 8:
			g.intPair(intBin[g.r.Intn(len(intBin))], intMax, 255, true)
		case 9:
			op := intUn[g.r.Intn(len(intUn))]
			if op == "Int.Int64" || op == "Int.Power" {
				lim := add(i64Max, big.NewInt(int64(g.r.Intn(2))))
				if op == "Int.Power" {
					lim = add(mul(lim, big.NewInt(1000000)), big.NewInt(int64(g.r.Intn(3)-1)*999999))
				}
				if g.r.Intn(2) == 0 {
					g.emit(op, "bound", g.sign(add(lim, g.delta())), nil)
					continue
				}
			}
			g.emit(op, "mixed", g.val(intMax, 255), nil)
		case 10:
			g.intPair(uBin[g.r.Intn(len(uBin))], uMax, 256, false)
		default:
			switch g.r.Intn(3) {
			case 0: // constructors one unit either side of the bounds (and far outside)
				g.emit("Int.New", "bound", g.sign(add(intMax, big.NewInt(int64(g.r.Intn(4)-1)))), nil)
			case 1:
				v := add(uMax, big.NewInt(int64(g.r.Intn(4)-1)))
				if g.r.Intn(3) == 0 {
					v = big.NewInt(int64(-g.r.Intn(3)))
				}
				g.emit("Uint.New", "bound", v, nil)
			default:
				a := g.val(uMax, 256)
				g.emit("Uint.Uint64", "mixed", a.Abs(a), nil)
				g.emit("Uint.Uint64", "bound", add(u64Max, g.delta()), nil)
			}
		}
	}
	out := bufio.NewWriterSize(os.Stdout, 1<<20)
	defer out.Flush()
	enc := json.NewEncoder(out)
	for _, r := range g.out {
		if err := enc.Encode(handle(r)); err != nil {
			panic(err)
		}
	}
}

func main() {
	if len(os.Args) < 2 {
		fmt.Fprintln(os.Stderr, "usage: arithdrv eval | gen -seed S -n N")
		os.Exit(3)
	}
	switch os.Args[1] {
	case "eval":
		evalMode()
	case "gen":
		fs := flag.NewFlagSet("gen", flag.ExitOnError)
		seed := fs.Int64("seed", 1, "seed")
		n := fs.Int("n", 300, "number of tuples")
		_ = fs.Parse(os.Args[2:])
		genMode(*seed, *n)
	default:
		fmt.Fprintln(os.Stderr, "usage: arithdrv eval | gen -seed S -n N")
		os.Exit(3)
	}
	_ = sort.Strings
}
