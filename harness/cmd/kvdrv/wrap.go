package main

import (
	"bytes"
	"encoding/base64"
	"encoding/json"
	"fmt"
	"math"
	"strings"

	dbm "github.com/tendermint/tm-db"

	"github.com/pokt-network/posmint/store/cachekv"
	"github.com/pokt-network/posmint/store/dbadapter"
	"github.com/pokt-network/posmint/store/gaskv"
	"github.com/pokt-network/posmint/store/prefix"
	"github.com/pokt-network/posmint/store/tracekv"
	"github.com/pokt-network/posmint/store/types"
)

// C16: a stack of store wrappers (outermost first) over dbadapter.Store{MemDB}.

type Layer struct {
	T string `json:"t"` // prefix | gas | trace | cache
	P Bz     `json:"p"`
	// spare capacity of the prefix slice handed to prefix.NewStore: callers such as types/param.go build
	// their prefix with append(name, '/') on a slice with room to grow, so cap > len is the normal case
	Cap int `json:"cap"`
}

type MeterCfg struct {
	Kind string `json:"kind"` // basic | inf
	Lim  int64  `json:"lim"`  // limit relative to the pre-consumed start, -1: none (MaxUint64)
	Room int64  `json:"room"` // MaxUint64 - start, -1: start = 0
}

type WOp struct {
	Op  string `json:"op"`
	K   Bz     `json:"k"`
	V   Bz     `json:"v"`
	St  OptBz  `json:"st"`
	En  OptBz  `json:"en"`
	Asc bool   `json:"asc"`
}

type WrapProgram struct {
	ID    string   `json:"id"`
	Stack []Layer  `json:"stack"`
	Meter MeterCfg `json:"meter"`
	Init  [][2]Bz  `json:"init"`
	Ops   []WOp    `json:"ops"`
}

type WObs struct {
	R    interface{}      `json:"r"`
	Gas  int64            `json:"gas"`
	Pan  string           `json:"pan"`
	Desc string           `json:"desc,omitempty"`
	Tr   [][3]interface{} `json:"tr"`
	B    [][2]Bz          `json:"b"`
}

type WrapResult struct {
	ID  string `json:"id"`
	Obs []WObs `json:"obs"`
}

func optBz(v []byte) []Bz {
	if v == nil {
		return []Bz{}
	}
	return []Bz{Bz(append([]byte{}, v...))}
}

func runWrap(p *WrapProgram) (out WrapResult) {
	out.ID = p.ID
	base := dbadapter.Store{DB: dbm.NewMemDB()}
	for _, kv := range p.Init {
		base.Set(kv[0], kv[1])
	}
	// gas meter, pre-consumed so that totals near 2^64 stay small numbers for the specification
	var start uint64
	if p.Meter.Room >= 0 {
		start = math.MaxUint64 - uint64(p.Meter.Room)
	}
	var meter types.GasMeter
	if p.Meter.Kind == "inf" {
		meter = types.NewInfiniteGasMeter()
	} else {
		limit := uint64(math.MaxUint64)
		if p.Meter.Lim >= 0 {
			limit = start + uint64(p.Meter.Lim)
		}
		meter = types.NewGasMeter(limit)
	}
	if start > 0 {
		meter.ConsumeGas(start, "pre-consumed")
	}
	var tbuf bytes.Buffer
	var cache *cachekv.Store
	var cur types.KVStore = base
	for i := len(p.Stack) - 1; i >= 0; i-- {
		switch l := p.Stack[i]; l.T {
		case "prefix":
			pb := make([]byte, len(l.P), len(l.P)+l.Cap)
			copy(pb, l.P)
			cur = prefix.NewStore(cur, pb)
		case "gas":
			cur = gaskv.NewStore(cur, meter, types.KVGasConfig())
		case "trace":
			cur = tracekv.NewStore(cur, &tbuf, types.TraceContext{"blockHeight": 64})
		case "cache":
			cache = cachekv.NewStore(cur)
			cur = cache
		default:
			panic("unknown layer " + l.T)
		}
	}
	top := cur
	var it types.Iterator
	closeIt := func() {
		if it != nil {
			func() {
				defer func() { recover() }()
				it.Close()
			}()
			it = nil
		}
	}
	for _, op := range p.Ops {
		if op.Op == "End" {
			break
		}
		var o WObs
		func() {
			defer func() {
				if r := recover(); r != nil {
					o.R = "panic"
					switch e := r.(type) {
					case types.ErrorOutOfGas:
						o.Pan, o.Desc = "OutOfGas", e.Descriptor
					case types.ErrorGasOverflow:
						o.Pan, o.Desc = "GasOverflow", e.Descriptor
					default:
						msg := fmt.Sprint(r)
						if strings.Contains(msg, "cannot CacheWrap") {
							o.Pan = "refused"
						} else {
							o.Pan = "other: " + msg
						}
					}
				}
			}()
			switch op.Op {
			case "Get":
				o.R = optBz(top.Get(op.K))
			case "Has":
				o.R = top.Has(op.K)
			case "Set":
				closeIt()
				top.Set(op.K, op.V)
				o.R = "ok"
			case "Delete":
				closeIt()
				top.Delete(op.K)
				o.R = "ok"
			case "Flush":
				closeIt()
				cache.Write()
				o.R = "ok"
			case "CacheWrap":
				top.CacheWrap()
				o.R = "ok"
			case "IterAll":
				var i2 types.Iterator
				if op.Asc {
					i2 = top.Iterator(op.St.bytes(), op.En.bytes())
				} else {
					i2 = top.ReverseIterator(op.St.bytes(), op.En.bytes())
				}
				items := [][2]Bz{}
				for n := 0; i2.Valid(); n++ {
					if n > 100000 {
						panic("iterator does not terminate")
					}
					k := i2.Key()
					v := i2.Value()
					items = append(items, [2]Bz{append(Bz{}, k...), append(Bz{}, v...)})
					i2.Next()
				}
				i2.Close()
				o.R = items
			case "IterOpen":
				if op.Asc {
					it = top.Iterator(op.St.bytes(), op.En.bytes())
				} else {
					it = top.ReverseIterator(op.St.bytes(), op.En.bytes())
				}
				o.R = "ok"
			case "IterRead":
				if it.Valid() {
					k := it.Key()
					v := it.Value()
					o.R = [][2]Bz{{append(Bz{}, k...), append(Bz{}, v...)}}
				} else {
					o.R = [][2]Bz{}
				}
			case "IterNext":
				it.Next()
				o.R = "ok"
			case "IterNextIfValid": // random programs do not know the content
				if it.Valid() {
					it.Next()
					o.R = "ok"
				} else {
					o.R = "exhausted"
				}
			case "IterClose":
				closeIt()
				o.R = "ok"
			default:
				panic("driver: unknown op " + op.Op)
			}
		}()
		if o.Pan == "GasOverflow" {
			o.Gas = -1
		} else {
			o.Gas = int64(meter.GasConsumed() - start)
		}
		o.Tr = decodeTrace(&tbuf)
		o.B = dump(base)
		out.Obs = append(out.Obs, o)
		if o.Pan == "OutOfGas" || o.Pan == "GasOverflow" {
			break // the program ends at a gas panic (as in the specification)
		}
	}
	closeIt()
	return out
}

func dump(s types.KVStore) [][2]Bz {
	res := [][2]Bz{}
	it := s.Iterator(nil, nil)
	defer it.Close()
	for ; it.Valid(); it.Next() {
		res = append(res, [2]Bz{append(Bz{}, it.Key()...), append(Bz{}, it.Value()...)})
	}
	return res
}

// decodeTrace parses the JSON lines tracekv wrote since the last call: [operation, key, value]
func decodeTrace(buf *bytes.Buffer) [][3]interface{} {
	res := [][3]interface{}{}
	for _, line := range strings.Split(buf.String(), "\n") {
		if line == "" {
			continue
		}
		var t struct {
			Operation string                 `json:"operation"`
			Key       string                 `json:"key"`
			Value     string                 `json:"value"`
			Metadata  map[string]interface{} `json:"metadata"`
		}
		if err := json.Unmarshal([]byte(line), &t); err != nil {
			res = append(res, [3]interface{}{"undecodable: " + line, Bz{}, Bz{}})
			continue
		}
		k, e1 := base64.StdEncoding.DecodeString(t.Key)
		v, e2 := base64.StdEncoding.DecodeString(t.Value)
		if e1 != nil || e2 != nil {
			res = append(res, [3]interface{}{"undecodable: " + line, Bz{}, Bz{}})
			continue
		}
		res = append(res, [3]interface{}{t.Operation, Bz(k), Bz(v)})
	}
	buf.Reset()
	return res
}
