// kvdrv executes specification-generated programs on the real store packages of posmint
// (cachekv, cachemulti, dbadapter, prefix, gaskv, tracekv) and prints what the real code
// returned, one JSON line per program.  It decides nothing: the TLA+ specifications are the
// oracle, the python side compares.
//
//	kvdrv seq  <programs.ndjson> [cachekv|cachemulti]   C15 sequential programs
//	kvdrv conc <cases.ndjson>                            C15 concurrent Get/Has/Set/Delete
//	kvdrv wrap <programs.ndjson>                         C16 wrapper stacks
package main

import (
	"bufio"
	"encoding/json"
	"fmt"
	"os"
)

func main() {
	if len(os.Args) < 3 {
		fmt.Fprintln(os.Stderr, "usage: kvdrv seq|conc|wrap <file> [mode]")
		os.Exit(2)
	}
	f, err := os.Open(os.Args[2])
	if err != nil {
		fmt.Fprintln(os.Stderr, err)
		os.Exit(2)
	}
	defer f.Close()
	in := bufio.NewScanner(f)
	in.Buffer(make([]byte, 1<<20), 1<<28)
	out := bufio.NewWriterSize(os.Stdout, 1<<20)
	defer out.Flush()
	enc := json.NewEncoder(out)
	mode := ""
	if len(os.Args) > 3 {
		mode = os.Args[3]
	}
	for in.Scan() {
		line := in.Bytes()
		if len(line) == 0 {
			continue
		}
		var res interface{}
		switch os.Args[1] {
		case "seq":
			var p SeqProgram
			if err := json.Unmarshal(line, &p); err != nil {
				fmt.Fprintln(os.Stderr, "bad program:", err)
				os.Exit(2)
			}
			res = runSeq(&p, mode)
		case "conc":
			var c ConcCase
			if err := json.Unmarshal(line, &c); err != nil {
				fmt.Fprintln(os.Stderr, "bad case:", err)
				os.Exit(2)
			}
			res = runConc(&c)
		case "wrap":
			var p WrapProgram
			if err := json.Unmarshal(line, &p); err != nil {
				fmt.Fprintln(os.Stderr, "bad program:", err)
				os.Exit(2)
			}
			res = runWrap(&p)
		default:
			fmt.Fprintln(os.Stderr, "unknown subcommand")
			os.Exit(2)
		}
		if err := enc.Encode(res); err != nil {
			fmt.Fprintln(os.Stderr, err)
			os.Exit(2)
		}
	}
	if err := in.Err(); err != nil {
		fmt.Fprintln(os.Stderr, err)
		os.Exit(2)
	}
}
