package main

import (
	"encoding/json"
	"fmt"

	dbm "github.com/tendermint/tm-db"

	"github.com/pokt-network/posmint/store/cachemulti"
	"github.com/pokt-network/posmint/store/dbadapter"
	"github.com/pokt-network/posmint/store/types"
)

// Bz is a byte string written as a JSON array of numbers (a TLA+ sequence of bytes).
type Bz []byte

func (b Bz) MarshalJSON() ([]byte, error) {
	a := make([]int, len(b))
	for i, x := range b {
		a[i] = int(x)
	}
	return json.Marshal(a)
}

func (b *Bz) UnmarshalJSON(d []byte) error {
	var a []int
	if err := json.Unmarshal(d, &a); err != nil {
		return err
	}
	*b = make([]byte, len(a)) // never nil: an empty key/bound is []byte{}
	for i, x := range a {
		(*b)[i] = byte(x)
	}
	return nil
}

// OptBz is the specification's optional: [] = nil, [x] = x.
type OptBz []Bz

func (o OptBz) bytes() []byte {
	if len(o) == 0 {
		return nil
	}
	return []byte(o[0])
}

// Op is one operation label as the specification prints it (ToJson(act)).
// Besides the KVStore / CacheWrap calls there are the calls the specification says a cache wrapper
// refuses: SetNil (Set(k, nil)), SetNoKey (Set(nil, v)), GetNoKey, HasNoKey, DeleteNoKey (nil key).
type Op struct {
	Op  string `json:"op"`
	S   int    `json:"s"`
	K   Bz     `json:"k"`
	V   string `json:"v"`
	St  OptBz  `json:"st"`
	En  OptBz  `json:"en"`
	Asc bool   `json:"asc"`
	It  int    `json:"it"`
	N   int    `json:"n"`   // CacheWrap: id of the new wrapper (chosen by the specification)
	Pat int    `json:"pat"` // call pattern variation for iterators (result must not depend on it)
	// IterNext only if the iterator is still valid, else report "exhausted" (random programs do not
	// know the content; the trace specification checks that the iterator is indeed exhausted)
	IfValid bool `json:"ifvalid"`
}

type SeqProgram struct {
	ID   string      `json:"id"`
	Base [][2]string `json:"-"`
	Init []struct {
		K Bz     `json:"k"`
		V string `json:"v"`
	} `json:"init"`
	Ops []Op `json:"ops"`
}

type SeqResult struct {
	ID  string        `json:"id"`
	Res []interface{} `json:"res"`
}

func optVal(v []byte) []string {
	if v == nil {
		return []string{}
	}
	return []string{string(v)}
}

type item [2]interface{} // <<key, value>>

// readCur observes the current position of an iterator the way a caller does.
func readCur(it types.Iterator, pat int) []item {
	switch pat % 4 {
	case 1:
		it.Valid() // Valid twice: must be idempotent
	}
	if !it.Valid() {
		return []item{}
	}
	var k, v []byte
	switch pat % 4 {
	case 2: // Value before Key
		v = it.Value()
		k = it.Key()
	case 3: // repeated reads
		k = it.Key()
		it.Key()
		v = it.Value()
		it.Value()
	default:
		k = it.Key()
		v = it.Value()
	}
	return []item{{Bz(append([]byte{}, k...)), string(v)}}
}

func drain(it types.Iterator, pat int) []item {
	out := []item{}
	for n := 0; n < 100000; n++ {
		c := readCur(it, pat)
		if len(c) == 0 {
			return out
		}
		out = append(out, c[0])
		it.Next()
	}
	panic("iterator does not terminate")
}

// a wrapper of the tree: for cachekv mode kv is a *cachekv.Store (via CacheWrap of the parent);
// for cachemulti mode the wrapper is a cachemulti.Store and kv/kv2 are its two substores.
type node struct {
	kv, kv2 types.KVStore
	write   func()
	wrap    func() *node
}

var keyA = types.NewKVStoreKey("A")
var keyB = types.NewKVStoreKey("B")

func cmsNode(cms cachemulti.Store) *node {
	n := &node{kv: cms.GetKVStore(keyA), kv2: cms.GetKVStore(keyB)}
	n.write = cms.Write
	n.wrap = func() *node { return cmsNode(cms.CacheMultiStore().(cachemulti.Store)) }
	return n
}

func kvNode(kv types.KVStore) *node {
	n := &node{kv: kv}
	n.write = func() { kv.(types.CacheKVStore).Write() }
	n.wrap = func() *node { return kvNode(kv.CacheWrap().(types.KVStore)) }
	return n
}

func runSeq(p *SeqProgram, mode string) (out SeqResult) {
	out.ID = p.ID
	nodes := map[int]*node{}
	its := map[int][]types.Iterator{}
	switch mode {
	case "cachemulti":
		a, b := dbadapter.Store{DB: dbm.NewMemDB()}, dbadapter.Store{DB: dbm.NewMemDB()}
		base := &node{kv: a, kv2: b}
		base.wrap = func() *node {
			return cmsNode(cachemulti.NewStore(dbm.NewMemDB(),
				map[types.StoreKey]types.CacheWrapper{keyA: a, keyB: b},
				map[string]types.StoreKey{"A": keyA, "B": keyB}, nil, nil))
		}
		nodes[0] = base
	default:
		base := dbadapter.Store{DB: dbm.NewMemDB()}
		n := &node{kv: base}
		n.wrap = func() *node { return kvNode(base.CacheWrap().(types.KVStore)) }
		nodes[0] = n
	}
	for _, kv := range p.Init {
		nodes[0].kv.Set(kv.K, []byte(kv.V))
		if nodes[0].kv2 != nil {
			nodes[0].kv2.Set(kv.K, []byte(kv.V))
		}
	}
	for _, op := range p.Ops {
		out.Res = append(out.Res, execSeq(nodes, its, op))
	}
	return out
}

// refused runs a call that the store is expected to refuse: a panic is recovered here (the way
// baseapp.runTx or a module recovers) and reported as "panic"; if the call returns, what it returned
// is reported (the specification requires "panic": a divergence).  The store stays in use afterwards.
func refused(f func() interface{}) (res interface{}) {
	defer func() {
		if r := recover(); r != nil {
			res = "panic"
		}
	}()
	return f()
}

// on runs f on the store(s) of a node; with a mirrored second substore both results must agree
func on(n *node, f func(kv types.KVStore) interface{}) interface{} {
	r := f(n.kv)
	if n.kv2 != nil {
		r2 := f(n.kv2)
		a, _ := json.Marshal(r)
		b, _ := json.Marshal(r2)
		if string(a) != string(b) {
			return map[string]interface{}{"substores_differ": []interface{}{r, r2}}
		}
	}
	return r
}

func execSeq(nodes map[int]*node, its map[int][]types.Iterator, op Op) (res interface{}) {
	defer func() {
		if r := recover(); r != nil {
			res = map[string]string{"panic": fmt.Sprint(r)}
		}
	}()
	n := nodes[op.S]
	if n == nil && op.Op != "IterNext" && op.Op != "IterClose" && op.Op != "DropIt" {
		return map[string]string{"driver": fmt.Sprintf("no store %d", op.S)}
	}
	switch op.Op {
	case "Get":
		return on(n, func(kv types.KVStore) interface{} { return optVal(kv.Get(op.K)) })
	case "Has":
		return on(n, func(kv types.KVStore) interface{} { return kv.Has(op.K) })
	case "Set":
		return on(n, func(kv types.KVStore) interface{} { kv.Set(op.K, []byte(op.V)); return "ok" })
	case "Delete":
		return on(n, func(kv types.KVStore) interface{} { kv.Delete(op.K); return "ok" })
	// calls the specification says are refused (nil value, nil key): each substore gets the call and
	// recovers its own panic, and the program goes on using the same stores
	case "SetNil":
		return on(n, func(kv types.KVStore) interface{} {
			return refused(func() interface{} { kv.Set(op.K, nil); return "ok" })
		})
	case "SetNoKey":
		return on(n, func(kv types.KVStore) interface{} {
			return refused(func() interface{} { kv.Set(nil, []byte(op.V)); return "ok" })
		})
	case "GetNoKey":
		return on(n, func(kv types.KVStore) interface{} {
			return refused(func() interface{} { return optVal(kv.Get(nil)) })
		})
	case "HasNoKey":
		return on(n, func(kv types.KVStore) interface{} {
			return refused(func() interface{} { return kv.Has(nil) })
		})
	case "DeleteNoKey":
		return on(n, func(kv types.KVStore) interface{} {
			return refused(func() interface{} { kv.Delete(nil); return "ok" })
		})
	case "IterAll":
		return on(n, func(kv types.KVStore) interface{} {
			var it types.Iterator
			if op.Asc {
				it = kv.Iterator(op.St.bytes(), op.En.bytes())
			} else {
				it = kv.ReverseIterator(op.St.bytes(), op.En.bytes())
			}
			defer it.Close()
			return drain(it, op.Pat)
		})
	case "IterOpen":
		var opened []types.Iterator
		r := on(n, func(kv types.KVStore) interface{} {
			var it types.Iterator
			if op.Asc {
				it = kv.Iterator(op.St.bytes(), op.En.bytes())
			} else {
				it = kv.ReverseIterator(op.St.bytes(), op.En.bytes())
			}
			opened = append(opened, it)
			return readCur(it, op.Pat)
		})
		its[op.It] = opened
		return map[string]interface{}{"it": op.It, "cur": r}
	case "IterNext":
		var r interface{}
		for i, it := range its[op.It] {
			if op.IfValid && !it.Valid() {
				return "exhausted"
			}
			it.Next()
			c := readCur(it, op.Pat)
			if i == 0 {
				r = c
			} else {
				a, _ := json.Marshal(r)
				b, _ := json.Marshal(c)
				if string(a) != string(b) {
					return map[string]interface{}{"substores_differ": []interface{}{r, c}}
				}
			}
		}
		if r == nil {
			return map[string]string{"driver": "no such iterator"}
		}
		return r
	case "IterClose", "DropIt": // DropIt: the specification dropped the iterator (left the contract)
		for _, it := range its[op.It] {
			it.Close()
		}
		delete(its, op.It)
		return "ok"
	case "Write":
		n.write()
		return "ok"
	case "CacheWrap":
		nodes[op.N] = n.wrap()
		return op.N
	case "Discard", "DropW": // DropW: the specification dropped the wrapper (left the contract)
		delete(nodes, op.S)
		return "ok"
	}
	return map[string]string{"driver": "unknown op " + op.Op}
}
