package main

import (
	"encoding/json"
	"math/rand"
	"runtime"
	"sync"
	"sync/atomic"

	dbm "github.com/tendermint/tm-db"

	"github.com/pokt-network/posmint/store/cachekv"
	"github.com/pokt-network/posmint/store/dbadapter"
)

// C15 concurrency clause: the calls of one specification-generated case are issued from real
// goroutines on ONE cachekv.Store; every invocation and every response is logged with a global
// sequence number taken from an atomic counter (invocation: before the call, response: after it
// returned), so "a returned before b was invoked" in the log is real-time order.

type COp struct {
	Op string `json:"op"`
	K  Bz     `json:"k"`
	V  string `json:"v"`
}

type ConcCase struct {
	ID   string `json:"id"`
	Init []struct {
		K Bz     `json:"k"`
		V string `json:"v"`
	} `json:"init"`
	Pre     []COp   `json:"pre"`
	Threads [][]COp `json:"threads"`
	Reps    int     `json:"reps"`
	Seed    int64   `json:"seed"`
}

type CEvent struct {
	seq int64
	T   int         `json:"t"`
	E   string      `json:"e"` // inv | ret
	Op  string      `json:"op"`
	K   Bz          `json:"k"`
	V   string      `json:"v"`
	Res interface{} `json:"res"`
}

type ConcHistory struct {
	Ev    []CEvent `json:"ev"`
	Count int      `json:"count"` // how many repetitions produced exactly this history
}

type ConcResult struct {
	ID        string        `json:"id"`
	Histories []ConcHistory `json:"histories"`
	Overlaps  int           `json:"overlaps"` // repetitions in which at least two calls really overlapped
}

func doCall(st *cachekv.Store, o COp) interface{} {
	switch o.Op {
	case "Get":
		return optVal(st.Get(o.K))
	case "Has":
		return st.Has(o.K)
	case "Set":
		st.Set(o.K, []byte(o.V))
		return "ok"
	case "Delete":
		st.Delete(o.K)
		return "ok"
	case "IterAll":
		it := st.Iterator(nil, nil)
		defer it.Close()
		return drain(it, 0)
	}
	panic("driver: unknown op " + o.Op)
}

func runConc(c *ConcCase) ConcResult {
	out := ConcResult{ID: c.ID}
	rng := rand.New(rand.NewSource(c.Seed))
	seen := map[string]int{}
	for rep := 0; rep < c.Reps; rep++ {
		base := dbadapter.Store{DB: dbm.NewMemDB()}
		for _, kv := range c.Init {
			base.Set(kv.K, []byte(kv.V))
		}
		st := cachekv.NewStore(base)
		var clock int64
		var all []CEvent
		logSeq := func(t int, o COp) {
			i := atomic.AddInt64(&clock, 1)
			r := doCall(st, o)
			j := atomic.AddInt64(&clock, 1)
			all = append(all, CEvent{seq: i, T: t, E: "inv", Op: o.Op, K: o.K, V: o.V, Res: ""},
				CEvent{seq: j, T: t, E: "ret", Op: o.Op, K: o.K, V: o.V, Res: r})
		}
		for _, o := range c.Pre {
			logSeq(0, o)
		}
		// the concurrent phase
		per := make([][]CEvent, len(c.Threads))
		yields := make([][]int, len(c.Threads))
		for t := range c.Threads {
			for range c.Threads[t] {
				yields[t] = append(yields[t], rng.Intn(4))
			}
		}
		var wg sync.WaitGroup
		var ready int32 // spin barrier: the goroutines start their calls at the same instant
		for t := range c.Threads {
			wg.Add(1)
			go func(t int) {
				defer wg.Done()
				atomic.AddInt32(&ready, 1)
				for atomic.LoadInt32(&ready) < int32(len(c.Threads)) {
				}
				for n, o := range c.Threads[t] {
					for y := 0; y < yields[t][n]; y++ {
						runtime.Gosched()
					}
					i := atomic.AddInt64(&clock, 1)
					r := doCall(st, o)
					j := atomic.AddInt64(&clock, 1)
					per[t] = append(per[t], CEvent{seq: i, T: t + 1, E: "inv", Op: o.Op, K: o.K, V: o.V, Res: ""},
						CEvent{seq: j, T: t + 1, E: "ret", Op: o.Op, K: o.K, V: o.V, Res: r})
				}
			}(t)
		}
		wg.Wait()
		var conc []CEvent
		for t := range per {
			conc = append(conc, per[t]...)
		}
		// merge by the global sequence number
		for i := 1; i < len(conc); i++ {
			for j := i; j > 0 && conc[j-1].seq > conc[j].seq; j-- {
				conc[j-1], conc[j] = conc[j], conc[j-1]
			}
		}
		open, overlapped := 0, false
		for _, e := range conc {
			if e.E == "inv" {
				open++
				if open > 1 {
					overlapped = true
				}
			} else {
				open--
			}
		}
		if overlapped {
			out.Overlaps++
		}
		all = append(all, conc...)
		// epilogue: what the wrapper holds afterwards (sequential)
		logSeq(0, COp{Op: "IterAll"})
		b, _ := json.Marshal(all)
		key := string(b)
		if idx, ok := seen[key]; ok {
			out.Histories[idx].Count++
		} else {
			seen[key] = len(out.Histories)
			out.Histories = append(out.Histories, ConcHistory{Ev: all, Count: 1})
		}
	}
	return out
}
