// cryptodrv instantiates the cases of spec/Sigs.tla with real ed25519 / secp256k1 / multisignature
// keys and real signatures, and replays behaviours of spec/Keybase.tla on the real keybases.
// It never judges: it reports what the real code returned; python compares with the specification.
//
//	cryptodrv sigs -seed S     ndjson cases on stdin ({"key":..,"sig":..} or {"build":[order]})
//	                           -> one ndjson line per case with VerifyBytes under each instantiation
//	cryptodrv keybase          one JSON job on stdin -> ndjson, one line per step and per probe
//	                           backends: mem (keys.NewInMemory), leveldb (the same dbKeybase over a GoLevelDB
//	                           that stays open), lazy (keys.New: LevelDB opened and closed by every call);
//	                           keys listed in "secp" are secp256k1 keys (they enter as armors, op ArmorRaw)
//
// The keybase code prints to stdout when a decryption fails; the protocol therefore goes to the
// original stdout while os.Stdout is pointed at stderr.
package main

import (
	"bufio"
	"bytes"
	"crypto/sha256"
	"encoding/hex"
	"encoding/json"
	"flag"
	"fmt"
	"io/ioutil"
	"os"
	"reflect"
	"sort"
	"strings"
	"sync"
	"unsafe"

	pc "github.com/pokt-network/posmint/crypto"
	"github.com/pokt-network/posmint/crypto/keys"
	"github.com/pokt-network/posmint/crypto/keys/mintkey"
	sdk "github.com/pokt-network/posmint/types"
	"github.com/tendermint/tendermint/crypto/ed25519"
	"github.com/tendermint/tendermint/crypto/secp256k1"
)

var proto *os.File

func secret(seed int64, tag string, i int) []byte {
	h := sha256.Sum256([]byte(fmt.Sprintf("verif/%d/%s/%d", seed, tag, i)))
	return h[:]
}

func edKey(seed int64, tag string, i int) pc.PrivateKey {
	return pc.Ed25519PrivateKey(ed25519.GenPrivKeyFromSecret(secret(seed, tag, i)))
}

func secpKey(seed int64, tag string, i int) pc.PrivateKey {
	return pc.Secp256k1PrivateKey(secp256k1.GenPrivKeySecp256k1(secret(seed, tag, i)))
}

// ---------------------------------------------------------------------------------------------
// sigs

type inst struct {
	name string
	priv map[int]pc.PrivateKey
	mu   sync.Mutex
	sigs map[string][]byte
}

var msgs map[int][]byte

func (in *inst) good(k, m int) []byte {
	key := fmt.Sprintf("%d/%d", k, m)
	in.mu.Lock()
	defer in.mu.Unlock()
	if s, ok := in.sigs[key]; ok {
		return s
	}
	s, err := in.priv[k].Sign(msgs[m])
	if err != nil {
		panic(err)
	}
	in.sigs[key] = s
	return s
}

// encSig: the bytes of a signature tree ["s",k,m] | ["mut",k,m] | ["trunc",k,m] | ["empty",..] | ["ms",[...]]
func (in *inst) encSig(v []interface{}, seed int64) []byte {
	t := v[0].(string)
	switch t {
	case "ms":
		comps := v[1].([]interface{})
		ms := pc.MultiSignature{Sigs: make([][]byte, 0, len(comps))}
		for _, c := range comps {
			ms.Sigs = append(ms.Sigs, in.encSig(c.([]interface{}), seed))
		}
		return ms.Marshal()
	case "empty":
		return []byte{}
	}
	k, m := int(v[1].(float64)), int(v[2].(float64))
	g := in.good(k, m)
	switch t {
	case "s":
		return g
	case "mut":
		c := append([]byte(nil), g...)
		pos := int(secret(seed, "mutpos", k*8+m)[0]) % len(c)
		c[pos] ^= 1 << (secret(seed, "mutbit", k*8+m)[0] % 8)
		return c
	case "trunc":
		return append([]byte(nil), g[:len(g)-1]...)
	}
	panic("unknown signature atom " + t)
}

func (in *inst) encKey(v []interface{}) pc.PublicKey {
	if v[0].(string) == "k" {
		return in.priv[int(v[1].(float64))].PublicKey()
	}
	cs := v[1].([]interface{})
	pks := make([]pc.PublicKey, 0, len(cs))
	for _, c := range cs {
		pks = append(pks, in.encKey(c.([]interface{})))
	}
	return pc.PublicKeyMultiSignature{PublicKeys: pks}
}

func verify(pk pc.PublicKey, msg, sig []byte) (res string) {
	defer func() {
		if r := recover(); r != nil {
			res = "panic: " + fmt.Sprint(r)
		}
	}()
	if pk.VerifyBytes(msg, sig) {
		return "T"
	}
	return "F"
}

type sigCase struct {
	I     int           `json:"i"`
	Key   []interface{} `json:"key,omitempty"`
	Sig   []interface{} `json:"sig,omitempty"`
	Build []int         `json:"build,omitempty"`
	// key identity: Equals(Eq[0], Eq[1])
	Eq []interface{} `json:"eq,omitempty"`
	// assembly by key: the members of ByKey sign and are added with AddSignature in the order Order
	ByKey []interface{} `json:"bykey,omitempty"`
	Order []int         `json:"order,omitempty"`
}

type sigOut struct {
	I int               `json:"i"`
	R map[string]string `json:"r"`
	// build cases: which key's signature sits at each position after AddSignatureByIndex
	Pos map[string][]int `json:"pos,omitempty"`
	// by-key cases: number of signatures in the assembled multisignature
	N map[string]int `json:"n,omitempty"`
}

// equals: Equals of two keys; a panic is an outcome
func equals(a, b pc.PublicKey) (res string) {
	defer func() {
		if r := recover(); r != nil {
			res = "panic: " + fmt.Sprint(r)
		}
	}()
	if a.Equals(b) {
		return "T"
	}
	return "F"
}

// signByKey: the signature of key tree v over msg; a multisignature key's is assembled with the real
// AddSignature(sig, member, keys) - i.e. through getIndex / Equals - adding the members in the given order
// (nested members assemble theirs in index order)
func (in *inst) signByKey(v []interface{}, order []int, msg int) ([]byte, int) {
	if v[0].(string) == "k" {
		return in.good(int(v[1].(float64)), msg), 1
	}
	members := v[1].([]interface{})
	outer := in.encKey(v).(pc.PublicKeyMultiSignature)
	if order == nil {
		for i := range members {
			order = append(order, i)
		}
	}
	var ms pc.MultiSig = pc.MultiSignature{}.NewMultiSignature()
	for _, i := range order {
		m := members[i].([]interface{})
		sig, _ := in.signByKey(m, nil, msg)
		var err error
		ms, err = ms.AddSignature(sig, in.encKey(m), outer.Keys())
		if err != nil {
			panic("AddSignature: " + err.Error())
		}
	}
	return ms.Marshal(), ms.NumOfSigs()
}

func (in *inst) byKey(v []interface{}, order []int) (res string, n int) {
	defer func() {
		if r := recover(); r != nil {
			res = "panic: " + fmt.Sprint(r)
		}
	}()
	sig, n := in.signByKey(v, order, 1)
	return verify(in.encKey(v), msgs[1], sig), n
}

func sigsMode(seed int64) {
	msgs = map[int][]byte{1: secret(seed, "msg", 1), 2: secret(seed, "msg", 1)}
	// the other message differs from the first in one bit (or is a longer text, by seed)
	o := append([]byte(nil), msgs[1]...)
	o[int(secret(seed, "otherpos", 0)[0])%len(o)] ^= 0x10
	if seed%2 == 0 {
		o = append(o, []byte(" and more")...)
	}
	msgs[2] = o
	insts := []*inst{
		{name: "ed25519", priv: map[int]pc.PrivateKey{}, sigs: map[string][]byte{}},
		{name: "secp256k1", priv: map[int]pc.PrivateKey{}, sigs: map[string][]byte{}},
		{name: "mixed", priv: map[int]pc.PrivateKey{}, sigs: map[string][]byte{}},
	}
	for k := 1; k <= 4; k++ {
		insts[0].priv[k] = edKey(seed, "ed", k)
		insts[1].priv[k] = secpKey(seed, "secp", k)
		if (int(seed)+k)%2 == 0 {
			insts[2].priv[k] = edKey(seed, "mixed", k)
		} else {
			insts[2].priv[k] = secpKey(seed, "mixed", k)
		}
	}
	in := bufio.NewScanner(os.Stdin)
	in.Buffer(make([]byte, 1<<20), 1<<26)
	var cases []sigCase
	for in.Scan() {
		if len(bytes.TrimSpace(in.Bytes())) == 0 {
			continue
		}
		var c sigCase
		if err := json.Unmarshal(in.Bytes(), &c); err != nil {
			fmt.Fprintf(os.Stderr, "cryptodrv: bad case: %v\n", err)
			os.Exit(3)
		}
		cases = append(cases, c)
	}
	outs := make([]sigOut, len(cases))
	var wg sync.WaitGroup
	work := make(chan int, 1024)
	for w := 0; w < 8; w++ {
		wg.Add(1)
		go func() {
			defer wg.Done()
			for i := range work {
				c := cases[i]
				o := sigOut{I: c.I, R: map[string]string{}}
				for _, inn := range insts {
					if c.Eq != nil {
						o.R[inn.name] = equals(inn.encKey(c.Eq[0].([]interface{})), inn.encKey(c.Eq[1].([]interface{})))
						continue
					}
					if c.ByKey != nil {
						if o.N == nil {
							o.N = map[string]int{}
						}
						o.R[inn.name], o.N[inn.name] = inn.byKey(c.ByKey, c.Order)
						continue
					}
					if c.Build != nil {
						// MultiSignature built with the real AddSignatureByIndex, in the given order
						var ms pc.MultiSig = pc.MultiSignature{}.NewMultiSignature()
						good := map[string]int{}
						for _, idx := range c.Build {
							s := inn.good(idx+1, 1)
							good[string(s)] = idx + 1
							ms = ms.AddSignatureByIndex(s, idx)
						}
						pos := []int{}
						for _, s := range ms.Signatures() {
							pos = append(pos, good[string(s)]) // 0: placeholder / unknown bytes
						}
						if o.Pos == nil {
							o.Pos = map[string][]int{}
						}
						o.Pos[inn.name] = pos
						pk := pc.PublicKeyMultiSignature{PublicKeys: []pc.PublicKey{inn.priv[1].PublicKey(), inn.priv[2].PublicKey(), inn.priv[3].PublicKey()}}
						o.R[inn.name] = verify(pk, msgs[1], ms.Marshal())
						continue
					}
					o.R[inn.name] = verify(inn.encKey(c.Key), msgs[1], inn.encSig(c.Sig, seed))
				}
				outs[i] = o
			}
		}()
	}
	for i := range cases {
		work <- i
	}
	close(work)
	wg.Wait()
	w := bufio.NewWriterSize(proto, 1<<20)
	defer w.Flush()
	enc := json.NewEncoder(w)
	for _, o := range outs {
		_ = enc.Encode(o)
	}
}

// ---------------------------------------------------------------------------------------------
// keybase

type label struct {
	Op string `json:"op"`
	K  int    `json:"k"`
	P  string `json:"p"`
	Q  string `json:"q"`
	A  struct {
		K int    `json:"k"`
		P string `json:"p"`
	} `json:"a"`
}

type step struct {
	L label `json:"l"`
}

type kbJob struct {
	Seed       int64             `json:"seed"`
	Backend    string            `json:"backend"` // mem | leveldb | lazy
	Passes     map[string]string `json:"passes"`
	// optional: one binding of the passphrase names per behaviour (overrides Passes)
	PassesBy   []map[string]string `json:"passes_by,omitempty"`
	NKnown     int               `json:"nknown"`
	NK         int               `json:"nk"`
	// ids (among 1..NKnown) of the keys that are secp256k1 keys; all others are ed25519
	Secp       []int             `json:"secp,omitempty"`
	Probe      bool              `json:"probe"`
	Behaviours [][]step          `json:"behaviours"`
	Workers    int               `json:"workers"`
}

type stepOut struct {
	B      int                        `json:"b"`
	I      int                        `json:"i"`
	Op     string                     `json:"op"`
	OK     bool                       `json:"ok"`
	Class  string                     `json:"class"`
	Err    string                     `json:"err,omitempty"`
	Key    int                        `json:"key"`  // id of the key the call returned (0: none, -1: unknown address)
	List   []int                      `json:"list"` // ids listed after the call
	Checks map[string]bool            `json:"checks,omitempty"`
	Probe  map[string]map[string]bool `json:"probe,omitempty"`
	Panic  string                     `json:"panic,omitempty"`
}

func classify(err error) string {
	if err == nil {
		return "ok"
	}
	m := err.Error()
	switch {
	case strings.Contains(m, "not found"):
		return "notfound"
	case strings.Contains(m, "Cannot overwrite"):
		return "exists"
	case strings.Contains(m, "message authentication failed"):
		return "badpass"
	case strings.Contains(m, "0 keypairs"):
		return "nokeys"
	default:
		return "other"
	}
}

type world struct {
	job    *kbJob
	kb     keys.Keybase
	addr   map[int]sdk.Address // key id -> address (known from the start, or learnt at Create)
	raw    map[int]pc.PrivateKey
	armors map[string]string // "k|p" -> armor text from a successful export
}

func (w *world) idOf(a sdk.Address) int {
	for id, x := range w.addr {
		if bytes.Equal(x, a) {
			return id
		}
	}
	return -1
}

func (w *world) address(b, id int) sdk.Address {
	if a, ok := w.addr[id]; ok {
		return a
	}
	// a key that does not exist yet: some address nobody has
	h := secret(w.job.Seed, fmt.Sprintf("bogus/%d", b), id)
	return sdk.Address(h[:20])
}

// sameKey: priv is the raw key id (when the client knows it)
func (w *world) sameKey(id int, priv pc.PrivateKey) bool {
	r, ok := w.raw[id]
	return !ok || bytes.Equal(r.RawBytes(), priv.RawBytes())
}

func (w *world) list() ([]int, bool) {
	kps, err := w.kb.List()
	if err != nil {
		return []int{-99}, false
	}
	ids := []int{}
	pubsOK := true
	for _, kp := range kps {
		id := w.idOf(kp.GetAddress())
		ids = append(ids, id)
		if id > 0 {
			if r, ok := w.raw[id]; ok && !r.PublicKey().Equals(kp.PublicKey) {
				pubsOK = false
			}
		}
		if kp.PrivKeyArmor == "" {
			pubsOK = false
		}
	}
	sort.Ints(ids)
	return ids, pubsOK
}

func junkArmor(seed int64, b, i int, some string) string {
	switch int(secret(seed, "junk", b*100+i)[0]) % 5 {
	case 0:
		return ""
	case 1:
		return "not an armor"
	case 2:
		return `{"kdf":"bcrypt","salt":"00","secparam":"12","hint":"","ciphertext":"AAAA"}`
	case 3:
		return `{"kdf":"scrypt","salt":"","secparam":"12","hint":"","ciphertext":"AAAA"}`
	default:
		if some != "" { // a real armor with a damaged ciphertext
			var a mintkey.ArmoredJson
			if json.Unmarshal([]byte(some), &a) == nil && len(a.Ciphertext) > 8 {
				c := []byte(a.Ciphertext)
				if c[5] == 'A' {
					c[5] = 'B'
				} else {
					c[5] = 'A'
				}
				a.Ciphertext = string(c)
				bz, _ := json.Marshal(a)
				return string(bz)
			}
		}
		return `{"kdf":"scrypt","salt":"zz","secparam":"12","hint":"","ciphertext":"AAAA"}`
	}
}

func (w *world) run(b int, beh []step) (outs []stepOut) {
	job := w.job
	passes := job.Passes
	if b < len(job.PassesBy) && job.PassesBy[b] != nil {
		passes = job.PassesBy[b]
	}
	pass := func(p string) string { return passes[p] }
	msg := secret(job.Seed, "kbmsg", b)
	for i, st := range beh {
		l := st.L
		o := stepOut{B: b, I: i, Op: l.Op, Checks: map[string]bool{}}
		func() {
			defer func() {
				if r := recover(); r != nil {
					o.Panic = fmt.Sprint(r)
					o.Class = "panic"
				}
			}()
			var err error
			switch l.Op {
			case "Create":
				var kp keys.KeyPair
				kp, err = w.kb.Create(pass(l.P))
				if err == nil {
					w.addr[l.K] = kp.GetAddress()
					o.Key = l.K
					o.Checks["fresh_address"] = true
				}
			case "ImportObj":
				var kp keys.KeyPair
				var rawb [64]byte
				if r, have := w.raw[l.K]; !have || len(r.RawBytes()) != len(rawb) {
					// only after an earlier divergence (an export that should have produced the key failed): the
					// call cannot be made; python has stopped comparing this behaviour at the divergence
					err = fmt.Errorf("driver: no raw ed25519 key %d in the client's hands", l.K)
					break
				}
				copy(rawb[:], w.raw[l.K].RawBytes())
				kp, err = w.kb.ImportPrivateKeyObject(rawb, pass(l.P))
				if err == nil {
					o.Key = w.idOf(kp.GetAddress())
					o.Checks["address_of_imported_key"] = bytes.Equal(kp.GetAddress(), w.addr[l.K])
				}
			case "ImportArm":
				var kp keys.KeyPair
				kp, err = w.kb.ImportPrivKey(w.armors[fmt.Sprintf("%d|%s", l.A.K, l.A.P)], pass(l.P), pass(l.Q))
				if err == nil {
					o.Key = w.idOf(kp.GetAddress())
					o.Checks["address_preserved_by_export_import"] = bytes.Equal(kp.GetAddress(), w.addr[l.A.K])
				}
			case "ArmorRaw":
				// the client encrypts a raw key it holds, as another keybase / wallet would export it
				var armor string
				if _, have := w.raw[l.K]; !have {
					err = fmt.Errorf("driver: no raw key %d in the client's hands", l.K) // only after an earlier divergence
					break
				}
				armor, err = mintkey.EncryptArmorPrivKey(w.raw[l.K], pass(l.P), "made elsewhere")
				if err == nil {
					o.Key = l.K
					w.armors[fmt.Sprintf("%d|%s", l.K, l.P)] = armor
					o.Checks["armor_not_empty"] = armor != ""
				}
			case "ImportJunk":
				some := ""
				for _, a := range w.armors {
					some = a
					break
				}
				_, err = w.kb.ImportPrivKey(junkArmor(job.Seed, b, i, some), pass(l.P), pass(l.Q))
			case "Update":
				err = w.kb.Update(w.address(b, l.K), pass(l.P), pass(l.Q))
				if err == nil {
					o.Key = l.K
				}
			case "ExportArm":
				var armor string
				armor, err = w.kb.ExportPrivKeyEncryptedArmor(w.address(b, l.K), pass(l.P), pass(l.Q), "hint")
				if err == nil {
					o.Key = l.K
					w.armors[fmt.Sprintf("%d|%s", l.K, l.Q)] = armor
					o.Checks["armor_not_empty"] = armor != ""
					// the abstraction of an armor: which key it holds, and which passphrase opens it
					priv, derr := mintkey.UnarmorDecryptPrivKey(armor, pass(l.Q))
					o.Checks["export_opens_under_its_encryption_passphrase"] = derr == nil
					if derr == nil {
						o.Checks["export_holds_the_exported_key"] = bytes.Equal(priv.PublicKey().Address(), w.addr[l.K]) && w.sameKey(l.K, priv)
					}
					if pass(l.P) != pass(l.Q) {
						_, derr = mintkey.UnarmorDecryptPrivKey(armor, pass(l.P))
						o.Checks["export_closed_under_the_storage_passphrase"] = derr != nil
					}
				}
			case "ExportObj":
				var priv pc.PrivateKey
				priv, err = w.kb.ExportPrivateKeyObject(w.address(b, l.K), pass(l.P))
				if err == nil {
					o.Key = w.idOf(sdk.Address(priv.PublicKey().Address()))
					if r, ok := w.raw[l.K]; ok {
						o.Checks["exported_key_is_the_key"] = bytes.Equal(r.RawBytes(), priv.RawBytes())
					} else {
						o.Checks["exported_key_is_the_key"] = bytes.Equal(priv.PublicKey().Address(), w.addr[l.K])
						w.raw[l.K] = priv
					}
				}
			case "Delete":
				err = w.kb.Delete(w.address(b, l.K), pass(l.P))
			case "Sign":
				var sig []byte
				var pub pc.PublicKey
				sig, pub, err = w.kb.Sign(w.address(b, l.K), pass(l.P), msg)
				if err == nil {
					o.Key = w.idOf(sdk.Address(pub.Address()))
					kp, gerr := w.kb.Get(w.address(b, l.K))
					o.Checks["signature_verifies_under_listed_key"] = gerr == nil && kp.PublicKey.VerifyBytes(msg, sig)
					o.Checks["signature_binds_message"] = gerr == nil && !kp.PublicKey.VerifyBytes(append([]byte("x"), msg...), sig)
					o.Checks["returned_pubkey_is_listed_key"] = gerr == nil && kp.PublicKey.Equals(pub)
				}
			case "Get":
				var kp keys.KeyPair
				kp, err = w.kb.Get(w.address(b, l.K))
				if err == nil {
					o.Key = w.idOf(kp.GetAddress())
				}
			case "SetCoinbase":
				err = w.kb.SetCoinbase(w.address(b, l.K))
				if err == nil {
					o.Key = l.K
				}
			case "GetCoinbase":
				var kp keys.KeyPair
				kp, err = w.kb.GetCoinbase()
				if err == nil {
					o.Key = w.idOf(kp.GetAddress())
				}
			default:
				fmt.Fprintf(os.Stderr, "cryptodrv: unknown keybase op %q\n", l.Op)
				os.Exit(3)
			}
			o.OK = err == nil
			o.Class = classify(err)
			if err != nil {
				o.Err = err.Error()
			}
		}()
		var pubsOK bool
		o.List, pubsOK = w.list()
		o.Checks["listed_pubkeys_match_keys"] = pubsOK
		outs = append(outs, o)
	}
	if job.Probe {
		// which passphrase opens which listed key now
		po := stepOut{B: b, I: len(beh), Op: "Probe", OK: true, Class: "ok", Probe: map[string]map[string]bool{}}
		ids, _ := w.list()
		po.List = ids
		for _, id := range ids {
			if id <= 0 {
				continue
			}
			m := map[string]bool{}
			for name, p := range passes {
				priv, err := w.kb.ExportPrivateKeyObject(w.addr[id], p)
				m[name] = err == nil && bytes.Equal(priv.PublicKey().Address(), w.addr[id])
			}
			po.Probe[fmt.Sprint(id)] = m
		}
		outs = append(outs, po)
	}
	return outs
}

// levelDBKeybase: the dbKeybase over a GoLevelDB that stays open for the whole behaviour. The package only
// exports the in-memory constructor and the lazy wrapper; the database of an in-memory keybase is replaced
// through reflection (the same dbKeybase code, another tm-db backend).
func levelDBKeybase(name, dir string) keys.Keybase {
	db, err := sdk.NewLevelDB(name, dir)
	if err != nil {
		fmt.Fprintf(os.Stderr, "cryptodrv: cannot open LevelDB: %v\n", err)
		os.Exit(3)
	}
	kb := keys.NewInMemory()
	v := reflect.ValueOf(kb)
	if v.Kind() != reflect.Ptr || v.Elem().Kind() != reflect.Struct || !v.Elem().FieldByName("db").IsValid() {
		fmt.Fprintf(os.Stderr, "cryptodrv: keys.NewInMemory() is no longer a pointer to a struct with a field db (%T)\n", kb)
		os.Exit(3)
	}
	f := v.Elem().FieldByName("db")
	reflect.NewAt(f.Type(), unsafe.Pointer(f.UnsafeAddr())).Elem().Set(reflect.ValueOf(db))
	return kb
}

func keybaseMode() {
	raw, err := ioutil.ReadAll(os.Stdin)
	if err != nil {
		panic(err)
	}
	var job kbJob
	if err := json.Unmarshal(raw, &job); err != nil {
		fmt.Fprintf(os.Stderr, "cryptodrv: bad job: %v\n", err)
		os.Exit(3)
	}
	if job.Workers <= 0 {
		job.Workers = 4
	}
	tmp, err := ioutil.TempDir("", "cryptodrv-kb-")
	if err != nil {
		panic(err)
	}
	defer os.RemoveAll(tmp)
	isSecp := map[int]bool{}
	for _, k := range job.Secp {
		if k < 1 || k > job.NKnown {
			fmt.Fprintf(os.Stderr, "cryptodrv: secp key %d is not among the client's keys 1..%d\n", k, job.NKnown)
			os.Exit(3)
		}
		isSecp[k] = true
	}
	results := make([][]stepOut, len(job.Behaviours))
	var wg sync.WaitGroup
	work := make(chan int, len(job.Behaviours))
	for wk := 0; wk < job.Workers; wk++ {
		wg.Add(1)
		go func() {
			defer wg.Done()
			for b := range work {
				w := &world{job: &job, addr: map[int]sdk.Address{}, raw: map[int]pc.PrivateKey{}, armors: map[string]string{}}
				for k := 1; k <= job.NKnown; k++ {
					if isSecp[k] {
						w.raw[k] = secpKey(job.Seed, fmt.Sprintf("kb/%d", b), k)
					} else {
						w.raw[k] = edKey(job.Seed, fmt.Sprintf("kb/%d", b), k)
					}
					w.addr[k] = sdk.Address(w.raw[k].PublicKey().Address())
				}
				switch job.Backend {
				case "lazy":
					w.kb = keys.New(fmt.Sprintf("kb%d", b), fmt.Sprintf("%s/b%d", tmp, b))
				case "leveldb":
					w.kb = levelDBKeybase(fmt.Sprintf("kb%d", b), fmt.Sprintf("%s/b%d", tmp, b))
				case "mem":
					w.kb = keys.NewInMemory()
				default:
					fmt.Fprintf(os.Stderr, "cryptodrv: unknown backend %q\n", job.Backend)
					os.Exit(3)
				}
				results[b] = w.run(b, job.Behaviours[b])
				w.kb.CloseDB()
			}
		}()
	}
	for b := range job.Behaviours {
		work <- b
	}
	close(work)
	wg.Wait()
	wr := bufio.NewWriterSize(proto, 1<<20)
	defer wr.Flush()
	enc := json.NewEncoder(wr)
	for _, r := range results {
		for _, o := range r {
			_ = enc.Encode(o)
		}
	}
}

func main() {
	proto = os.Stdout
	os.Stdout = os.Stderr
	if len(os.Args) < 2 {
		fmt.Fprintln(os.Stderr, "usage: cryptodrv sigs -seed S | keybase")
		os.Exit(3)
	}
	switch os.Args[1] {
	case "sigs":
		fs := flag.NewFlagSet("sigs", flag.ExitOnError)
		seed := fs.Int64("seed", 1, "seed")
		_ = fs.Parse(os.Args[2:])
		sigsMode(*seed)
	case "keybase":
		keybaseMode()
	default:
		fmt.Fprintln(os.Stderr, "usage: cryptodrv sigs -seed S | keybase")
		os.Exit(3)
	}
	_ = hex.EncodeToString
}
