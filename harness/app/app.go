// Package app wires a complete posmint application (BaseApp + auth + pos + gov) from outside
// /repo using exported API only, plus the abstraction function that projects the real stores
// into the variables of spec/Posmint.tla.
package app

import (
	"bytes"
	"crypto/sha256"
	"encoding/binary"
	"encoding/hex"
	"encoding/json"
	"fmt"
	"net"
	"net/http"
	"os"
	"path/filepath"
	"reflect"
	"sort"
	"sync"
	"syscall"
	"time"
	"unsafe"

	bam "github.com/pokt-network/posmint/baseapp"
	"github.com/pokt-network/posmint/codec"
	"github.com/pokt-network/posmint/crypto"
	storetypes "github.com/pokt-network/posmint/store/types"
	sdk "github.com/pokt-network/posmint/types"
	"github.com/pokt-network/posmint/types/module"
	"github.com/pokt-network/posmint/x/auth"
	authtypes "github.com/pokt-network/posmint/x/auth/types"
	"github.com/pokt-network/posmint/x/gov"
	govkeeper "github.com/pokt-network/posmint/x/gov/keeper"
	govtypes "github.com/pokt-network/posmint/x/gov/types"
	"github.com/pokt-network/posmint/x/pos"
	poskeeper "github.com/pokt-network/posmint/x/pos/keeper"
	postypes "github.com/pokt-network/posmint/x/pos/types"
	abci "github.com/tendermint/tendermint/abci/types"
	cfg "github.com/tendermint/tendermint/config"
	"github.com/tendermint/tendermint/libs/log"
	"github.com/tendermint/tendermint/node"
	tmtypes "github.com/tendermint/tendermint/types"
	dbm "github.com/tendermint/tm-db"
	"golang.org/x/crypto/ed25519"
)

// T0 is the unix time of tick 0.
const T0 = int64(1600000000)

// Tick is the length of one model tick. It is deliberately NOT a whole second: 50 ms ticks give
// block times and completion times such as 00:00:00.05, 00:00:00.5 and 00:00:01 - different
// numbers of fractional digits within one second - so that the order of time-keyed store keys
// (unstaking queue) is exercised on sub-second values too.
const Tick = 50 * time.Millisecond

// INF is the abstract value of "forever" (DoubleSignJailEndTime).
const INF = int64(99999)

// Cfg is the configuration of one application instance; it mirrors the CONSTANTS of Posmint.tla.
type Cfg struct {
	N           int     `json:"N"`  // number of user accounts (ids 1..N, sorted by address)
	PR          int64   `json:"PR"` // power reduction; 0 = leave the shipped 10^6
	MinStake    int64   `json:"MinStake"`
	MaxVals     uint64  `json:"MaxVals"`
	UnstakeTime int64   `json:"UnstakeTime"` // ticks
	Window      int64   `json:"Window"`
	MinSigned   string  `json:"MinSigned"` // Dec string
	JailDur     int64   `json:"JailDur"`   // ticks
	MaxEvAge    int64   `json:"MaxEvAge"`  // ticks
	FracDS      string  `json:"FracDS"`    // Dec string
	FracDT      string  `json:"FracDT"`
	FracDen     int64   `json:"FracDen"` // denominator of custom burn severities (ExtBurn num/FracDen)
	Fee         int64   `json:"Fee"`     // base fee of every pos message (PosFeeMap); gov fees are the shipped 10000 unless GovFee set
	GovFee      int64   `json:"GovFee"`  // if >0 overrides GovFeeMap entries
	FeeMult     int64   `json:"FeeMult"` // auth FeeMultiplier default
	Bal         []int64 `json:"Bal"`     // initial balances of users 1..N
	GVals       []GVal  `json:"GVals"`   // genesis validators
	DaoTokens   int64   `json:"DaoTokens"`
	DaoOwner    int     `json:"DaoOwner"` // id of DAO owner (0 = empty address)
	AclOwner    []int   `json:"AclOwner"` // owner id of every parameter in ParamKeys order; len 1 = same owner for all
	KeySeed     int64   `json:"KeySeed"`
	Exported    bool    `json:"Exported"`   // the pos genesis is an export (carries previous-state powers)
	PrevPowers  []int64 `json:"PrevPowers"` // per user id: previous-state power in an exported genesis (-1 none)
	Pruning     string  `json:"Pruning"`    // nothing|everything|syncable|kr,ke
	SecpLast    bool    `json:"SecpLast"`   // user N holds a secp256k1 key (cannot be a validator on this ed25519-only chain)
	DBDir       string  `json:"DBDir"`      // "" = MemDB, else goleveldb dir
	MaxGas      int64   `json:"MaxGas"`     // consensus param Block.MaxGas given to InitChain (0 = no block gas limit)
	ChainID     string  `json:"ChainID"`
	Version     string  `json:"Version"`
}

// GVal is a genesis validator.
type GVal struct {
	V      int   `json:"v"`
	Status int   `json:"status"`
	Tokens int64 `json:"tokens"`
	Jailed bool  `json:"jailed"`
	Uat    int64 `json:"uat"`
}

// ParamKeys is the fixed order of all parameters of all subspaces (the ACL domain).
var ParamKeys = []string{
	"auth/MaxMemoCharacters", "auth/TxSigLimit", "auth/FeeMultipliers",
	"pos/UnstakingTime", "pos/MaxValidators", "pos/StakeDenom", "pos/StakeMinimum",
	"pos/ProposerRewardPercentage", "pos/MaxEvidenceAge", "pos/SignedBlocksWindow",
	"pos/MinSignedPerWindow", "pos/DowntimeJailDuration", "pos/SlashFractionDoubleSign",
	"pos/SlashFractionDowntime",
	"gov/acl", "gov/daoOwner", "gov/upgrade",
}

// Key is a deterministic key pair.
type Key struct {
	Priv crypto.PrivateKey
	Pub  crypto.PublicKey
	Addr sdk.Address
}

// App is one running application instance.
type App struct {
	Cfg     Cfg
	B       *bam.BaseApp
	Cdc     *codec.Codec
	AK      auth.Keeper
	PK      poskeeper.Keeper
	GK      govkeeper.Keeper
	MM      *module.Manager
	Keys    []Key // index 0 = id 1
	DB      dbm.DB
	KeyMain *sdk.KVStoreKey
	KeyAuth *sdk.KVStoreKey
	KeyPos  *sdk.KVStoreKey
	RPC     *FakeRPC
	Hdr     abci.Header // header of the block being executed / last executed
	OutSel  int64       // which concrete address stands for the specification's OUT account in the next call
	Pending [][]byte    // tx hashes delivered in the current block
	// GenOverride, when set, is the application state given to InitChain instead of the configured
	// genesis (restart of a chain from the exported state of another instance)
	GenOverride map[string]json.RawMessage
	GenTime     int64 // tick of the genesis time
	ModAddr     map[string]sdk.Address
}

// ---------------------------------------------------------------------------------------------
// fake Tendermint RPC (tx index)

// FakeRPC answers the `tx` JSON-RPC method: known hash -> result, unknown -> error.
type FakeRPC struct {
	mu    sync.Mutex
	known map[string]bool
	codes map[string]uint32
	asked map[string]bool
	ln    net.Listener
	srv   *http.Server
	Addr  string
	Dir   string
	Calls int
}

type rpcReq struct {
	JSONRPC string          `json:"jsonrpc"`
	ID      json.RawMessage `json:"id"`
	Method  string          `json:"method"`
	Params  json.RawMessage `json:"params"`
}

func NewFakeRPC() (*FakeRPC, error) {
	dir, err := os.MkdirTemp("", "vrpc")
	if err != nil {
		return nil, err
	}
	sock := filepath.Join(dir, "s")
	ln, err := net.Listen("unix", sock)
	if err != nil {
		return nil, err
	}
	f := &FakeRPC{known: map[string]bool{}, asked: map[string]bool{}, ln: ln, Addr: "unix://" + sock, Dir: dir}
	mux := http.NewServeMux()
	mux.HandleFunc("/", f.handle)
	f.srv = &http.Server{Handler: mux}
	// the ante handler builds a new RPC client (and connection) for every transaction and never
	// closes it: close each connection after its response so descriptors do not pile up
	f.srv.SetKeepAlivesEnabled(false)
	raiseNoFile()
	go f.srv.Serve(ln)
	return f, nil
}

func raiseNoFile() {
	var lim syscall.Rlimit
	if err := syscall.Getrlimit(syscall.RLIMIT_NOFILE, &lim); err == nil && lim.Cur < lim.Max {
		lim.Cur = lim.Max
		_ = syscall.Setrlimit(syscall.RLIMIT_NOFILE, &lim)
	}
}

func (f *FakeRPC) handle(w http.ResponseWriter, r *http.Request) {
	var req rpcReq
	_ = json.NewDecoder(r.Body).Decode(&req)
	var p struct {
		Hash  []byte `json:"hash"`
		Prove bool   `json:"prove"`
	}
	_ = json.Unmarshal(req.Params, &p)
	f.mu.Lock()
	f.Calls++
	f.asked[string(p.Hash)] = true
	found := f.known[string(p.Hash)]
	f.mu.Unlock()
	w.Header().Set("Content-Type", "application/json")
	id := req.ID
	if len(id) == 0 {
		id = json.RawMessage(`"x"`)
	}
	if req.Method == "tx" && found {
		f.mu.Lock()
		code := f.codes[string(p.Hash)]
		f.mu.Unlock()
		fmt.Fprintf(w, `{"jsonrpc":"2.0","id":%s,"result":{"hash":"%s","height":"1","index":0,"tx_result":{"code":%d},"tx":""}}`,
			id, hex.EncodeToString(p.Hash), code)
		return
	}
	fmt.Fprintf(w, `{"jsonrpc":"2.0","id":%s,"error":{"code":-32603,"message":"Internal error","data":"tx not found"}}`, id)
}

// AddCode registers a transaction the index holds with a failed result code.
func (f *FakeRPC) AddCode(hash []byte, code uint32) {
	f.mu.Lock()
	f.known[string(hash)] = true
	if f.codes == nil {
		f.codes = map[string]uint32{}
	}
	f.codes[string(hash)] = code
	f.mu.Unlock()
}

func (f *FakeRPC) Add(hash []byte) {
	f.mu.Lock()
	f.known[string(hash)] = true
	f.mu.Unlock()
}

// WasAsked tells whether the ante handler's lookup for this hash reached the server (a lookup
// that fails for transport reasons makes the real code treat the transaction as new).
func (f *FakeRPC) WasAsked(hash []byte) bool {
	f.mu.Lock()
	defer f.mu.Unlock()
	return f.asked[string(hash)]
}

func (f *FakeRPC) Close() {
	_ = f.srv.Close()
	_ = os.RemoveAll(f.Dir)
}

func fakeNode(addr string) *node.Node {
	n := &node.Node{}
	c := cfg.DefaultConfig()
	c.RPC.ListenAddress = addr
	fld := reflect.ValueOf(n).Elem().FieldByName("config")
	reflect.NewAt(fld.Type(), unsafe.Pointer(fld.UnsafeAddr())).Elem().Set(reflect.ValueOf(c))
	return n
}

// ---------------------------------------------------------------------------------------------
// keys

// GenKeys derives n ed25519 key pairs from seed and sorts them by address bytes, so that the
// specification's tie-break "by address" is the integer order of ids.
func GenKeys(n int, seed int64) []Key {
	keys := make([]Key, 0, n)
	for i := 0; i < n; i++ {
		var s [32]byte
		h := sha256.Sum256([]byte(fmt.Sprintf("verif-key-%d-%d", seed, i)))
		copy(s[:], h[:])
		raw := ed25519.NewKeyFromSeed(s[:])
		var pk crypto.Ed25519PrivateKey
		copy(pk[:], raw)
		keys = append(keys, Key{Priv: pk, Pub: pk.PublicKey(), Addr: sdk.Address(pk.PublicKey().Address())})
	}
	sort.Slice(keys, func(i, j int) bool { return bytes.Compare(keys[i].Addr, keys[j].Addr) < 0 })
	return keys
}

// SecpLast replaces the last (greatest-address) key by a secp256k1 key whose address still sorts
// last: an account that can sign transactions but whose key type the consensus parameters of the
// harness chain (ed25519 only) do not admit for validators.
func SecpLast(keys []Key, seed int64) []Key {
	n := len(keys)
	for try := 0; ; try++ {
		h := sha256.Sum256([]byte(fmt.Sprintf("verif-secp-%d-%d", seed, try)))
		pk, _ := crypto.Secp256k1PrivateKey{}.PrivateKeyFromBytes(h[:])
		addr := sdk.Address(pk.PublicKey().Address())
		if n < 2 || bytes.Compare(addr, keys[n-2].Addr) > 0 {
			keys[n-1] = Key{Priv: pk, Pub: pk.PublicKey(), Addr: addr}
			return keys
		}
	}
}

// ---------------------------------------------------------------------------------------------
// construction

func MakeCodec() *codec.Codec {
	cdc := codec.New()
	module.NewBasicManager(auth.AppModuleBasic{}, pos.AppModuleBasic{}, gov.AppModuleBasic{}).RegisterCodec(cdc)
	sdk.RegisterCodec(cdc)
	codec.RegisterCrypto(cdc)
	return cdc
}

func pruning(s string) storetypes.PruningOptions {
	switch s {
	case "", "nothing":
		return storetypes.PruneNothing
	case "everything":
		return storetypes.PruneEverything
	case "syncable":
		return storetypes.PruneSyncable
	}
	var kr, ke int64
	fmt.Sscanf(s, "%d,%d", &kr, &ke)
	return storetypes.NewPruningOptions(kr, ke)
}

func (c *Cfg) defaults() {
	if c.ChainID == "" {
		c.ChainID = "verif-chain"
	}
	if c.Version == "" {
		c.Version = "0.0.1"
	}
	if c.MinSigned == "" {
		c.MinSigned = "0.5"
	}
	if c.FracDS == "" {
		c.FracDS = "0.5"
	}
	if c.FracDT == "" {
		c.FracDT = "0.25"
	}
	if c.FeeMult == 0 {
		c.FeeMult = 1
	}
	if c.MaxVals == 0 {
		c.MaxVals = 100
	}
	if c.Window == 0 {
		c.Window = 100
	}
}

// New builds an application over db (nil = fresh MemDB or leveldb per cfg) and loads the latest
// version. InitChain must be called by the caller on a fresh database.
func New(c Cfg, db dbm.DB, rpc *FakeRPC) (*App, error) {
	c.defaults()
	if c.PR > 0 {
		sdk.PowerReduction = sdk.NewInt(c.PR)
	}
	postypes.PosFeeMap = map[string]int64{
		"stake_validator": c.Fee, "begin_unstaking_validator": c.Fee, "unjail": c.Fee, "send": c.Fee,
	}
	if c.GovFee != 0 { // negative = free
		fee := c.GovFee
		if fee < 0 {
			fee = 0
		}
		for k := range govtypes.GovFeeMap {
			govtypes.GovFeeMap[k] = fee
		}
	}
	a := &App{Cfg: c}
	a.Cdc = MakeCodec()
	if db == nil {
		if c.DBDir == "" {
			db = dbm.NewMemDB()
		} else {
			var err error
			db, err = dbm.NewGoLevelDB("app", c.DBDir)
			if err != nil {
				return nil, err
			}
		}
	}
	a.DB = db
	a.B = bam.NewBaseApp("verifapp", log.NewNopLogger(), db, auth.DefaultTxDecoder(a.Cdc), bam.SetPruning(pruning(c.Pruning)))
	a.B.SetAppVersion(c.Version)
	a.KeyMain = sdk.NewKVStoreKey(bam.MainStoreKey)
	a.KeyAuth = sdk.NewKVStoreKey(auth.StoreKey)
	a.KeyPos = sdk.NewKVStoreKey(postypes.StoreKey)
	a.B.MountKVStores(map[string]*sdk.KVStoreKey{bam.MainStoreKey: a.KeyMain, auth.StoreKey: a.KeyAuth, postypes.StoreKey: a.KeyPos})
	a.B.MountTransientStores(map[string]*sdk.TransientStoreKey{})
	maccPerms := map[string][]string{
		auth.FeeCollectorName:   nil,
		postypes.StakedPoolName: {auth.Burner, auth.Minter, auth.Staking},
		postypes.ModuleName:     nil,
		govtypes.DAOAccountName: {auth.Burner, auth.Minter, auth.Staking},
	}
	a.ModAddr = map[string]sdk.Address{}
	for n := range maccPerms {
		a.ModAddr[n] = auth.NewModuleAddress(n)
	}
	authSub := sdk.NewSubspace(auth.DefaultParamspace)
	posSub := sdk.NewSubspace(poskeeper.DefaultParamspace)
	a.AK = auth.NewKeeper(a.Cdc, a.KeyAuth, authSub, maccPerms)
	a.PK = poskeeper.NewKeeper(a.Cdc, a.KeyPos, a.AK, posSub, "pos")
	a.GK = govkeeper.NewKeeper(a.Cdc, sdk.ParamsKey, sdk.ParamsTKey, "gov", a.AK, authSub, posSub)
	a.MM = module.NewManager(auth.NewAppModule(a.AK), pos.NewAppModule(a.PK, a.AK), gov.NewAppModule(a.GK))
	a.MM.SetOrderInitGenesis(auth.ModuleName, postypes.ModuleName, govtypes.ModuleName)
	a.MM.SetOrderBeginBlockers(postypes.ModuleName, govtypes.ModuleName)
	a.MM.SetOrderEndBlockers(postypes.ModuleName, govtypes.ModuleName)
	a.MM.RegisterRoutes(a.B.Router(), a.B.QueryRouter())
	a.Keys = GenKeys(c.N, c.KeySeed)
	if c.SecpLast {
		a.Keys = SecpLast(a.Keys, c.KeySeed)
	}
	a.B.SetInitChainer(a.initChainer)
	a.B.SetBeginBlocker(func(ctx sdk.Ctx, req abci.RequestBeginBlock) abci.ResponseBeginBlock {
		return a.MM.BeginBlock(ctx, req)
	})
	a.B.SetEndBlocker(func(ctx sdk.Ctx, req abci.RequestEndBlock) abci.ResponseEndBlock { return a.MM.EndBlock(ctx, req) })
	a.B.SetAnteHandler(auth.NewAnteHandler(a.AK))
	if rpc == nil {
		var err error
		rpc, err = NewFakeRPC()
		if err != nil {
			return nil, err
		}
	}
	a.RPC = rpc
	a.B.SetTendermintNode(fakeNode(rpc.Addr))
	if err := a.B.LoadLatestVersion(a.KeyMain); err != nil {
		return nil, err
	}
	return a, nil
}

// Close releases the RPC server (not the DB, which the caller owns for restarts).
func (a *App) Close() {
	if a.RPC != nil {
		a.RPC.Close()
	}
}

func (a *App) Addr(id int) sdk.Address {
	n := a.Cfg.N
	switch {
	case id >= 1 && id <= n:
		return a.Keys[id-1].Addr
	case id == n+1:
		return a.ModAddr[auth.FeeCollectorName]
	case id == n+2:
		return a.ModAddr[postypes.StakedPoolName]
	case id == n+3:
		return a.ModAddr[postypes.ModuleName]
	case id == n+4:
		return a.ModAddr[govtypes.DAOAccountName]
	case id == 0:
		return sdk.Address{}
	case id > 100 && id <= 100+n:
		// a look-alike of user id-100's address: every ASCII letter byte in the other case (an address is
		// 20 raw bytes, not text: this is a different address, whoever compares them as text sees the same one)
		near := append(sdk.Address{}, a.Keys[id-101].Addr...)
		for i, b := range near {
			if (b >= 'A' && b <= 'Z') || (b >= 'a' && b <= 'z') {
				near[i] = b ^ 0x20
			}
		}
		return near
	case id == n+5:
		// OUT: some address outside the named ones, of the usual length: fresh ones and the same ones again
		h := sha256.Sum256([]byte(fmt.Sprintf("verif-out-%d", a.OutSel%4)))
		return sdk.Address(h[:20])
	case id == n+6:
		// ODD: an address of a length the usual code never produces (nothing in a message checks it)
		h := sha256.Sum256([]byte(fmt.Sprintf("verif-odd-%d", a.OutSel%3)))
		return sdk.Address(h[:[]int{21, 1, 32}[a.OutSel%3]])
	}
	// any other id: a deterministic address nobody holds a key for
	h := sha256.Sum256([]byte(fmt.Sprintf("verif-unknown-%d", id)))
	return sdk.Address(h[:20])
}

// ID maps an address back to its id (0 = unknown).
func (a *App) ID(addr []byte) int {
	for i := 1; i <= a.Cfg.N+4; i++ {
		if bytes.Equal(a.Addr(i), addr) {
			return i
		}
	}
	for u := 1; u <= a.Cfg.N; u++ { // the look-alike addresses (never equal to the user's own unless it has no letter byte)
		if bytes.Equal(a.Addr(100+u), addr) {
			return 100 + u
		}
	}
	return 0
}

func tickTime(t int64) time.Time { return time.Unix(T0, 0).UTC().Add(time.Duration(t) * Tick) }

func absTime(t time.Time) int64 {
	if t.Unix() < T0 {
		return -1
	}
	if t.Unix() >= postypes.DoubleSignJailEndTime.Unix() {
		return INF
	}
	return int64(t.Sub(time.Unix(T0, 0)) / Tick)
}

func (a *App) PosParams() postypes.Params {
	c := a.Cfg
	return postypes.Params{
		UnstakingTime:            time.Duration(c.UnstakeTime) * Tick,
		MaxValidators:            c.MaxVals,
		StakeDenom:               sdk.DefaultStakeDenom,
		StakeMinimum:             c.MinStake,
		ProposerRewardPercentage: 90,
		MaxEvidenceAge:           time.Duration(c.MaxEvAge) * Tick,
		SignedBlocksWindow:       c.Window,
		MinSignedPerWindow:       sdk.MustNewDecFromStr(c.MinSigned),
		DowntimeJailDuration:     time.Duration(c.JailDur) * Tick,
		SlashFractionDoubleSign:  sdk.MustNewDecFromStr(c.FracDS),
		SlashFractionDowntime:    sdk.MustNewDecFromStr(c.FracDT),
	}
}

func (a *App) genesis() map[string]json.RawMessage {
	c := a.Cfg
	coins := func(x int64) sdk.Coins { return sdk.NewCoins(sdk.NewCoin(sdk.DefaultStakeDenom, sdk.NewInt(x))) }
	// auth
	var accs authtypes.Accounts
	for i, k := range a.Keys {
		var b int64
		if i < len(c.Bal) {
			b = c.Bal[i]
		}
		acc := auth.NewBaseAccountWithAddress(k.Addr)
		acc.Coins = coins(b)
		// every second user's account is one that only ever RECEIVED coins: no public key stored yet (its first
		// transaction carries the key in the signature); depends on the key seed so that both layouts occur
		if (int64(i)+c.KeySeed)%2 == 0 {
			acc.PubKey = k.Pub
		}
		accs = append(accs, &acc)
	}
	// staked pool funded with the stake of every staked or unstaking genesis validator (consistent genesis)
	var pool int64
	var vals []postypes.Validator
	for _, g := range c.GVals {
		k := a.Keys[g.V-1]
		v := postypes.Validator{Address: k.Addr, PublicKey: k.Pub, Jailed: g.Jailed, Status: sdk.StakeStatus(g.Status),
			StakedTokens: sdk.NewInt(g.Tokens), UnstakingCompletionTime: time.Unix(0, 0).UTC()}
		if g.Status == 1 {
			v.UnstakingCompletionTime = tickTime(g.Uat)
		}
		pool += g.Tokens // every genesis validator's stake has to be backed (staked or unstaking)
		vals = append(vals, v)
	}
	ap := authtypes.DefaultParams()
	ap.FeeMultiplier.Default = c.FeeMult
	ags := authtypes.NewGenesisState(ap, accs)
	// A module account cannot be listed in the auth genesis (ValidateGenesis dereferences its nil
	// public key), so the staked pool is funded by pos.InitGenesis itself; the consistent genesis
	// therefore states the supply explicitly: user balances + staked tokens (the DAO tokens are
	// minted, and added to the supply, by gov.InitGenesis).
	var total int64
	for i := range a.Keys {
		if i < len(c.Bal) {
			total += c.Bal[i]
		}
	}
	ags.Supply = coins(total + pool)
	// pos
	pgs := postypes.DefaultGenesisState()
	pgs.Params = a.PosParams()
	pgs.Validators = vals
	if c.Exported {
		pgs.Exported = true
		total := int64(0)
		for i, p := range c.PrevPowers {
			if p >= 0 && i < len(a.Keys) {
				pgs.PrevStateValidatorPowers = append(pgs.PrevStateValidatorPowers, postypes.PrevStatePowerMapping{Address: a.Keys[i].Addr, Power: p})
				total += p
			}
		}
		pgs.PrevStateTotalPower = sdk.NewInt(total)
	}
	// gov
	acl := govtypes.ACL(make([]govtypes.ACLPair, 0))
	for i, key := range ParamKeys {
		o := 1
		if len(c.AclOwner) == 1 {
			o = c.AclOwner[0]
		} else if i < len(c.AclOwner) {
			o = c.AclOwner[i]
		}
		acl.SetOwner(key, a.Addr(o))
	}
	ggs := govtypes.DefaultGenesisState()
	ggs.Params.ACL = acl
	ggs.Params.DAOOwner = a.Addr(c.DaoOwner)
	ggs.DAOTokens = sdk.NewInt(c.DaoTokens)
	return map[string]json.RawMessage{
		auth.ModuleName:     auth.ModuleCdc.MustMarshalJSON(ags),
		postypes.ModuleName: postypes.ModuleCdc.MustMarshalJSON(pgs),
		govtypes.ModuleName: govtypes.ModuleCdc.MustMarshalJSON(ggs),
	}
}

func (a *App) initChainer(ctx sdk.Ctx, req abci.RequestInitChain) abci.ResponseInitChain {
	var gs map[string]json.RawMessage
	if err := json.Unmarshal(req.AppStateBytes, &gs); err != nil {
		panic(err)
	}
	// Order auth, pos, gov as module.Manager.InitGenesis would do. The manager itself is not
	// used because pos.ValidateGenesis insists on the shipped 10^6 minimum stake and
	// pos.AppModule.InitGenesis overwrites the genesis params with DefaultParams; the exported
	// pos.InitGenesis is called directly with the configured parameters instead.
	mods := a.MM.Modules
	mods[auth.ModuleName].InitGenesis(ctx, gs[auth.ModuleName])
	var pgs postypes.GenesisState
	postypes.ModuleCdc.MustUnmarshalJSON(gs[postypes.ModuleName], &pgs)
	upd := pos.InitGenesis(ctx, a.PK, a.AK, pgs)
	mods[govtypes.ModuleName].InitGenesis(ctx, gs[govtypes.ModuleName])
	return abci.ResponseInitChain{Validators: upd}
}

// ExportState exports the application state the way a chain is restarted from an export: the pos
// and gov modules through their own ExportGenesis (JSON round trip included); the auth genesis is
// assembled from ALL current accounts (module accounts included) with the current supply, because
// auth.ExportGenesis drops every account without a public key (the module accounts) and the supply -
// the restart path of the listed properties starts "from a consistent genesis".
func (a *App) ExportState() map[string]json.RawMessage {
	ctx := a.Ctx()
	pgs := pos.ExportGenesis(ctx, a.PK)
	ags := authtypes.GenesisState{Params: a.AK.GetParams(ctx), Accounts: a.AK.GetAllAccounts(ctx), Supply: a.AK.GetSupply(ctx).GetTotal()}
	ggs := a.GK.ExportGenesis(ctx)
	ggs.DAOTokens = sdk.ZeroInt() // the DAO account, with its balance, is among the exported accounts
	return map[string]json.RawMessage{
		auth.ModuleName:     authtypes.ModuleCdc.MustMarshalJSON(ags),
		postypes.ModuleName: postypes.ModuleCdc.MustMarshalJSON(pgs),
		govtypes.ModuleName: govtypes.ModuleCdc.MustMarshalJSON(ggs),
	}
}

// InitChain runs the ABCI InitChain with the configured genesis.
func (a *App) InitChain() abci.ResponseInitChain {
	gen := a.GenOverride
	if gen == nil {
		gen = a.genesis()
	}
	bz, _ := json.Marshal(gen)
	a.Hdr = abci.Header{ChainID: a.Cfg.ChainID, Time: tickTime(a.GenTime)}
	cp := &abci.ConsensusParams{Validator: &abci.ValidatorParams{PubKeyTypes: []string{tmtypes.ABCIPubKeyTypeEd25519}}}
	if a.Cfg.MaxGas > 0 {
		cp.Block = &abci.BlockParams{MaxBytes: 1 << 20, MaxGas: a.Cfg.MaxGas}
	}
	return a.B.InitChain(abci.RequestInitChain{ChainId: a.Cfg.ChainID, Time: tickTime(a.GenTime), AppStateBytes: bz, ConsensusParams: cp})
}

// ---------------------------------------------------------------------------------------------
// reading state

// Ctx returns a context on the root multistore (never the stale check-state cache).
func (a *App) Ctx() sdk.Ctx {
	return sdk.NewContext(a.B.Store(), a.Hdr, false, log.NewNopLogger()).WithAppVersion(a.Cfg.Version)
}

// Digest is a SHA-256 over a byte-for-byte dump of every mounted IAVL store.
func (a *App) Digest() string {
	h := sha256.New()
	ctx := a.Ctx()
	for _, k := range []sdk.StoreKey{a.KeyMain, a.KeyAuth, a.KeyPos, sdk.ParamsKey} {
		st := ctx.KVStore(k)
		it := st.Iterator(nil, nil)
		for ; it.Valid(); it.Next() {
			var l [8]byte
			binary.BigEndian.PutUint64(l[:], uint64(len(it.Key())))
			h.Write(l[:])
			h.Write(it.Key())
			binary.BigEndian.PutUint64(l[:], uint64(len(it.Value())))
			h.Write(l[:])
			h.Write(it.Value())
		}
		it.Close()
		h.Write([]byte{0xff, 0xfe})
	}
	return hex.EncodeToString(h.Sum(nil))
}

// Digests returns the digest of the auth store and the digest of all other IAVL stores.
func (a *App) Digests() (string, string) {
	ctx := a.Ctx()
	one := func(keys ...sdk.StoreKey) string {
		h := sha256.New()
		for _, k := range keys {
			it := ctx.KVStore(k).Iterator(nil, nil)
			for ; it.Valid(); it.Next() {
				var l [8]byte
				binary.BigEndian.PutUint64(l[:], uint64(len(it.Key())))
				h.Write(l[:])
				h.Write(it.Key())
				binary.BigEndian.PutUint64(l[:], uint64(len(it.Value())))
				h.Write(l[:])
				h.Write(it.Value())
			}
			it.Close()
			h.Write([]byte{0xff, 0xfe})
		}
		return hex.EncodeToString(h.Sum(nil))[:24]
	}
	return one(a.KeyAuth), one(a.KeyMain, a.KeyPos, sdk.ParamsKey)
}

// Dump returns store name -> hex(key) -> hex(value) (used in violation reports).
func (a *App) Dump() map[string]map[string]string {
	out := map[string]map[string]string{}
	ctx := a.Ctx()
	for _, k := range []sdk.StoreKey{a.KeyMain, a.KeyAuth, a.KeyPos, sdk.ParamsKey} {
		m := map[string]string{}
		it := ctx.KVStore(k).Iterator(nil, nil)
		for ; it.Valid(); it.Next() {
			m[hex.EncodeToString(it.Key())] = hex.EncodeToString(it.Value())
		}
		it.Close()
		out[k.Name()] = m
	}
	return out
}
