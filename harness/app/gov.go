package app

import (
	"bytes"
	"reflect"
	"strings"

	sdk "github.com/pokt-network/posmint/types"
	authtypes "github.com/pokt-network/posmint/x/auth/types"
	govtypes "github.com/pokt-network/posmint/x/gov/types"
	postypes "github.com/pokt-network/posmint/x/pos/types"
)

// GovState is the projection of the parameter store for spec/Gov.tla.
type GovState struct {
	Params   []int    `json:"params"`   // per ParamKeys: index of the stored value in the key's alphabet (0 = genesis value), -1 = none of them
	Acl      []int    `json:"acl"`      // per ParamKeys: owner id (0 = empty/absent, -1 = unknown address)
	AclExtra int      `json:"aclExtra"` // owner id of the ACL entry for the non-parameter key "pos/NoSuch" (0 none, -1 other foreign entries)
	DaoOwner int      `json:"daoOwner"`
	Raw      []string `json:"raw"` // raw stored JSON per key (for reports)
}

// mutate returns the typed value v advanced by k steps (k=0: v itself), for the value alphabet of a parameter.
func mutate(v reflect.Value, k int) reflect.Value {
	out := reflect.New(v.Type()).Elem()
	out.Set(v)
	if k == 0 {
		return out
	}
	switch v.Kind() {
	case reflect.Int, reflect.Int8, reflect.Int16, reflect.Int32, reflect.Int64:
		out.SetInt(v.Int() + int64(k))
	case reflect.Uint, reflect.Uint8, reflect.Uint16, reflect.Uint32, reflect.Uint64:
		out.SetUint(v.Uint() + uint64(k))
	case reflect.String:
		out.SetString(v.String() + strings.Repeat("x", k))
	default:
		switch x := v.Interface().(type) {
		case sdk.Dec:
			out.Set(reflect.ValueOf(x.Add(sdk.NewDecWithPrec(int64(k), 3))))
		case authtypes.FeeMultipliers:
			x.FeeMultis = append([]authtypes.FeeMultiplier{}, x.FeeMultis...)
			x.FeeMultis = append(x.FeeMultis, authtypes.FeeMultiplier{Key: "nosuchmsg", Multiplier: int64(k)})
			out.Set(reflect.ValueOf(x))
		}
	}
	return out
}

// paramSets returns the genesis-typed parameter sets of auth and pos, keyed "subspace/key".
func (a *App) typedParams() map[string]reflect.Value {
	out := map[string]reflect.Value{}
	ap := authtypes.DefaultParams()
	ap.FeeMultiplier.Default = a.Cfg.FeeMult
	for _, p := range ap.ParamSetPairs() {
		out["auth/"+string(p.Key)] = reflect.ValueOf(p.Value).Elem()
	}
	pp := a.PosParams()
	for _, p := range (&pp).ParamSetPairs() {
		out["pos/"+string(p.Key)] = reflect.ValueOf(p.Value).Elem()
	}
	return out
}

// ParamRaw returns the raw JSON of value number k (0 = genesis) of parameter key, or nil if the
// key has no typed alphabet (gov/* keys are handled separately).
func (a *App) ParamRaw(key string, k int) []byte {
	tp := a.typedParams()
	v, ok := tp[key]
	if !ok {
		return nil
	}
	bz, err := a.Cdc.MarshalJSON(mutate(v, k).Interface())
	if err != nil {
		panic(err)
	}
	return bz
}

// AclRaw builds the raw JSON of a complete ACL: owners[i] owns ParamKeys[i]; extra adds an entry
// for a key that is not a parameter.
func (a *App) AclRaw(owners []int, extraKey string, extraOwner int) []byte {
	acl := govtypes.ACL(make([]govtypes.ACLPair, 0))
	for i, key := range ParamKeys {
		if owners[i] == 0 {
			continue // no entry for this parameter
		}
		acl.SetOwner(key, a.Addr(owners[i]))
	}
	if extraKey != "" {
		acl.SetOwner(extraKey, a.Addr(extraOwner))
	}
	bz, err := a.Cdc.MarshalJSON(acl)
	if err != nil {
		panic(err)
	}
	return bz
}

func (a *App) AddrRaw(id int) []byte {
	bz, err := a.Cdc.MarshalJSON(a.Addr(id))
	if err != nil {
		panic(err)
	}
	return bz
}

// GovProject reads every parameter of every subspace raw from the params store.
func (a *App) GovProject() GovState {
	ctx := a.Ctx()
	st := ctx.KVStore(sdk.ParamsKey)
	g := GovState{Params: make([]int, len(ParamKeys)), Acl: make([]int, len(ParamKeys)), Raw: make([]string, len(ParamKeys))}
	for i, key := range ParamKeys {
		raw := st.Get([]byte(key))
		g.Raw[i] = string(raw)
		g.Params[i] = -1
		if strings.HasPrefix(key, "gov/") {
			g.Params[i] = 0 // projected through Acl / DaoOwner / upgrade below
			continue
		}
		for k := 0; k < 4; k++ {
			if bytes.Equal(raw, a.ParamRaw(key, k)) {
				g.Params[i] = k
				break
			}
		}
	}
	acl := a.GK.GetACL(ctx)
	for i, key := range ParamKeys {
		o := acl.GetOwner(key)
		switch {
		case len(o) == 0:
			g.Acl[i] = 0
		case a.ID(o) == 0:
			g.Acl[i] = -1
		default:
			g.Acl[i] = a.ID(o)
		}
	}
	for _, p := range acl {
		known := false
		for _, key := range ParamKeys {
			if key == p.Key {
				known = true
			}
		}
		if !known {
			if p.Key == "pos/NoSuch" {
				g.AclExtra = a.ID(p.Addr)
			} else {
				g.AclExtra = -1
			}
		}
	}
	do := a.GK.GetDAOOwner(ctx)
	switch {
	case len(do) == 0:
		g.DaoOwner = 0
	case a.ID(do) == 0:
		g.DaoOwner = -1
	default:
		g.DaoOwner = a.ID(do)
	}
	// the upgrade plan: height only (version strings are tokens chosen by the driver)
	up := a.GK.GetUpgrade(ctx)
	for i, key := range ParamKeys {
		if key == "gov/upgrade" {
			g.Params[i] = int(up.Height)
		}
	}
	return g
}

var _ = postypes.ModuleName
