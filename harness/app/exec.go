package app

import (
	"crypto/sha256"
	"encoding/hex"
	"fmt"
	"os"
	"runtime/debug"
	"sort"
	"strings"

	"github.com/pokt-network/posmint/crypto"
	sdk "github.com/pokt-network/posmint/types"
	"github.com/pokt-network/posmint/x/auth"
	govtypes "github.com/pokt-network/posmint/x/gov/types"
	postypes "github.com/pokt-network/posmint/x/pos/types"
	amino "github.com/tendermint/go-amino"
	abci "github.com/tendermint/tendermint/abci/types"
	tmtypes "github.com/tendermint/tendermint/types"
)

// Ev is one piece of double-sign evidence.
type Ev struct {
	V     int   `json:"v"`
	Age   int64 `json:"age"`   // ticks before the block time
	HBack int64 `json:"hback"` // infraction height = current height - hback
	Power int64 `json:"power"`
}

// Action is one step of a behaviour (the args of a Posmint.tla action).
type Action struct {
	A string `json:"a"`
	// BeginBlock
	Dt    int64      `json:"dt,omitempty"`
	Prop  int        `json:"prop,omitempty"`
	Votes [][3]int64 `json:"votes,omitempty"` // [id, signed(0/1), power]
	Evs   []Ev       `json:"evs,omitempty"`
	// Tx / CheckTx / Simulate
	Kind    string `json:"kind,omitempty"` // stake unstake unjail send changeparam upgrade daotransfer daoburn garbage
	From    int    `json:"from,omitempty"`
	To      int    `json:"to,omitempty"`
	Amt     int64  `json:"amt,omitempty"`
	Fee     int64  `json:"fee"`
	Signer  int    `json:"signer,omitempty"` // whose key signs (0 = From)
	NoPk    bool   `json:"nopk,omitempty"`   // leave the public key out of the signature (looked up from state)
	Mut     string `json:"mut,omitempty"`    // mutation after signing: fee memo entropy msg chain sig
	Memo    string `json:"memo,omitempty"`
	Key     string `json:"key,omitempty"`    // changeparam key
	Val     string `json:"val,omitempty"`    // changeparam raw value / upgrade version / DAO action override
	Height  int64  `json:"height,omitempty"` // upgrade height / query height
	Replay  int    `json:"replay,omitempty"` // >0: resubmit the Replay-th transaction built in this run verbatim
	Variant int    `json:"variant,omitempty"`
	// ExtAward / ExtBurn
	Num int64 `json:"num,omitempty"` // burn severity numerator
	Den int64 `json:"den,omitempty"`
	// Query
	Path  string `json:"path,omitempty"`
	Data  string `json:"data,omitempty"` // hex
	Prove bool   `json:"prove,omitempty"`
}

// Result is what the harness observed from one call.
type Result struct {
	Code      uint32      `json:"code"`
	Codespace string      `json:"codespace,omitempty"`
	Class     string      `json:"class"` // ok | rej_pre (no fee taken) | rej_post (fee taken) | halt | n/a
	Log       string      `json:"log,omitempty"`
	Updates   [][2]int64  `json:"updates"` // [id, power] as returned (InitChain / EndBlock)
	UpdDup    bool        `json:"upddup,omitempty"`
	Hash      string      `json:"hash,omitempty"`
	Halt      string      `json:"halt,omitempty"`
	Events    string      `json:"events,omitempty"` // digest of consensus-relevant response fields
	Value     string      `json:"value,omitempty"`
	TmErr     string      `json:"tmerr"`          // error of Tendermint's UpdateWithChangeSet on the returned updates ("" = applied)
	QAns      [][2]string `json:"qans,omitempty"` // Commit: [kind, digest of the answer] for every query kind, asked right after it
	QD        string      `json:"qd,omitempty"`   // Query: digest of the answer
}

// QueryKinds are the queries of the specification's environment (latest committed height).
var QueryKinds = []string{"store-acc", "store-pos", "custom-pool", "custom-params", "custom-vals", "version", "bad-path"}

func (a *App) queryReq(kind string, act Action) abci.RequestQuery {
	path, data := act.Path, []byte(nil)
	if act.Data != "" {
		data, _ = hex.DecodeString(act.Data)
	}
	switch kind {
	case "store-acc":
		path, data = "/store/"+auth.StoreKey+"/key", append([]byte{0x01}, a.Addr(1)...)
	case "store-pos":
		path, data = "/store/"+postypes.StoreKey+"/subspace", postypes.AllValidatorsKey
	case "custom-pool":
		path = "/custom/pos/" + postypes.QueryStakedPool
	case "custom-params":
		path = "/custom/pos/" + postypes.QueryParameters
	case "custom-vals":
		path, data = "/custom/pos/"+postypes.QueryUnstakingValidators, []byte(`{"page":1,"limit":10}`)
	case "version":
		path = "/app/version"
	case "bad-path":
		path = "/nosuch/thing"
	}
	return abci.RequestQuery{Path: path, Data: data, Height: act.Height, Prove: act.Prove}
}

func queryDigest(out abci.ResponseQuery) string {
	h := sha256.Sum256([]byte(fmt.Sprintf("%d|%s|%x|%x|%d", out.Code, out.Codespace, out.Key, out.Value, out.Height)))
	return hex.EncodeToString(h[:8])
}

// committedAnswers asks every kind of query while the state is exactly the committed one.
func (a *App) committedAnswers() (out [][2]string) {
	for _, k := range QueryKinds {
		func() {
			defer func() {
				if r := recover(); r != nil {
					out = append(out, [2]string{k, "panic"})
				}
			}()
			out = append(out, [2]string{k, queryDigest(a.B.Query(a.queryReq(k, Action{})))})
		}()
	}
	return out
}

func coins(x int64) sdk.Coins { return sdk.NewCoins(sdk.NewCoin(sdk.DefaultStakeDenom, sdk.NewInt(x))) }

func (a *App) updates(us []abci.ValidatorUpdate) ([][2]int64, bool) {
	out := [][2]int64{}
	seen := map[int]bool{}
	dup := false
	for _, u := range us {
		pk, err := tmtypes.PB2TM.PubKey(u.PubKey)
		id := 0
		if err == nil {
			id = a.ID(pk.Address())
		}
		if seen[id] {
			dup = true
		}
		seen[id] = true
		out = append(out, [2]int64{int64(id), u.Power})
	}
	return out, dup
}

func evDigest(parts ...interface{}) string {
	h := sha256.New()
	for _, p := range parts {
		fmt.Fprintf(h, "%v|", p)
	}
	return hex.EncodeToString(h.Sum(nil))[:16]
}

// BuildTx builds and signs the transaction an Action describes. It returns the tx bytes.
func (a *App) BuildTx(act Action, entropy int64) []byte {
	if act.Kind == "garbage" {
		h := sha256.Sum256([]byte(fmt.Sprintf("garbage-%d-%d", act.Variant, entropy)))
		// the kind of malformation rotates with the running counter so that every kind occurs in every run
		switch (act.Variant + int(entropy%1000003)) % 5 {
		case 4: // decodable, but a field of the message is missing on the wire (its Int decodes to nil)
			return a.shadowTx(entropy)
		case 0:
			return []byte{}
		case 1:
			return h[:]
		case 2: // truncated valid tx
			b := a.BuildTx(Action{A: "Tx", Kind: "send", From: 1, To: 2, Amt: 1, Fee: act.Fee}, entropy)
			return b[:len(b)/2]
		default: // mutated valid tx
			b := a.BuildTx(Action{A: "Tx", Kind: "send", From: 1, To: 2, Amt: 1, Fee: act.Fee}, entropy)
			b[int(h[0])%len(b)] ^= 0x5a
			return b
		}
	}
	var msg sdk.Msg
	switch act.Kind {
	case "stake":
		msg = postypes.MsgStake{PubKey: a.Keys[act.From-1].Pub, Value: sdk.NewInt(act.Amt)}
	case "unstake":
		msg = postypes.MsgBeginUnstake{Address: a.Addr(act.From)}
	case "unjail":
		msg = postypes.MsgUnjail{ValidatorAddr: a.Addr(act.From)}
	case "send":
		msg = postypes.MsgSend{FromAddress: a.Addr(act.From), ToAddress: a.Addr(act.To), Amount: sdk.NewInt(act.Amt)}
	case "changeparam":
		msg = govtypes.MsgChangeParam{FromAddress: a.Addr(act.From), ParamKey: act.Key, ParamVal: []byte(act.Val)}
	case "upgrade":
		msg = govtypes.MsgUpgrade{Address: a.Addr(act.From), Upgrade: govtypes.Upgrade{Height: act.Height, Version: act.Val}}
	case "daotransfer":
		msg = govtypes.MsgDAOTransfer{FromAddress: a.Addr(act.From), ToAddress: a.Addr(act.To), Amount: sdk.NewInt(act.Amt), Action: govtypes.DAOTransferString}
	case "daoburn":
		msg = govtypes.MsgDAOTransfer{FromAddress: a.Addr(act.From), Amount: sdk.NewInt(act.Amt), Action: govtypes.DAOBurnString}
	default:
		panic("unknown tx kind " + act.Kind)
	}
	fee := coins(act.Fee)
	signer := act.Signer
	if signer == 0 {
		signer = act.From
	}
	var priv crypto.PrivateKey
	if signer >= 1 && signer <= a.Cfg.N {
		priv = a.Keys[signer-1].Priv
	} else {
		priv = GenKeys(1, int64(1000+signer))[0].Priv
	}
	sb, err := auth.StdSignBytes(a.Cfg.ChainID, entropy, fee, msg, act.Memo)
	if err != nil {
		panic(err)
	}
	sig, err := priv.Sign(sb)
	if err != nil {
		panic(err)
	}
	ss := auth.StdSignature{Signature: sig}
	if !act.NoPk {
		ss.PublicKey = priv.PublicKey()
	}
	tx := auth.StdTx{Msg: msg, Fee: fee, Signature: ss, Memo: act.Memo, Entropy: entropy}
	switch act.Mut {
	case "":
	case "fee":
		tx.Fee = coins(act.Fee + 1)
	case "memo":
		tx.Memo = act.Memo + "x"
	case "entropy":
		tx.Entropy = entropy + 1
	case "sig":
		s2 := append([]byte{}, sig...)
		s2[len(s2)/2] ^= 1
		tx.Signature.Signature = s2
	case "msg":
		switch m := msg.(type) {
		case postypes.MsgSend:
			m.Amount = m.Amount.Add(sdk.OneInt())
			tx.Msg = m
		case postypes.MsgStake:
			m.Value = m.Value.Add(sdk.OneInt())
			tx.Msg = m
		case govtypes.MsgChangeParam:
			m.ParamVal = append(append([]byte{}, m.ParamVal...), ' ')
			tx.Msg = m
		case govtypes.MsgDAOTransfer:
			m.Amount = m.Amount.Add(sdk.OneInt())
			tx.Msg = m
		case govtypes.MsgUpgrade:
			m.Upgrade.Height++
			tx.Msg = m
		}
	case "chain":
		sb2, _ := auth.StdSignBytes(a.Cfg.ChainID+"-other", entropy, fee, msg, act.Memo)
		s2, _ := priv.Sign(sb2)
		tx.Signature.Signature = s2
	default:
		panic("unknown mutation " + act.Mut)
	}
	bz, err := a.Cdc.MarshalBinaryLengthPrefixed(tx)
	if err != nil {
		panic(err)
	}
	return bz
}

// shadowTx encodes a transaction whose pos/Send message has no Amount field: the same amino
// names and field numbers as the real types, registered in a private codec.
type shadowMsg interface{}
type shadowSend struct {
	FromAddress sdk.Address
	ToAddress   sdk.Address
}
type shadowPub interface{}
type shadowSig struct {
	PublicKey shadowPub `json:"pub_key"`
	Signature []byte    `json:"signature"`
}
type shadowStdTx struct {
	Msg       shadowMsg `json:"msg"`
	Fee       sdk.Coins `json:"fee"`
	Signature shadowSig `json:"signature"`
	Memo      string    `json:"memo"`
	Entropy   int64     `json:"entropy"`
}

func (a *App) shadowTx(entropy int64) []byte {
	c := amino.NewCodec()
	c.RegisterInterface((*shadowMsg)(nil), nil)
	c.RegisterInterface((*shadowPub)(nil), nil)
	c.RegisterConcrete(shadowSend{}, "pos/Send", nil)
	c.RegisterConcrete(shadowStdTx{}, "posmint/StdTx", nil)
	tx := shadowStdTx{Msg: shadowSend{FromAddress: a.Addr(1), ToAddress: a.Addr(2)}, Fee: coins(a.Cfg.Fee),
		Signature: shadowSig{Signature: []byte{1, 2, 3}}, Memo: "", Entropy: entropy}
	bz, err := c.MarshalBinaryLengthPrefixed(tx)
	if err != nil {
		panic(err)
	}
	return bz
}

// Runner executes actions against one App (recreating it on Restart).
type Runner struct {
	A       *App
	Entropy int64
	Built   [][]byte
	// Delivered holds the well-formed transactions passed to DeliverTx, in order (replay targets)
	Delivered [][]byte
	ROEntropy int64
	Halted    string
	// TM is a real Tendermint validator set to which every returned update batch is applied
	// with Tendermint's own UpdateWithChangeSet (oracle for "can be applied", C05)
	TM      *tmtypes.ValidatorSet
	Tick    int64 // current block time in ticks
	inBlock bool  // between BeginBlock and Commit
	// what a crash rolls the environment back to (taken at every Commit): header, block time,
	// Tendermint's validator set, the transactions that exist as far as the chain is concerned
	cp struct {
		ok        bool
		hdr       abci.Header
		tick      int64
		tm        *tmtypes.ValidatorSet
		entropy   int64
		built     int
		delivered int
	}
}

func NewRunner(c Cfg) (*Runner, error) {
	a, err := New(c, nil, nil)
	if err != nil {
		return nil, err
	}
	return &Runner{A: a, Entropy: 1}, nil
}

// CanCrash: something has been committed that a reopened node can come back with.
func (r *Runner) CanCrash() bool { return r.cp.ok }

func recoverHalt(res *Result) {
	if r := recover(); r != nil {
		res.Class = "halt"
		if os.Getenv("VERIF_DEBUG") != "" {
			debug.PrintStack()
		}
		s := fmt.Sprint(r)
		if len(s) > 300 {
			s = s[:300]
		}
		res.Halt = s
	}
}

// txBytes builds (or, for a replay, fetches) the transaction of an action. Only transactions
// that were delivered can be replayed; read-only traffic (CheckTx/Simulate) draws its entropy
// from a separate counter so that the delivered transactions of a history are byte-identical
// whatever read-only calls are interleaved.
func (r *Runner) txBytes(act Action) []byte {
	if act.Replay > 0 && act.Replay <= len(r.Delivered) {
		return r.Delivered[act.Replay-1]
	}
	if act.A != "Tx" {
		r.ROEntropy--
		r.A.OutSel = -r.ROEntropy
		return r.A.BuildTx(act, r.ROEntropy)
	}
	r.Entropy++
	r.A.OutSel = r.Entropy
	bz := r.A.BuildTx(act, r.Entropy)
	r.Built = append(r.Built, bz)
	if act.Kind != "garbage" {
		r.Delivered = append(r.Delivered, bz)
	}
	return bz
}

func classify(code uint32, feeBefore, feeAfter int64) string {
	if code == 0 {
		return "ok"
	}
	if feeAfter != feeBefore {
		return "rej_post"
	}
	return "rej_pre"
}

func (r *Runner) feeBal() int64 {
	a := r.A
	acc := a.AK.GetAccount(a.Ctx(), a.ModAddr[auth.FeeCollectorName])
	if acc == nil {
		return 0
	}
	return acc.GetCoins().AmountOf(sdk.DefaultStakeDenom).Int64()
}

func evStr(evs []abci.Event) string {
	var sb strings.Builder
	for _, e := range evs {
		sb.WriteString(e.Type)
		for _, kv := range e.Attributes {
			sb.WriteString("/" + string(kv.Key) + "=" + string(kv.Value))
		}
		sb.WriteString(";")
	}
	return sb.String()
}

// Exec runs one action and reports what was observed. Panics of BeginBlock/EndBlock/Commit are
// reported as Class "halt" (a dead node), never propagated.
func (r *Runner) Exec(act Action) (res Result) {
	a := r.A
	res.Class = "n/a"
	res.Updates = [][2]int64{}
	defer func() {
		// a panic inside a read-only call is that call's own failure (ABCI would surface it to the
		// caller), not a dead consensus node
		if res.Class == "halt" && (act.A == "Query" || act.A == "CheckTx" || act.A == "Simulate") {
			res.Class = "ro-panic"
		}
	}()
	defer recoverHalt(&res)
	switch act.A {
	case "InitChain":
		out := a.InitChain()
		res.Updates, res.UpdDup = a.updates(out.Validators)
		res.Events = evDigest(res.Updates)
		res.TmErr = r.applyTM(out.Validators)
	case "BeginBlock":
		r.inBlock = true
		r.Tick += act.Dt
		h := a.B.LastBlockHeight() + 1
		hdr := abci.Header{ChainID: a.Cfg.ChainID, Height: h, Time: tickTime(r.Tick), ProposerAddress: a.Addr(act.Prop)}
		if act.Prop <= 0 {
			hdr.ProposerAddress = a.Addr(900 - act.Prop)
		}
		req := abci.RequestBeginBlock{Header: hdr}
		for _, v := range act.Votes {
			req.LastCommitInfo.Votes = append(req.LastCommitInfo.Votes, abci.VoteInfo{
				Validator: abci.Validator{Address: a.Addr(int(v[0])), Power: v[2]}, SignedLastBlock: v[1] != 0})
		}
		for _, e := range act.Evs {
			req.ByzantineValidators = append(req.ByzantineValidators, abci.Evidence{Type: tmtypes.ABCIEvidenceTypeDuplicateVote,
				Validator: abci.Validator{Address: a.Addr(e.V), Power: e.Power}, Height: h - e.HBack, Time: tickTime(r.Tick - e.Age)})
		}
		a.Hdr = hdr
		out := a.B.BeginBlock(req)
		res.Events = evDigest(evStr(out.Events))
	case "Tx":
		bz := r.txBytes(act)
		fb := r.feeBal()
		out := a.B.DeliverTx(abci.RequestDeliverTx{Tx: bz})
		a.Pending = append(a.Pending, tmtypes.Tx(bz).Hash())
		if act.Replay > 0 && out.Code == 0 && !a.RPC.WasAsked(tmtypes.Tx(bz).Hash()) {
			fmt.Fprintln(os.Stderr, "harness failure: the tx-index lookup never reached the fake RPC server")
			os.Exit(3)
		}
		res.Code, res.Codespace, res.Log = out.Code, out.Codespace, trim(out.Log)
		res.Class = classify(out.Code, fb, r.feeBal())
		res.Events = evDigest(out.Code, out.Codespace, out.Data, evStr(out.Events))
	case "CheckTx":
		bz := r.txBytes(act)
		out := a.B.CheckTx(abci.RequestCheckTx{Tx: bz})
		res.Code, res.Log = out.Code, trim(out.Log)
		res.Class = classify(out.Code, 0, 0)
	case "Simulate":
		bz := r.txBytes(act)
		out := a.B.Query(abci.RequestQuery{Path: "/app/simulate", Data: bz})
		res.Code = out.Code
		var sr sdk.Result
		if err := a.Cdc.UnmarshalBinaryLengthPrefixed(out.Value, &sr); err == nil {
			res.Code = uint32(sr.Code)
			res.Log = trim(sr.Log)
		}
		res.Class = classify(res.Code, 0, 0)
	case "Query":
		out := a.B.Query(a.queryReq(act.Kind, act))
		res.Code, res.Log = out.Code, trim(out.Log)
		res.Value = hex.EncodeToString(out.Value)
		res.QD = queryDigest(out)
	case "ExtAward":
		a.OutSel = r.Entropy + act.Amt
		a.PK.AwardCoinsTo(a.Ctx(), sdk.NewInt(act.Amt), a.Addr(act.To))
	case "ExtBurn":
		den := act.Den
		if den == 0 {
			den = a.Cfg.FracDen
		}
		if den == 0 {
			den = 1
		}
		a.PK.BurnValidator(a.Ctx(), a.Addr(act.From), sdk.NewDec(act.Num).QuoInt64(den))
	case "EndBlock":
		out := a.B.EndBlock(abci.RequestEndBlock{Height: a.Hdr.Height})
		res.Updates, res.UpdDup = a.updates(out.ValidatorUpdates)
		res.Events = evDigest(res.Updates, evStr(out.Events))
		res.TmErr = r.applyTM(out.ValidatorUpdates)
	case "Commit":
		r.inBlock = false
		out := a.B.Commit()
		res.Hash = hex.EncodeToString(out.Data)
		for _, h := range a.Pending {
			a.RPC.Add(h)
		}
		a.Pending = nil
		res.QAns = a.committedAnswers()
		r.cp.ok, r.cp.hdr, r.cp.tick, r.cp.entropy, r.cp.built, r.cp.delivered = true, a.Hdr, r.Tick, r.Entropy, len(r.Built), len(r.Delivered)
		r.cp.tm = nil
		if r.TM != nil {
			r.cp.tm = r.TM.Copy()
		}
	case "Crash":
		// the process dies here (nothing is flushed, nothing is closed) and is started again on the same
		// database; Tendermint hands it the block after the last committed one again
		if !r.cp.ok {
			panic("Crash before the first Commit is not offered by the specification")
		}
		r.inBlock = false
		na, err := New(a.Cfg, a.DB, a.RPC)
		if err != nil {
			panic(err)
		}
		na.Hdr = r.cp.hdr
		r.A = na
		r.Tick, r.Entropy = r.cp.tick, r.cp.entropy
		r.Built, r.Delivered = r.Built[:r.cp.built], r.Delivered[:r.cp.delivered]
		r.TM = nil
		if r.cp.tm != nil {
			r.TM = r.cp.tm.Copy()
		}
	case "ExportImport":
		// stop this chain after a Commit, export its state, start a NEW chain (fresh database, height 0)
		// from the export; the genesis time is the current block time
		if r.inBlock { // (asked for while a block is open: that block is ended and committed first)
			if x := r.Exec(Action{A: "EndBlock"}); x.Class == "halt" {
				return x
			}
			r.Exec(Action{A: "Commit"})
			a = r.A
		}
		gen := a.ExportState()
		na, err := New(a.Cfg, nil, a.RPC)
		if err != nil {
			panic(err)
		}
		na.GenOverride = gen
		na.GenTime = r.Tick
		r.A = na
		r.TM = nil
		r.cp.ok = false
		out := na.InitChain()
		res.Updates, res.UpdDup = na.updates(out.Validators)
		res.Events = evDigest(res.Updates)
		res.TmErr = r.applyTM(out.Validators)
	case "Restart":
		hdr := a.Hdr
		na, err := New(a.Cfg, a.DB, a.RPC)
		if err != nil {
			panic(err)
		}
		na.Hdr = hdr
		r.A = na
	default:
		panic("unknown action " + act.A)
	}
	return res
}

// applyTM feeds an update batch to Tendermint's own validator-set code.
func (r *Runner) applyTM(us []abci.ValidatorUpdate) string {
	if len(us) == 0 {
		return ""
	}
	changes, err := tmtypes.PB2TM.ValidatorUpdates(us)
	if err != nil {
		return "pb2tm: " + err.Error()
	}
	if r.TM == nil {
		r.TM = &tmtypes.ValidatorSet{}
	}
	if err := r.TM.UpdateWithChangeSet(changes); err != nil {
		return err.Error()
	}
	return ""
}

func trim(s string) string {
	if i := strings.Index(s, "\nstack:"); i >= 0 {
		s = s[:i]
	}
	if len(s) > 200 {
		s = s[:200]
	}
	return s
}

// SortedUpdates returns updates sorted by id (for set comparison).
func SortedUpdates(u [][2]int64) [][2]int64 {
	out := append([][2]int64{}, u...)
	sort.Slice(out, func(i, j int) bool { return out[i][0] < out[j][0] })
	return out
}
