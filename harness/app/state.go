package app

import (
	"encoding/binary"
	"fmt"
	"sort"

	sdk "github.com/pokt-network/posmint/types"
	authexported "github.com/pokt-network/posmint/x/auth/exported"
	postypes "github.com/pokt-network/posmint/x/pos/types"
	"github.com/tendermint/go-amino"
)

// AbsVal is the abstract validator record.
type AbsVal struct {
	Ex     bool  `json:"ex"`
	Status int   `json:"status"`
	Jailed bool  `json:"jailed"`
	Tokens int64 `json:"tokens"`
	Uat    int64 `json:"uat"`
}

// AbsInfo is the abstract signing info.
type AbsInfo struct {
	Ex     bool  `json:"ex"`
	Start  int64 `json:"start"`
	Offset int64 `json:"offset"`
	Missed int64 `json:"missed"`
	Until  int64 `json:"until"`
	Tomb   bool  `json:"tomb"`
}

// UqEntry is one unstaking-queue bucket.
type UqEntry struct {
	T   int64 `json:"t"`
	Ids []int `json:"ids"`
}

// AbsState is the projection of the real stores into the variables of Posmint.tla.
type AbsState struct {
	Bal       []int64    `json:"bal"` // ids 1..N users, N+1 fee, N+2 pool, N+3 pos, N+4 dao, N+5 every other address of the usual length together, N+6 every address of another length
	Supply    int64      `json:"supply"`
	Val       []AbsVal   `json:"val"`
	Pidx      [][2]int64 `json:"pidx"` // <<power, id>> sorted
	Prev      []int64    `json:"prev"` // -1 = absent
	PrevTotal int64      `json:"prevTotal"`
	Uq        []UqEntry  `json:"uq"`
	Sinfo     []AbsInfo  `json:"sinfo"`
	Bits      [][]int64  `json:"bits"`     // indexes stored as true
	AwardQ    []int64    `json:"awardQ"`   // per id 1..N+6; 0 = absent or zero
	BurnQ     []string   `json:"burnQ"`    // Dec strings, "" = absent
	Proposer  int        `json:"proposer"` // id, 0 = unknown address, -1 = unset
	Pkrel     []int      `json:"pkrel"`
	MaxVals   int64      `json:"maxVals"`   // pos/MaxValidators as stored
	MinStake  int64      `json:"minStake"`  // pos/StakeMinimum as stored
	DenomAlt  bool       `json:"denomAlt"`  // pos/StakeDenom is no longer the default denomination
	AccEx     []bool     `json:"accex"`     // per id 1..N+4: an account record exists in the auth store
	PosmAcc   string     `json:"posmAcc"`   // what sits at the pos module account's address: none / plain / module
	Anomalies []string   `json:"anomalies"` // things the abstraction cannot represent (unknown addresses, foreign denoms …)
}

func amt(c sdk.Coins) (int64, bool) {
	ok := true
	for _, x := range c {
		if x.Denom != sdk.DefaultStakeDenom {
			ok = false
		}
	}
	return c.AmountOf(sdk.DefaultStakeDenom).Int64(), ok
}

// Project reads the current (uncommitted, root multistore) state.
func (a *App) Project() (s AbsState) {
	n := a.Cfg.N
	ctx := a.Ctx()
	defer func() {
		// the stores can be in a shape no well-formed state has (e.g. after a faulty change wiped
		// them): report what could be read plus an anomaly instead of dying
		if r := recover(); r != nil {
			if s.Anomalies == nil {
				s.Anomalies = []string{}
			}
			s.Anomalies = append(s.Anomalies, fmt.Sprintf("projection panicked: %v", r))
		}
	}()
	s = AbsState{Bal: make([]int64, n+6), Val: make([]AbsVal, n), Prev: make([]int64, n), Sinfo: make([]AbsInfo, n),
		Bits: make([][]int64, n), AwardQ: make([]int64, n+6), BurnQ: make([]string, n), Pidx: [][2]int64{}, Uq: []UqEntry{}, Pkrel: []int{}, Anomalies: []string{}, AccEx: make([]bool, n+4)}
	for i := range s.Prev {
		s.Prev[i] = -1
		s.Bits[i] = []int64{}
		s.Val[i].Uat = -1
		s.Sinfo[i].Until = -1
	}
	anom := func(f string, args ...interface{}) { s.Anomalies = append(s.Anomalies, fmt.Sprintf(f, args...)) }
	a.AK.IterateAccounts(ctx, func(acc authexported.Account) bool {
		id := a.ID(acc.GetAddress())
		x, ok := amt(acc.GetCoins())
		if id == 0 {
			// an address outside the named ones: all of them together are the specification's OUT account
			if !ok {
				anom("account %s holds foreign denom %s", acc.GetAddress(), acc.GetCoins())
			}
			if len(acc.GetAddress()) == sdk.AddrLen {
				s.Bal[n+4] += x
			} else {
				s.Bal[n+5] += x
			}
			return false
		}
		if !ok {
			anom("account %d holds foreign denom %s", id, acc.GetCoins())
		}
		s.Bal[id-1] = x
		return false
	})
	sup, ok := amt(a.AK.GetSupply(ctx).GetTotal())
	if !ok {
		anom("supply has foreign denom")
	}
	s.Supply = sup
	for _, v := range a.PK.GetAllValidators(ctx) {
		id := a.ID(v.Address)
		if id < 1 || id > n {
			anom("validator with unknown address %s", v.Address)
			continue
		}
		s.Val[id-1] = AbsVal{Ex: true, Status: int(v.Status), Jailed: v.Jailed, Tokens: v.StakedTokens.Int64(), Uat: absTime(v.UnstakingCompletionTime)}
	}
	st := ctx.KVStore(a.KeyPos)
	iter := func(prefix []byte, f func(k, v []byte)) {
		it := sdk.KVStorePrefixIterator(st, prefix)
		defer it.Close()
		for ; it.Valid(); it.Next() {
			f(it.Key(), it.Value())
		}
	}
	// power index 0x23: key = 0x23 | power(8, BE) | ^addr ; value = addr
	iter(postypes.StakedValidatorsKey, func(k, v []byte) {
		if len(k) != 1+8+sdk.AddrLen {
			anom("power index key of length %d", len(k))
			return
		}
		p := int64(binary.BigEndian.Uint64(k[1:9]))
		ad := make([]byte, sdk.AddrLen)
		for i := range ad {
			ad[i] = ^k[9+i]
		}
		id := a.ID(ad)
		if id == 0 || a.ID(v) != id {
			anom("power index entry for unknown/mismatched address %X / %X", ad, v)
			return
		}
		s.Pidx = append(s.Pidx, [2]int64{p, int64(id)})
	})
	sort.Slice(s.Pidx, func(i, j int) bool {
		if s.Pidx[i][0] != s.Pidx[j][0] {
			return s.Pidx[i][0] < s.Pidx[j][0]
		}
		return s.Pidx[i][1] < s.Pidx[j][1]
	})
	iter(postypes.PrevStateValidatorsPowerKey, func(k, v []byte) {
		id := a.ID(k[1:])
		var p int64
		a.Cdc.MustUnmarshalBinaryLengthPrefixed(v, &p)
		if id < 1 || id > n {
			anom("prev-state power for unknown address %X", k[1:])
			return
		}
		s.Prev[id-1] = p
	})
	s.PrevTotal = a.PK.PrevStateValidatorsPower(ctx).Int64()
	iter(postypes.UnstakingValidatorsKey, func(k, v []byte) {
		t, err := sdk.ParseTimeBytes(k[1:])
		if err != nil {
			anom("unstaking queue key %X: %v", k, err)
			return
		}
		var addrs []sdk.Address
		a.Cdc.MustUnmarshalBinaryLengthPrefixed(v, &addrs)
		e := UqEntry{T: absTime(t), Ids: []int{}}
		for _, ad := range addrs {
			e.Ids = append(e.Ids, a.ID(ad))
		}
		s.Uq = append(s.Uq, e)
	})
	iter(postypes.ValidatorSigningInfoKey, func(k, v []byte) {
		id := a.ID(k[1:])
		var info postypes.ValidatorSigningInfo
		a.Cdc.MustUnmarshalBinaryLengthPrefixed(v, &info)
		if id < 1 || id > n {
			anom("signing info for unknown address %X", k[1:])
			return
		}
		s.Sinfo[id-1] = AbsInfo{Ex: true, Start: info.StartHeight, Offset: info.IndexOffset, Missed: info.MissedBlocksCounter,
			Until: absTime(info.JailedUntil), Tomb: info.Tombstoned}
	})
	iter(postypes.ValidatorMissedBlockBitArrayKey, func(k, v []byte) {
		if len(k) != 1+sdk.AddrLen+8 {
			anom("missed-block key of length %d", len(k))
			return
		}
		id := a.ID(k[1 : 1+sdk.AddrLen])
		idx := int64(binary.LittleEndian.Uint64(k[1+sdk.AddrLen:]))
		var m bool
		a.Cdc.MustUnmarshalBinaryLengthPrefixed(v, &m)
		if id < 1 || id > n {
			anom("missed-block entry for unknown address")
			return
		}
		if m {
			s.Bits[id-1] = append(s.Bits[id-1], idx)
		}
	})
	for i := range s.Bits {
		sort.Slice(s.Bits[i], func(x, y int) bool { return s.Bits[i][x] < s.Bits[i][y] })
	}
	iter(postypes.AddrPubkeyRelationKey, func(k, v []byte) {
		id := a.ID(k[1:])
		if id >= 1 && id <= n {
			s.Pkrel = append(s.Pkrel, id)
		} else {
			anom("pubkey relation for unknown address %X", k[1:])
		}
	})
	sort.Ints(s.Pkrel)
	iter(postypes.AwardValidatorKey, func(k, v []byte) {
		id := a.ID(k[1:])
		var x sdk.Int
		amino.MustUnmarshalBinaryBare(v, &x)
		if id == 0 {
			if len(k[1:]) == sdk.AddrLen {
				s.AwardQ[n+4] += x.Int64()
			} else {
				s.AwardQ[n+5] += x.Int64()
			}
			return
		}
		s.AwardQ[id-1] = x.Int64()
	})
	iter(postypes.BurnValidatorKey, func(k, v []byte) {
		id := a.ID(k[1:])
		var d sdk.Dec
		amino.MustUnmarshalBinaryBare(v, &d)
		if id < 1 || id > n {
			anom("burn queued for unknown address %X", k[1:])
			return
		}
		s.BurnQ[id-1] = d.String()
	})
	s.MaxVals = int64(a.PK.MaxValidators(ctx))
	s.MinStake = a.PK.MinimumStake(ctx)
	s.DenomAlt = a.PK.StakeDenom(ctx) != sdk.DefaultStakeDenom
	for id := 1; id <= n+4; id++ {
		s.AccEx[id-1] = a.AK.GetAccount(ctx, a.Addr(id)) != nil
	}
	s.PosmAcc = "none"
	if acc := a.AK.GetAccount(ctx, a.ModAddr[postypes.ModuleName]); acc != nil {
		s.PosmAcc = "plain"
		if _, ok := acc.(authexported.ModuleAccountI); ok {
			s.PosmAcc = "module"
		}
	}
	bz := st.Get(postypes.ProposerKey)
	if bz == nil {
		s.Proposer = -1
	} else {
		var ad sdk.Address
		a.Cdc.MustUnmarshalBinaryLengthPrefixed(bz, &ad)
		s.Proposer = a.ID(ad)
	}
	return s
}
