#!/usr/bin/env python3
"""Handling of independently produced seeded changes (never committed to /repo).

  seeded.py confirm <dir>           # <dir> has patch.diff, demo_test.go (header names its destination), meta.json
      in a scratch worktree of /repo: the patch applies, the repo builds, the existing suite passes
      with it, the demonstration fails with it and passes without it
  seeded.py check <dir> <PROP> [more props] [--tier quick] [--seed N]
      git -C /repo apply <patch>; run ./check for each property; ALWAYS undo with git checkout
  seeded.py keep <dir> <name>       # copy into /verif/seeded/<name>/
"""
import json
import os
import re
import shutil
import subprocess
import sys

ENV = dict(os.environ, GOFLAGS="-mod=mod", GOPROXY="off", GOSUMDB="off", GOTOOLCHAIN="local")


def sh(cmd, cwd=None, timeout=1800):
    p = subprocess.run(cmd, cwd=cwd, shell=True, capture_output=True, text=True, env=ENV, timeout=timeout)
    return p.returncode, p.stdout + p.stderr


def file_dest(path):
    src = open(path).read()
    m = re.search(r"((?:[\w.-]+/)+[\w.-]+_test\.go)", "\n".join(src.splitlines()[:60]))
    if not m:
        return None
    dest = m.group(1).lstrip("/")
    return re.sub(r"^tmp/mut[0-9]*-[A-Za-z0-9]+/", "", dest)


def demo_dest(d):
    dest = file_dest(os.path.join(d, "demo_test.go"))
    if not dest:
        raise SystemExit("cannot find the demo's destination path in its header")
    return dest


def confirm(d):
    wt = "/tmp/seedchk-%d" % os.getpid()
    sh("git -C /repo worktree remove --force %s" % wt)
    rc, out = sh("git -C /repo worktree add -q --detach %s HEAD" % wt)
    if rc:
        raise SystemExit(out)
    res = {}
    try:
        dest = demo_dest(d)
        pkg = "./" + os.path.dirname(dest) + "/"
        name = re.findall(r"func (Test\w+)\(", open(os.path.join(d, "demo_test.go")).read())
        runre = "^(" + "|".join(name) + ")$"
        shutil.copyfile(os.path.join(d, "demo_test.go"), os.path.join(wt, dest))
        extras = []
        for f in os.listdir(d):  # further demo files / shared helpers, each with its own destination (default: next to the demo)
            if f.endswith("_test.go") and f != "demo_test.go":
                fd = file_dest(os.path.join(d, f)) or os.path.join(os.path.dirname(dest), f)
                os.makedirs(os.path.join(wt, os.path.dirname(fd)), exist_ok=True)
                shutil.copyfile(os.path.join(d, f), os.path.join(wt, fd))
                extras.append(fd)
        rc, out = sh("go test -vet=off -count=1 -run '%s' %s" % (runre, pkg), cwd=wt)
        res["demo_passes_without_patch"] = rc == 0
        res["demo_without_tail"] = out[-400:]
        rc, out = sh("git apply %s" % os.path.join(d, "patch.diff"), cwd=wt)
        res["patch_applies"] = rc == 0
        rc, out = sh("go build ./...", cwd=wt)
        res["builds"] = rc == 0
        rc, out = sh("go test -vet=off -count=1 -run '%s' %s" % (runre, pkg), cwd=wt)
        res["demo_fails_with_patch"] = rc != 0
        res["demo_with_tail"] = out[-600:]
        os.remove(os.path.join(wt, dest))
        for fd in extras:
            os.remove(os.path.join(wt, fd))
        rc, out = sh("go test -vet=off -count=1 -timeout 25m ./...", cwd=wt)
        res["suite_passes_with_patch"] = rc == 0
        if rc:
            res["suite_tail"] = out[-800:]
    finally:
        sh("git -C /repo worktree remove --force %s" % wt)
        shutil.rmtree(wt, ignore_errors=True)
    res["confirmed"] = all(res.get(k) for k in ("demo_passes_without_patch", "patch_applies", "builds", "demo_fails_with_patch", "suite_passes_with_patch"))
    print(json.dumps(res, indent=1))
    return res


def check(d, props, tier="quick", seed="1"):
    """Runs the checks against a scratch worktree of /repo with the patch applied (VERIF_REPO), so
    /repo itself is never touched and several seeded changes can be tried in parallel. Equivalent
    to `git -C /repo apply` + check + `git checkout -- .` (use --inplace for exactly that)."""
    wt = "/tmp/seedrun-%d" % os.getpid()
    sh("git -C /repo worktree remove --force %s" % wt)
    rc, out = sh("git -C /repo worktree add -q --detach %s HEAD" % wt)
    if rc:
        raise SystemExit(out)
    results = {}
    try:
        rc, out = sh("git apply %s" % os.path.join(d, "patch.diff"), cwd=wt)
        if rc:
            raise SystemExit("patch does not apply: " + out)
        env = dict(ENV, VERIF_REPO=wt)
        for p in props:
            pr = subprocess.run("./check %s --tier %s --seed %s" % (p, tier, seed), cwd="/verif", shell=True, capture_output=True, text=True, env=env, timeout=7200)
            out = pr.stdout + pr.stderr
            viol = [l for l in out.splitlines() if l.startswith("VIOLATION")]
            results[p] = {"exit": pr.returncode, "violations": len(viol), "first": (out.split("VIOLATION", 1)[1][:600] if viol else out[-300:])}
            print(p, "exit", pr.returncode, "violations", len(viol))
            print("   ", results[p]["first"].replace("\n", "\n    ")[:700])
    finally:
        sh("git -C /repo worktree remove --force %s" % wt)
        shutil.rmtree(wt, ignore_errors=True)
        import hashlib
        shutil.rmtree("/verif/harness/bin-" + hashlib.sha256(wt.encode()).hexdigest()[:8], ignore_errors=True)
        sh("git -C /verif checkout -- evidence")
    return results


def keep(d, name, extra=None):
    dst = os.path.join("/verif/seeded", name)
    os.makedirs(dst, exist_ok=True)
    for f in ["patch.diff", "demo_test.go", "meta.json"] + [f for f in os.listdir(d) if f.endswith("_test.go") and f != "demo_test.go"]:
        shutil.copyfile(os.path.join(d, f), os.path.join(dst, f))
    if extra:
        m = json.load(open(os.path.join(dst, "meta.json")))
        m.update(extra)
        json.dump(m, open(os.path.join(dst, "meta.json"), "w"), indent=1)
    print("kept", dst)


if __name__ == "__main__":
    a = sys.argv[1:]
    if a[0] == "confirm":
        confirm(a[1])
    elif a[0] == "check":
        tier, seed = "quick", "1"
        props = []
        it = iter(a[2:])
        for x in it:
            if x == "--tier":
                tier = next(it)
            elif x == "--seed":
                seed = next(it)
            else:
                props.append(x)
        check(a[1], props, tier, seed)
    elif a[0] == "keep":
        keep(a[1], a[2])
