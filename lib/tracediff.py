"""Compact view of a TLC counterexample whose single variable `st` is a record: per state, only
the top-level fields that changed (used when developing specs and in violation reports)."""
import re
import sys


def split_states(out):
    parts = re.split(r"\nState (\d+): [^\n]*\n", out)
    states = []
    for i in range(1, len(parts), 2):
        body = parts[i + 1]
        body = body.split("\n\n")[0]
        states.append((int(parts[i]), body))
    return states


def fields(body):
    # top-level fields of `st = [ a |-> ..., b |-> ... ]` are the ones at bracket depth 1
    body = body.strip()
    m = re.match(r"st = \[(.*)\]\s*$", body, re.S)
    if not m:
        return {"?": body}
    s = m.group(1)
    out, depth, cur = [], 0, ""
    i = 0
    while i < len(s):
        c = s[i]
        if c in "[{(":
            depth += 1
        elif c in "]})":
            depth -= 1
        elif s.startswith("<<", i):
            depth += 1
            cur += "<<"
            i += 2
            continue
        elif s.startswith(">>", i):
            depth -= 1
            cur += ">>"
            i += 2
            continue
        if c == "," and depth == 0:
            out.append(cur)
            cur = ""
        else:
            cur += c
        i += 1
    out.append(cur)
    d = {}
    for f in out:
        if "|->" in f:
            k, v = f.split("|->", 1)
            d[k.strip()] = re.sub(r"\s+", " ", v.strip())
    return d


def show(out, keys=None):
    prev = {}
    lines = []
    for n, body in split_states(out):
        f = fields(body)
        ch = {k: v for k, v in f.items() if prev.get(k) != v and (keys is None or k in keys)}
        lines.append("State %d: " % n + "; ".join("%s=%s" % kv for kv in ch.items()))
        prev = f
    return "\n".join(lines)


if __name__ == "__main__":
    print(show(sys.stdin.read()))
