"""Shared machinery for the /verif checks: TLC/Apalache runners, harness build, evidence,
known findings, verdict and exit-code rules (DESIGN.md section 6)."""
import hashlib
import json
import os
import re
import shutil
import subprocess
import sys
import tempfile
import time

ROOT = os.path.dirname(os.path.dirname(os.path.abspath(__file__)))
SPEC = os.path.join(ROOT, "spec")
HARNESS = os.path.join(ROOT, "harness")
EVID = os.path.join(ROOT, "evidence")
REPLAYS = os.path.join(ROOT, "replays")
# The checks always run against /repo. VERIF_REPO exists only so that the machinery itself can be
# tried against a scratch copy of the repository (mutation smoke tests) without touching /repo.
REPO = os.environ.get("VERIF_REPO", "/repo")
BIN = os.path.join(HARNESS, "bin" if REPO == "/repo" else "bin-" + hashlib.sha256(REPO.encode()).hexdigest()[:8])
NCPU = os.cpu_count() or 4


class ToolError(Exception):
    """The machinery could not decide (exit 2): build failure, TLC error, timeout, dead driver."""


def goenv():
    e = dict(os.environ)
    e.update(GOFLAGS="-mod=mod", GOPROXY="off", GOSUMDB="off", GOTOOLCHAIN="local")
    e.setdefault("GOCACHE", os.path.expanduser("~/.cache/go-build"))
    return e


_built = set()


def build_harness(cmds=None, race=False, tags="verif"):
    """(Re)build harness binaries against /repo's current working tree. Go's build cache makes
    this a no-op when nothing changed and picks up any edit to /repo otherwise."""
    os.makedirs(BIN, exist_ok=True)
    shutil.copyfile(os.path.join(REPO, "go.sum"), os.path.join(HARNESS, "go.sum"))
    modflag = []
    if REPO != "/repo":
        with open(os.path.join(HARNESS, "go.mod")) as fh:
            gm = fh.read().replace("=> /repo", "=> " + REPO)
        with open(os.path.join(BIN, "go.mod"), "w") as fh:
            fh.write(gm)
        shutil.copyfile(os.path.join(REPO, "go.sum"), os.path.join(BIN, "go.sum"))
        modflag = ["-modfile=" + os.path.join(BIN, "go.mod")]
    if cmds is None:
        cmds = sorted(d for d in os.listdir(os.path.join(HARNESS, "cmd"))
                      if os.path.isdir(os.path.join(HARNESS, "cmd", d)))
    for c in cmds:
        key = (c, race)
        if key in _built:
            continue
        out = os.path.join(BIN, c + ("-race" if race else ""))
        args = ["go", "build"] + modflag + ["-tags", tags, "-o", out]
        if race:
            args.append("-race")
        args.append("./cmd/" + c)
        p = subprocess.run(args, cwd=HARNESS, env=goenv(), capture_output=True, text=True)
        if p.returncode != 0:
            raise ToolError("harness build failed (%s):\n%s" % (c, (p.stdout + p.stderr)[-4000:]))
        _built.add(key)
    return BIN


class Scratch:
    """A scratch directory outside /repo and /verif, removed on exit."""

    def __init__(self, prefix="verif-"):
        self.prefix = prefix

    def __enter__(self):
        self.dir = tempfile.mkdtemp(prefix=self.prefix)
        return self.dir

    def __exit__(self, *a):
        shutil.rmtree(self.dir, ignore_errors=True)


class TLCResult:
    def __init__(self, rc, out):
        self.rc = rc
        self.out = out
        self.generated = 0
        self.distinct = 0
        self.depth = 0
        m = re.findall(r"(\d+) states generated, (\d+) distinct states found", out)
        if m:
            self.generated, self.distinct = int(m[-1][0]), int(m[-1][1])
        m = re.search(r"The depth of the complete state graph search is (\d+)", out)
        if m:
            self.depth = int(m.group(1))
        self.violated = re.findall(r"Invariant (\S+) is violated", out) + \
            re.findall(r"Action property (\S+) is violated", out) + \
            re.findall(r"Temporal properties were violated", out)
        self.deadlock = "Deadlock reached" in out
        self.error = None
        if rc != 0 and not self.violated and not self.deadlock:
            m = re.search(r"Error: (.*)", out)
            self.error = m.group(1) if m else "tlc exit %d" % rc
        self.ok = rc == 0

    def coverage(self):
        """Per-action counts from -coverage output: {action: (distinct, generated)}."""
        cov = {}
        for m in re.finditer(r"<(\w+) line \d+, col \d+ to line \d+, col \d+ of module (\w+)>: (\d+):(\d+)", self.out):
            cov[m.group(1)] = (int(m.group(3)), int(m.group(4)))
        return cov


def run_tlc(module, cfg, workdir, workers=None, simulate=None, depth=None, seed=None, timeout=1800,
            extra=None, deadlock=True, coverage=False, heap=None, dfs_queue=False, files=None):
    """Run TLC on spec/<module>.tla with spec/<cfg> inside workdir (a scratch copy)."""
    for f in os.listdir(SPEC):
        if f.endswith(".tla") or f.endswith(".cfg"):
            shutil.copyfile(os.path.join(SPEC, f), os.path.join(workdir, f))
    for name, content in (files or {}).items():
        with open(os.path.join(workdir, name), "w") as fh:
            fh.write(content)
    meta = tempfile.mkdtemp(prefix="meta-", dir=workdir)
    args = ["tlc", "-metadir", meta, "-config", cfg]
    args += ["-workers", str(workers or NCPU)]
    if simulate:
        args += ["-simulate", simulate]
    if depth:
        args += ["-depth", str(depth)]
    if seed is not None:
        args += ["-seed", str(seed)]
    if not deadlock:
        args += ["-deadlock"]
    if coverage:
        args += ["-coverage", "1"]
    args += list(extra or [])
    args.append(module)
    env = dict(os.environ)
    jto = env.get("JAVA_TOOL_OPTIONS", "")
    if dfs_queue:
        jto += " -Dtlc2.tool.queue.IStateQueue=StateDeque"
    jto += " -Xss512m"
    # TLC / SANY unpack their standard modules into java.io.tmpdir and leave them behind: keep that inside the scratch dir
    jtmp = os.path.join(workdir, "jtmp")
    os.makedirs(jtmp, exist_ok=True)
    jto += " -Djava.io.tmpdir=" + jtmp
    if heap:
        jto += " -Xmx" + heap
    env["JAVA_TOOL_OPTIONS"] = jto.strip()
    try:
        p = subprocess.run(args, cwd=workdir, env=env, capture_output=True, text=True, timeout=timeout)
    except subprocess.TimeoutExpired as e:
        out = (e.stdout or b"")
        if isinstance(out, bytes):
            out = out.decode(errors="replace")
        if simulate:  # simulation under an outer timeout is the normal way to stop it
            return TLCResult(0, out)
        raise ToolError("TLC timed out after %ds on %s/%s" % (timeout, module, cfg))
    finally:
        shutil.rmtree(meta, ignore_errors=True)
    return TLCResult(p.returncode, p.stdout + p.stderr)


def require_tlc_ok(res, what):
    """Spec-side run must pass; a spec-level counterexample is a machinery problem (exit 2),
    never a verdict about the code."""
    if res.error:
        raise ToolError("%s: TLC error: %s\n%s" % (what, res.error, res.out[-3000:]))
    if res.violated or res.deadlock:
        raise ToolError("%s: the specification itself violates %s (specification bug, not a verdict)\n%s"
                        % (what, res.violated or "deadlock-freedom", res.out[-3000:]))


def sany(modules):
    with Scratch() as d:
        for f in os.listdir(SPEC):
            if f.endswith(".tla"):
                shutil.copyfile(os.path.join(SPEC, f), os.path.join(d, f))
        env = dict(os.environ)
        os.makedirs(os.path.join(d, "jtmp"), exist_ok=True)
        env["JAVA_TOOL_OPTIONS"] = (env.get("JAVA_TOOL_OPTIONS", "") + " -Djava.io.tmpdir=" + os.path.join(d, "jtmp")).strip()
        for m in modules:
            p = subprocess.run(["tla-sany", m + ".tla"], cwd=d, capture_output=True, text=True, timeout=300, env=env)
            if p.returncode != 0 or "error" in (p.stdout + p.stderr).lower().replace("errors: 0", ""):
                if "Semantic errors" in p.stdout or "Parse Error" in p.stdout or p.returncode != 0:
                    raise ToolError("SANY failed on %s:\n%s" % (m, (p.stdout + p.stderr)[-3000:]))


# ------------------------------------------------------------------------------------------------
# known findings


def load_known():
    p = os.path.join(ROOT, "known_findings.json")
    if not os.path.exists(p):
        return []
    with open(p) as fh:
        return json.load(fh).get("findings", [])


def match_known(prop, viol, known):
    """A violation matches an OPEN entry of the same property when every key of the entry's
    matcher equals (or, for strings starting with 're:', regex-matches) the violation's field."""
    for k in known:
        if k.get("property") != prop or k.get("status") != "open":
            continue
        ok = True
        for key, want in k.get("match", {}).items():
            have = viol.get(key)
            if isinstance(want, str) and want.startswith("re:"):
                if have is None or not re.search(want[3:], str(have)):
                    ok = False
            elif have != want:
                ok = False
        if ok and k.get("match"):
            return k
    return None


# ------------------------------------------------------------------------------------------------
# outcome


class Outcome:
    def __init__(self, prop, tier, seed, level="model_checking"):
        self.prop, self.tier, self.seed, self.level = prop, tier, seed, level
        self.t0 = time.time()
        self.cov = {"states": 0, "transitions": 0, "traces_validated_against_impl": 0, "samples": []}
        self.assumptions = []
        self.violations = []  # dicts with at least 'sig' and 'what'
        self.notes = {}

    def add_tlc(self, res, label):
        self.cov["states"] += res.distinct
        self.cov["transitions"] += res.generated
        self.notes.setdefault("tlc_runs", []).append(
            {"label": label, "distinct": res.distinct, "generated": res.generated, "depth": res.depth})

    def sample(self, s, limit=3):
        if len(self.cov["samples"]) < limit:
            self.cov["samples"].append(s)

    def violation(self, sig, what, **details):
        v = {"sig": sig, "what": what}
        v.update(details)
        self.violations.append(v)

    def finish(self):
        known = load_known()
        os.makedirs(EVID, exist_ok=True)
        os.makedirs(REPLAYS, exist_ok=True)
        real, kf_lines, seen = [], [], set()
        for v in self.violations:
            k = match_known(self.prop, v, known)
            if k is not None:
                line = "KNOWN-FINDING: property=%s %s" % (self.prop, k.get("what", k.get("id")))
                if line not in seen:
                    seen.add(line)
                    kf_lines.append(line)
            else:
                real.append(v)
        for line in kf_lines:
            print(line)
        paths = []
        for v in real[:5]:
            h = hashlib.sha256(json.dumps(v, sort_keys=True, default=str).encode()).hexdigest()[:12]
            path = os.path.join(REPLAYS, "%s-%s.json" % (self.prop, h))
            with open(path, "w") as fh:
                json.dump({"property": self.prop, "tier": self.tier, "seed": self.seed, "violation": v}, fh, indent=1, default=str)
            paths.append(path)
            print("VIOLATION property=%s replay=%s" % (self.prop, path))
            print("  " + str(v.get("what"))[:1000])
        cov = dict(self.cov)
        if not cov["samples"]:
            cov["samples"] = ["(no sample recorded)"]
        cov.update(self.notes)
        cov["known_findings_printed"] = kf_lines
        ev = {"property_id": self.prop, "tier": self.tier, "seed": self.seed, "level": self.level,
              "coverage": cov, "assumptions": self.assumptions, "wall_s": round(time.time() - self.t0, 2),
              "violations": len(real)}
        with open(os.path.join(EVID, self.prop + ".json"), "w") as fh:
            json.dump(ev, fh, indent=1, default=str)
        return 1 if real else 0


def run_driver(name, args, stdin=None, timeout=1800, race=False, env_extra=None):
    """Run a harness binary as a child process; its death is never a verdict by itself."""
    exe = os.path.join(BIN, name + ("-race" if race else ""))
    env = goenv()
    env.update(env_extra or {})
    try:
        p = subprocess.run([exe] + list(args), input=stdin, capture_output=True, text=True, timeout=timeout, env=env)
    except subprocess.TimeoutExpired:
        raise ToolError("driver %s timed out after %ds" % (name, timeout))
    return p


def unescape_tla(s):
    return s.replace('\\"', '"').replace("\\\\", "\\")


def parse_div(out):
    """DIV records printed by the trace monitors: PrintT("DIV " \\o ToJson(record)) -> list of dicts
    with keys l, b, div (set), bad (set), note. Strings are printed on one line whatever their length."""
    recs = []
    for ln in out.splitlines():
        if ln.startswith('"DIV ') and ln.endswith('"'):
            r = json.loads(unescape_tla(ln[5:-1]))
            recs.append({"line": int(r["l"]), "beh": int(r["b"]), "div": set(r["div"]), "bad": set(r["bad"]), "note": r.get("note", "")})
    return recs
