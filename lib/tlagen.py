"""Generate TLC model modules (MC_x.tla + MC_x.cfg) from python values, so that one TLA+ source of
truth (spec/*.tla) is checked under many constant bindings chosen per property, tier and seed."""


def tla(v):
    if isinstance(v, bool):
        return "TRUE" if v else "FALSE"
    if isinstance(v, int):
        return str(v)
    if isinstance(v, str):
        return '"%s"' % v
    if isinstance(v, (set, frozenset)):
        return "{" + ", ".join(sorted(tla(x) for x in v)) + "}"
    if isinstance(v, (list, tuple)):
        return "<<" + ", ".join(tla(x) for x in v) + ">>"
    if isinstance(v, dict):
        return "[" + ", ".join("%s |-> %s" % (k, tla(x)) for k, x in v.items()) + "]"
    raise TypeError(type(v))


class FS(frozenset):
    """hashable set literal for nested sets of records"""


def rec(**kw):
    return _Rec(kw)


class _Rec(dict):
    def __hash__(self):
        return hash(tuple(sorted(self.items())))


def model(name, base, consts, invariants=(), spec="Spec", constraints=(), action_constraints=(),
          view=None, extra="", properties=(), postcondition=None, deadlock=False, extends=()):
    """Returns {filename: content} for a module `name` EXTENDS base (+ extends) binding every constant."""
    lines = ["---- MODULE %s ----" % name, "EXTENDS " + ", ".join([base] + list(extends))]
    cfg = ["SPECIFICATION " + spec, "CONSTANTS"]
    for k, v in consts.items():
        lines.append("c_%s == %s" % (k, tla(v)))
        cfg.append("  %s <- c_%s" % (k, k))
    if extra:
        lines.append(extra)
    lines.append("====")
    if invariants:
        cfg.append("INVARIANTS " + " ".join(invariants))
    if properties:
        cfg.append("PROPERTIES " + " ".join(properties))
    for c in constraints:
        cfg.append("CONSTRAINT " + c)
    for c in action_constraints:
        cfg.append("ACTION_CONSTRAINT " + c)
    if view:
        cfg.append("VIEW " + view)
    if postcondition:
        cfg.append("POSTCONDITION " + postcondition)
    cfg.append("CHECK_DEADLOCK " + ("TRUE" if deadlock else "FALSE"))
    return {name + ".tla": "\n".join(lines) + "\n", name + ".cfg": "\n".join(cfg) + "\n"}
