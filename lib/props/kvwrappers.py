"""C16 - store wrappers are transparent: prefix isolation, exact gas, faithful trace.

Technique (DESIGN.md 4.5, 5, 7/C16): model-based verification with an explicit TLA+ specification.
  spec/KVWrappers.tla        prefix / gaskv (+ gas meter) / tracekv / cachekv stacked over a MemDB,
                             every wrapper method transcribed layer by layer; the clauses of C16 are
                             invariants / action properties stated in closed form next to it
  spec/Trace_KVWrappers.tla  trace validation of seeded random programs (richer stacks, gas limits
                             in a window around every cumulative cost, totals near 2^64)
Binding: simulated behaviours of the specification are replayed by harness/cmd/kvdrv (wrap) on the
real prefix.Store / gaskv.Store / tracekv.Store / cachekv.Store stacks over dbadapter.Store{MemDB};
result, GasConsumed, panic kind and position, decoded trace lines and the whole base content are
compared after every operation with what TLC computed.  Python only orchestrates and compares.
"""
import json
import os
import random
import re

import common
from props.cachekv import tlc_json_lines, WORKERS, go_coverage

NEEDS = {"cmds": ["kvdrv"], "specs": ["KVWrappers", "Trace_KVWrappers"]}


def stack_name(stack):
    if not stack:
        return "mem"
    return "/".join(l["t"] + ("(%s%s)" % ("".join("%02x" % b for b in l["p"]), "+cap" if l.get("cap") else "") if l["t"] == "prefix" else "")
                    for l in stack) + "/mem"


def has(stack, t):
    return any(l["t"] == t for l in stack)


def with_caps(stack, cap):
    """driver-only attribute of prefix layers: spare capacity of the []byte handed to prefix.NewStore"""
    return [dict(l, cap=cap) if l["t"] == "prefix" else dict(l) for l in stack]


def program_from_hist(h, pid, cap=0):
    ops, exp = [], []
    for e in h["hist"]:
        if e["a"]["op"] == "End":
            break
        ops.append(e["a"])
        exp.append({"r": e["o"]["r"], "gas": e["o"]["gas"], "pan": e["o"]["pan"], "tr": e["o"]["tr"], "b": e["b"]})
    return {"id": pid, "stack": with_caps(h["stack"], cap), "meter": h["meter"], "init": h["init"], "ops": ops, "exp": exp,
            "gx": h["gx"], "tx": h["tx"]}


PROGRAM_FILES = []


def run_driver_programs(progs, d, label):
    path = os.path.join(d, "wrap-%s.ndjson" % label)
    PROGRAM_FILES.append(["wrap", path])
    with open(path, "w") as fh:
        for p in progs:
            fh.write(json.dumps({k: p[k] for k in ("id", "stack", "meter", "init", "ops")}) + "\n")
    pr = common.run_driver("kvdrv", ["wrap", path], timeout=1200)
    if pr.returncode != 0:
        raise common.ToolError("kvdrv wrap failed (rc %d): %s" % (pr.returncode, pr.stderr[-2000:]))
    lines = [json.loads(x) for x in pr.stdout.splitlines() if x.strip()]
    if len(lines) != len(progs) or any(a["id"] != b["id"] for a, b in zip(lines, progs)):
        raise common.ToolError("kvdrv wrap returned %d results for %d programs" % (len(lines), len(progs)))
    return lines


def report(out, p, i, field, want, got, source):
    """one violation of C16: the real wrappers differ from the specification in something the property fixes"""
    op = p["ops"][i]
    sname = stack_name(p["stack"])
    what = {"r": "result", "b": "base content", "gas": "GasConsumed", "pan": "panic kind/position", "tr": "trace lines"}[field]
    clause = {"r": "transparent-result", "b": "isolation-or-write-effect", "gas": "gas-exact", "pan": "gas-panic", "tr": "trace-faithful"}[field]
    out.violation(sig="wrap-%s-%s" % (clause, op["op"]),
                  what="%s of %s on stack %s (meter %s): real code %s, the specification requires %s [%s %s step %d]"
                       % (what, json.dumps(op), sname, json.dumps(p["meter"]), json.dumps(got)[:600], json.dumps(want)[:600],
                          source, p["id"], i),
                  kind="wrap", clause=clause, op=op["op"], stack=sname, field=field, expected=want, observed=got, step=i,
                  has_prefix=has(p["stack"], "prefix"), has_gas=has(p["stack"], "gas"), has_trace=has(p["stack"], "trace"),
                  has_cache=has(p["stack"], "cache"),
                  program={k: (p[k][:i + 1] if k == "ops" else p[k]) for k in ("id", "stack", "meter", "init", "ops")})


def compare(out, p, obs, source):
    """compare the observations of one program with the specification's; returns the number of operations compared"""
    n = 0
    for i, (want, got) in enumerate(zip(p["exp"], obs)):
        n += 1
        if p["ops"][i]["op"] == "CacheWrap":
            # which wrappers refuse CacheWrap() (gaskv, tracekv panic) is transcribed in the specification but is not
            # part of C16's statement: a difference is recorded, never a violation
            if want["pan"] != got["pan"]:
                out.notes.setdefault("nonconformance_cachewrap", []).append(
                    {"program": p["id"], "stack": stack_name(p["stack"]), "expected": want["pan"], "observed": got["pan"]})
                return n
            continue
        if isinstance(got.get("pan"), str) and got["pan"].startswith("other:") and want["pan"] == "":
            report(out, p, i, "pan", want["pan"], got["pan"], source)
            return n
        if want["pan"] != got["pan"]:
            report(out, p, i, "pan", want["pan"], got["pan"], source)
            return n
        panicked = want["pan"] not in ("", "refused")
        if want["r"] != got["r"]:
            report(out, p, i, "r", want["r"], got["r"], source)
            return n
        for field, gotf, enabled in (("b", got["b"], True), ("gas", got["gas"], has(p["stack"], "gas") and p["gx"]),
                                     ("tr", got["tr"], p["tx"] or not has(p["stack"], "trace"))):
            if not enabled or want[field] == gotf:
                continue
            if field == "gas" and want["pan"] == "GasOverflow":
                continue   # after an overflow the meter holds no meaningful total (the driver reports -1)
            if panicked and field in ("tr", "gas"):
                # the meter value and the trace lines a panicking operation leaves behind are transcribed in the
                # specification but not fixed by the property text: recorded, not a violation.  The CONTENT of the
                # stores is different: an operation that runs out of gas must not have taken effect (field "b").
                out.notes.setdefault("nonconformance_after_panic", [])
                if len(out.notes["nonconformance_after_panic"]) < 5:
                    out.notes["nonconformance_after_panic"].append(
                        {"program": p["id"], "step": i, "field": field, "expected": want[field], "observed": gotf})
                continue
            report(out, p, i, field, want[field], gotf, source)
            return n
    if len(obs) != len(p["exp"]):
        i = min(len(obs), len(p["exp"]))
        raise common.ToolError("program %s: driver produced %d observations, specification %d" % (p["id"], len(obs), len(p["exp"])))
    return n


# ------------------------------------------------------------------------------------------------
# code -> spec: random programs, limits around the cumulative costs, validated by TLC

USER_KEYS = [[], [0], [255], [0, 0], [255, 255], [1], [7, 7]]
VALS = [[], [98, 98], [99], [120] * 5]
PREFIXES = [[1], [255], [255, 255], [1, 255], [], [0], [254, 255, 255], [47], [112, 111, 115, 47]]


def rand_stack(rng):
    kinds = rng.choice([["prefix"], ["gas"], ["trace"], ["prefix", "gas"], ["prefix", "trace"], ["gas", "trace"],
                        ["prefix", "gas", "trace"], ["prefix", "gas", "cache"], ["prefix", "gas", "trace", "cache"],
                        ["prefix", "prefix"], ["prefix", "prefix", "gas"], ["cache", "prefix"], ["cache"], []])
    kinds = list(kinds)
    rng.shuffle(kinds)
    # keep the meter and the trace observable: a cache never above gas/trace in the random programs
    if "cache" in kinds:
        kinds = [k for k in kinds if k != "cache"]
        lowest_obs = max([i for i, k in enumerate(kinds) if k in ("gas", "trace")] + [-1])
        kinds.insert(rng.randint(lowest_obs + 1, len(kinds)), "cache")
    return [{"t": k, "p": rng.choice(PREFIXES) if k == "prefix" else [], "cap": rng.choice([0, 1, 8]) if k == "prefix" else 0} for k in kinds]


def rand_ops(rng, stack, n, keys):
    ops = []
    opened = False
    bounds = keys + [[0, 1], [254], [255, 0]]

    def bnd():
        return [] if rng.random() < 0.35 else [rng.choice(bounds)]
    while len(ops) < n:
        c = rng.choice(["get", "has", "set", "set", "del", "all", "all", "open", "read", "read", "next", "next", "close", "flush", "wrap"])
        e = {"op": "", "k": [], "v": [], "st": [], "en": [], "asc": True}
        if c == "get":
            e.update(op="Get", k=rng.choice(keys))
        elif c == "has":
            e.update(op="Has", k=rng.choice(keys))
        elif c == "set":
            e.update(op="Set", k=rng.choice(keys), v=rng.choice(VALS))
            opened = False
        elif c == "del":
            e.update(op="Delete", k=rng.choice(keys))
            opened = False
        elif c == "all" and not opened:
            e.update(op="IterAll", st=bnd(), en=bnd(), asc=rng.random() < 0.5)
        elif c == "open" and not opened:
            e.update(op="IterOpen", st=bnd(), en=bnd(), asc=rng.random() < 0.5)
            opened = True
        elif c == "read" and opened:
            e.update(op="IterRead")
        elif c == "next" and opened:
            e.update(op="IterNextIfValid")
        elif c == "close" and opened:
            e.update(op="IterClose")
            opened = False
        elif c == "flush" and has(stack, "cache"):
            e.update(op="Flush")
            opened = False
        elif c == "wrap" and rng.random() < 0.3:
            e.update(op="CacheWrap")
        else:
            continue
        ops.append(e)
    return ops


KEYCAP = int(os.environ.get("VERIF_KEYCAP", "60"))


def validate_random(out, d, seed, n_prog, n_ops, n_variants):
    rng = random.Random(seed * 104729 + 7)
    base_progs = []
    for i in range(n_prog):
        stack = rand_stack(rng)
        keys = rng.sample(USER_KEYS, 4)
        full = []
        for l in reversed(stack):
            full = full + (l["p"] if l["t"] == "prefix" else [])
        # the base holds the caller's keys under the full prefix plus decoys around the prefix range
        init = []
        for k in keys:
            if rng.random() < 0.6:
                init.append([full + k, rng.choice(VALS)])
        decoys = [[0], [1], [2], [254, 255], [255], [255, 254], [255, 255], full[:-1], full[:-1] + [max(full[-1] - 1, 0), 255] if full else [9],
                  (full[:-1] + [full[-1] + 1]) if full and full[-1] < 255 else [3], full + [255, 255, 255]]
        seen = {tuple(kv[0]) for kv in init}
        for dk in decoys:
            if tuple(dk) not in seen and rng.random() < 0.8:
                seen.add(tuple(dk))
                init.append([dk, [122]])
        init.sort()
        base_progs.append({"id": "w%d" % i, "stack": stack, "meter": {"kind": "inf", "lim": -1, "room": -1}, "init": init,
                           "ops": rand_ops(rng, stack, n_ops, keys), "keys": keys})
    # first run with an infinite meter: where are the cumulative costs?  (input selection only)
    obs0 = run_driver_programs(base_progs, d, "rand0")
    progs = list(base_progs)
    for p, r in zip(base_progs, obs0):
        if not has(p["stack"], "gas"):
            continue
        cums = sorted({o["gas"] for o in r["obs"]})
        for v in range(n_variants):
            g = rng.choice(cums) if cums else 0
            delta = rng.choice([-1, 0, 1, -3, 3, 29, 30, 31, 999, 1000, 1001, 1999, 2000, 2001, 2029, 2030, -30, -1000])
            x = max(0, g + delta)
            kind = rng.choice(["lim", "lim", "lim", "room-inf", "room-basic", "both"])
            if kind == "lim":
                meter = {"kind": "basic", "lim": x, "room": -1}
            elif kind == "room-inf":
                meter = {"kind": "inf", "lim": -1, "room": x}
            elif kind == "room-basic":
                meter = {"kind": "basic", "lim": -1, "room": x}
            else:
                meter = {"kind": "basic", "lim": x, "room": x + rng.choice([0, 1, 5, 1000, 2030])}
            q = dict(p)
            q["id"] = "%s.%d" % (p["id"], v)
            q["meter"] = meter
            progs.append(q)
    obs = run_driver_programs(progs, d, "rand1")
    # the ndjson trace: header, then per program a Reset event and one event per executed operation.
    # Validated in batches: the key universe of a TLC run is the union over its programs, and every map of the
    # specification ranges over it, so small batches keep the cost per event low.
    def nocap(stack):
        return [{"t": l["t"], "p": l["p"]} for l in stack]
    pairs = list(zip(progs, obs))
    n_events = 0
    seen = set()
    # every map of the specification ranges over the union of the batch's keys and the cost per event grows
    # faster than linearly with it: a batch is closed when its key universe reaches KEYCAP (or 40 programs)
    batches, cur, curkeys = [], [], set()
    for p, r in pairs:
        pk = {tuple(kv[0]) for kv in p["init"]} | {tuple(sum([l["p"] for l in reversed(p["stack"]) if l["t"] == "prefix"], []) + list(k)) for k in p["keys"]}
        if cur and (len(curkeys | pk) > KEYCAP or len(cur) >= 40):
            batches.append(cur)
            cur, curkeys = [], set()
        cur.append((p, r))
        curkeys |= pk
    if cur:
        batches.append(cur)
    out.notes["trace_validation_batches"] = len(batches)
    for batch in batches:
        stacks, events, index = [], [], []
        for p, r in batch:
            if nocap(p["stack"]) not in stacks:
                stacks.append(nocap(p["stack"]))
        allkeys = sorted({tuple(k) for p, r in batch for k in p["keys"]})
        basekeys = sorted({tuple(kv[0]) for p, r in batch for kv in p["init"]} |
                          {tuple(sum([l["p"] for l in reversed(p["stack"]) if l["t"] == "prefix"], []) + list(k))
                           for p, r in batch for k in p["keys"]})
        events.append({"op": "Header", "stacks": stacks, "userkeys": [list(k) for k in allkeys], "basekeys": [list(k) for k in basekeys]})
        index.append(None)
        for p, r in batch:
            events.append({"op": "Reset", "k": [], "v": [], "st": [], "en": [], "asc": True, "stack": nocap(p["stack"]), "meter": p["meter"],
                           "init": p["init"], "o": {"r": "ok", "gas": 0, "pan": "", "tr": []}, "b": p["init"]})
            index.append((p, -1))
            for j, o in enumerate(r["obs"]):
                e = dict(p["ops"][j])
                e.update(stack=[], meter=p["meter"], init=[], o={"r": o["r"], "gas": o["gas"], "pan": o["pan"], "tr": o["tr"]}, b=o["b"])
                events.append(e)
                index.append((p, j))
        trace = "\n".join(json.dumps(e) for e in events) + "\n"
        res = common.run_tlc("Trace_KVWrappers", "Trace_KVWrappers.cfg", d, workers=1, timeout=900,
                             files={"wtrace.ndjson": trace}, deadlock=False)
        if res.error:
            raise common.ToolError("trace validation: TLC error: %s\n%s" % (res.error, res.out[-2500:]))
        done = re.findall(r'<<"DONE", (\d+)>>', res.out)
        stuck = re.findall(r'<<"STUCK", (\d+)', res.out)
        if stuck or not done or int(done[-1]) != len(events):
            raise common.ToolError("trace validation did not consume the trace: stuck=%s done=%s of %d\n%s"
                                   % (stuck[:3], done[-1:], len(events), res.out[-1500:]))
        n_events += len(events)
        out.cov["states"] += res.distinct
        out.cov["transitions"] += res.generated
        for m in re.finditer(r'<<"MISMATCH", (\d+), "(\w+)", "((?:[^"\\]|\\.)*)", "((?:[^"\\]|\\.)*)">>', res.out):
            line, field = int(m.group(1)), m.group(2)
            p, j = index[line - 1]
            want = json.loads(json.loads('"%s"' % m.group(3)))
            got = json.loads(json.loads('"%s"' % m.group(4)))
            if p["id"] in seen:
                continue
            if p["ops"][j]["op"] == "CacheWrap":
                out.notes.setdefault("nonconformance_cachewrap", []).append(
                    {"program": p["id"], "stack": stack_name(p["stack"]), "field": field, "expected": want, "observed": got})
                continue
            if field.endswith("_after_panic"):
                out.notes.setdefault("nonconformance_after_panic", [])
                if len(out.notes["nonconformance_after_panic"]) < 5:
                    out.notes["nonconformance_after_panic"].append({"program": p["id"], "step": j, "field": field, "expected": want, "observed": got})
                continue
            seen.add(p["id"])
            q = dict(p)
            q["ops"] = [dict(o, op="IterNext") if o["op"] == "IterNextIfValid" else o for o in p["ops"]]
            report(out, q, j, field, want, got, "random program")
    out.notes.setdefault("tlc_runs", []).append(
        {"label": "trace validation of %d random programs (%d with gas limits / overflow rooms around the cumulative costs), "
                  "%d events in %d batches" % (len(progs), len(progs) - len(base_progs), n_events, len(batches)),
         "distinct": n_events, "generated": n_events})
    out.cov["traces_validated_against_impl"] += len(progs)
    out.notes["random_trace_validation"] = {"programs": len(progs), "base_programs": len(base_progs), "ops_each": n_ops,
                                            "stacks": sorted({stack_name(p["stack"]) for p in progs})}


SIZES = {
    "quick": dict(cfgs=["MC_KVWrappers_q.cfg", "MC_KVWrappers_qgas.cfg"], sim_num=120, sim_depth=25,
                  rand_prog=60, rand_ops=25, rand_var=3),
    "thorough": dict(cfgs=["MC_KVWrappers_prefix.cfg", "MC_KVWrappers_prefixit.cfg", "MC_KVWrappers_gas.cfg", "MC_KVWrappers_mixed.cfg"],
                     sim_num=600, sim_depth=30, rand_prog=400, rand_ops=30, rand_var=3),
}


def sim_cfg(depth):
    with open(os.path.join(common.SPEC, "MC_KVWrappers_sim.cfg")) as fh:
        return re.sub(r"HistLen = \d+", "HistLen = %d" % depth, fh.read())


def run(prop, tier, seed):
    out = common.Outcome(prop, tier, seed)
    sz = SIZES[tier]
    common.build_harness(["kvdrv"])
    with common.Scratch() as d:
        # 1. TLC: the layer-by-layer transcription satisfies the closed-form clauses of C16
        for cfg in sz["cfgs"]:
            res = common.run_tlc("KVWrappers", cfg, d, workers=WORKERS, timeout=2400, deadlock=False)
            common.require_tlc_ok(res, "KVWrappers " + cfg)
            out.add_tlc(res, "KVWrappers invariants (isolation, gas exact, trace faithful, transparency), exhaustive, " + cfg)
        # 2. spec -> code: simulated behaviours over every stack and meter, replayed on the real wrappers
        res = common.run_tlc("KVWrappers", "MC_KVWrappers_sim.cfg", d, simulate="num=%d" % sz["sim_num"], depth=sz["sim_depth"] + 1,
                             seed=seed, workers=WORKERS, timeout=1500, deadlock=False,
                             files={"MC_KVWrappers_sim.cfg": sim_cfg(sz["sim_depth"])})
        common.require_tlc_ok(res, "KVWrappers simulation")
        hists = tlc_json_lines(res.out, "HIST")
        m = re.search(r"The number of states generated: (\d+)", res.out)
        res.distinct, res.generated = 0, int(m.group(1)) if m else 0
        byprefix = {}
        for h in hists:
            byprefix.setdefault(json.dumps([h["stack"], h["meter"], h["init"], h["hist"][:-1]], sort_keys=True), []).append(h)
        progs = []
        for k in sorted(byprefix):
            for h in byprefix[k][:2]:
                progs.append(program_from_hist(h, "sim%d" % len(progs), cap=0))
                if has(h["stack"], "prefix"):
                    progs.append(program_from_hist(h, "sim%d+cap" % (len(progs) - 1), cap=8))
        out.add_tlc(res, "KVWrappers simulation, %d behaviours" % len(byprefix))
        if not progs:
            raise common.ToolError("simulation produced no behaviours")
        lines = run_driver_programs(progs, d, "sim")
        nops = 0
        for p, r in zip(progs, lines):
            nops += compare(out, p, r["obs"], "simulated behaviour")
        out.cov["traces_validated_against_impl"] += len(progs)
        if out.violations:
            return out        # a violation is a verdict; later stages could only add to it
        stacks = {}
        pans = {}
        opsc = {}
        for p in progs:
            stacks[stack_name(p["stack"])] = stacks.get(stack_name(p["stack"]), 0) + 1
            for o, e in zip(p["ops"], p["exp"]):
                opsc[o["op"]] = opsc.get(o["op"], 0) + 1
                if e["pan"]:
                    pans[e["pan"]] = pans.get(e["pan"], 0) + 1
        out.notes["replayed"] = {"programs": len(progs), "operations": nops, "per_stack": stacks, "operations_by_kind": opsc,
                                 "spec_predicted_panics": pans}
        need = {"OutOfGas", "GasOverflow", "refused"}
        if need - set(pans):
            raise common.ToolError("vacuity: the simulated behaviours contain no %s" % sorted(need - set(pans)))
        out.sample({"program": progs[0]["id"], "stack": stack_name(progs[0]["stack"]), "meter": progs[0]["meter"],
                    "first_ops": progs[0]["ops"][:4], "expected": [{k: e[k] for k in ("r", "gas", "pan", "tr")} for e in progs[0]["exp"][:4]]})
        # 3. code -> spec: random programs, richer keys/prefixes, limits around every cumulative cost
        validate_random(out, d, seed, sz["rand_prog"], sz["rand_ops"], sz["rand_var"])
        if not out.violations and (tier == "thorough" or os.environ.get("VERIF_GOCOVER")):
            out.notes["go_statement_coverage"] = go_coverage(
                d, [f for f in PROGRAM_FILES if os.path.exists(f[1])],
                {"store/prefix/store.go", "store/gaskv/store.go", "store/tracekv/store.go", "store/types/gas.go", "store/types/utils.go"})
    out.assumptions += [
        "the documented gas function is the one of gaskv's doc comments: an iterator charges the current value's bytes + the flat "
        "step cost at creation (if valid) and at every Next while valid; Key/Value/Valid/Close are free",
        "the operations the trace records are tracekv's five kinds (write, read, delete, iterKey, iterValue); Has, iterator "
        "creation, Valid, Next and Close write no line",
        "gas/trace layers BELOW a cache layer see the cache's memoised reads and merge-iterator internals: only results, panics "
        "and base content are compared for those stacks",
        "the meter value and the trace lines a panicking operation leaves behind are recorded as nonconformance, not as a "
        "violation; the store content is compared also after a panic: an operation that runs out of gas must not have taken effect",
        "ReadCostPerByte*len(value) cannot overflow uint64 with in-memory values; only the running total is driven to 2^64",
    ]
    return out


def replay(prop, path):
    with open(path) as fh:
        v = json.load(fh)["violation"]
    common.build_harness(["kvdrv"])
    p = v["program"]
    with common.Scratch() as d:
        r = run_driver_programs([p], d, "replay")[0]
    i = v["step"]
    got = r["obs"][i].get(v["field"]) if i < len(r["obs"]) else None
    print("stack %s, meter %s, step %d: %s" % (v["stack"], json.dumps(p["meter"]), i, json.dumps(p["ops"][i])))
    print("  %s required by the specification: %s" % (v["field"], json.dumps(v["expected"])))
    print("  %s from the real code           : %s" % (v["field"], json.dumps(got)))
    return 1 if got != v["expected"] else 0
