"""C03: spec/AnteAuth.tla (decision table of the ante handler) bound to the real ante handler:
TLC enumerates the table and checks `Accepts => Authorised /\ fee /\ no replay` on the design;
harness authdrv instantiates every enumerated case with real keys/signatures/mutations through
the real DeliverTx; Trace_AnteAuth validates the recorded decisions and balance movements."""
import json
import os
import random
import re

import common
import tlagen

NEEDS = {"cmds": ["authdrv"], "specs": ["AnteAuth", "Trace_AnteAuth"]}

MSGS = ["stake", "unstake", "unjail", "send", "changeparam", "upgrade", "daotransfer"]
KEYS = ["ed", "secp", "ms2", "msn", "msmax", "msbig"]
MUTS = ["none", "chain", "msg", "fee", "memo", "entropy", "sig"]
CASE = re.compile(r'^<<"CASE", "(.*)">>$')
DIV = re.compile(r'^<<"DIV", (\d+), (\d+), \{(.*?)\}, \{(.*?)\}, "(.*)">>$')


def run(prop, tier, seed):
    out = common.Outcome(prop, tier, seed)
    common.build_harness(["authdrv"])
    rnd = random.Random(seed)
    if tier == "thorough":
        msgs, keys, muts = set(MSGS), set(KEYS), set(MUTS)
    else:
        msgs = set(rnd.sample(MSGS, 1))
        keys = set(KEYS)
        muts = {"none"} | set(rnd.sample(MUTS[1:], 2))
    out.assumptions += ["cryptographic primitives (ed25519, secp256k1) are trusted; they are observed on every generated negative case",
                        "messages are chosen so that their handlers fail: 'fee taken and nothing else changed' identifies a transaction the ante handler accepted",
                        "the tx index is the harness's fake Tendermint RPC (answers 'found' exactly for hashes registered as already committed)"]
    slices = [(msgs, keys, muts)]
    if tier == "thorough":
        # the whole table, one message kind at a time (TLC refuses to build a set of more than 10^6 elements)
        slices = [({m}, set(KEYS), set(MUTS)) for m in MSGS]
    if tier != "thorough":
        # every kind of message in every run, on the fee / balance / multiplier / replay / fee-shape dimensions
        # (plain ed25519 keys, no mutation): prices are looked up per kind of message
        slices.append((set(MSGS), {"ed"}, {"none"}))
    for si, (msgs, keys, muts) in enumerate(slices):
        run_slice(out, tier, seed, msgs, keys, muts, si)
    return out


def run_slice(out, tier, seed, msgs, keys, muts, si):
    consts = dict(Dev=set(), SigLimit=7, MsgSel=msgs, KeySel=keys, MutSel=muts)
    with common.Scratch() as d:
        files = tlagen.model("MCA", "AnteAuth", consts, invariants=["Inv_C03", "EmitCase"])
        res = common.run_tlc("MCA", "MCA.cfg", d, timeout=1500, files=files, workers=4)
        common.require_tlc_ok(res, "AnteAuth table")
        out.add_tlc(res, "decision table msgs=%s muts=%s" % (sorted(msgs), sorted(muts)))
        out.cov["exhaustive"] = tier == "thorough"
        # the deviation switches must make TLC refute the property (the specification is not vacuous)
        for dev in (("NoSignerCheck", "MultisigFeeSkip") if si == 0 else ()):  # (self-checks once per run)
            f2 = tlagen.model("MCD", "AnteAuth", dict(consts, Dev={dev}, MsgSel={"send"}, MutSel={"none"}), invariants=["Inv_C03"])
            r2 = common.run_tlc("MCD", "MCD.cfg", d, timeout=600, files=f2, workers=4)
            if "Inv_C03" not in r2.violated:
                raise common.ToolError("self-check failed: deviation %s does not violate Inv_C03 in the specification" % dev)
        cases = []
        for ln in res.out.splitlines():
            m = CASE.match(ln)
            if m:
                cases.append(json.loads(m.group(1).replace('\\"', '"').replace("\\\\", "\\")))
        if len(cases) != res.distinct:
            raise common.ToolError("printed %d cases but TLC found %d" % (len(cases), res.distinct))
        cp = os.path.join(d, "cases.ndjson")
        with open(cp, "w") as fh:
            for c in cases:
                fh.write(json.dumps(c["case"]) + "\n")
        tr = os.path.join(d, "trace.ndjson")
        p = common.run_driver("authdrv", ["run", cp, tr, str(seed)], timeout=3000)
        if p.returncode != 0:
            raise common.ToolError("authdrv died (rc=%s): %s" % (p.returncode, (p.stderr or p.stdout)[-2000:]))
        lines = [json.loads(x) for x in open(tr)]
        if len(lines) != len(cases):
            raise common.ToolError("authdrv answered %d of %d cases" % (len(lines), len(cases)))
        tc = dict(consts, TraceFile="trace.ndjson")
        files = tlagen.model("TRA", "Trace_AnteAuth", tc, spec="TraceSpec", postcondition="TraceAccepted")
        res2 = common.run_tlc("TRA", "TRA.cfg", d, timeout=3000, files=files, workers=1)
        if res2.error or res2.rc != 0:
            raise common.ToolError("AnteAuth trace validation did not reach the end: %s\n%s" % (res2.error, res2.out[-3000:]))
        out.cov["traces_validated_against_impl"] += len(lines)
        acc = sum(1 for x in lines if x["obs"]["accepted"])
        out.notes["real_accepted"] = out.notes.get("real_accepted", 0) + acc
        out.notes["real_rejected"] = out.notes.get("real_rejected", 0) + len(lines) - acc
        out.notes.setdefault("rejection_codes", {})
        for x in lines:
            if not x["obs"]["accepted"]:
                k = str(x["obs"]["code"])
                out.notes["rejection_codes"][k] = out.notes["rejection_codes"].get(k, 0) + 1
        if si == 0:
            out.sample(next(x for x in lines if x["obs"]["accepted"]))
            out.sample(next(x for x in lines if not x["obs"]["accepted"] and x["case"]["who"] == "other"))
        seen = set()
        spurious = 0
        for dv in common.parse_div(res2.out):
            e = lines[dv["line"] - 1]
            div, bad = dv["div"], dv["bad"]
            for b in sorted(bad):
                k = e["case"]
                key = (b, k["ktype"], k["who"], k["pksrc"], k["mut"], k["feeD"] < 0, k["rp"], k["fx"], k["msg"] if si else "")
                if key in seen:
                    continue
                seen.add(key)
                out.violation(sig=b, what="%s: the real ante handler %s case %s (fee %d, required %d, signer %+d, collector %+d)" % (
                    b, "accepted" if e["obs"]["accepted"] else "rejected", json.dumps(k), e["obs"]["fee"], e["obs"]["required"], e["obs"]["signerDelta"], e["obs"]["feeDelta"]),
                    ktype=k["ktype"], who=k["who"], pksrc=k["pksrc"], mut=k["mut"], underpaid=k["feeD"] < 0, replayed=k["rp"], fee_shape=k["fx"],
                    replay={"case": k, "obs": e["obs"], "seed": seed})
            if "accepts" in div and not e["obs"]["accepted"]:
                spurious += 1  # the code rejects more than the transcription: nonconformance, not a C03 violation
            elif "accepts" in div and not bad:
                # accepted although the transcription rejects, yet every C03 predicate holds: cannot happen
                # (Authorised/fee/replay predicates cover it), reported as nonconformance
                spurious += 1
        out.notes["nonconformance_real_rejects_what_the_transcription_accepts"] = out.notes.get("nonconformance_real_rejects_what_the_transcription_accepts", 0) + spurious


def replay(prop, path):
    with open(path) as fh:
        v = json.load(fh)["violation"]
    common.build_harness(["authdrv"])
    with common.Scratch() as d:
        cp = os.path.join(d, "cases.ndjson")
        with open(cp, "w") as fh:
            fh.write(json.dumps(v["replay"]["case"]) + "\n")
        tr = os.path.join(d, "trace.ndjson")
        common.run_driver("authdrv", ["run", cp, tr, str(v["replay"]["seed"])], timeout=600)
        print(open(tr).read())
    return 0
