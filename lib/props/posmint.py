"""C02, C04-C11 (and the deterministic core of C01): spec/Posmint.tla bound to the real
application (BaseApp + auth + pos + gov wired in harness/app).

Per run:
 1. TLC checks the property's invariants exhaustively on the specification with small constants
    (the intended design, Dev = {}), with coverage of every action;
 2. TLC -simulate on PosmintSim generates action sequences (spec -> code); harness `posdrv run`
    executes each on a fresh REAL application and logs the action, the call's result and the real
    stores projected into the specification's variables after every call;
 3. TLC validates that log with Trace_Posmint (code -> spec): step-wise conformance of every real
    transition with the specification's Step from the real pre-state, the property's state
    predicates on every real state and its action predicates on every real transition.
Verdicts come only from step 3 (real behaviour)."""
import json
import os
import re
import shutil
import time
from decimal import Decimal
from fractions import Fraction

import common
import tlagen

NEEDS = {"cmds": ["posdrv"], "specs": ["Posmint", "PosmintSim", "Trace_Posmint"]}

# deviations of the code from the intended design that are currently OPEN known findings: the
# trace monitor follows the code with these switched on (DESIGN.md 6.3); empty when all repaired
ACTIVE_DEV = {"SimulateWritesRoot"}   # KF-C11-simulate-writes (open): the monitor follows the code

BASE = dict(N=2, PR=2, MinStake=2, MaxVals=1, UnstakeTime=1, Window=2, MinSignedNum=1, MinSignedDen=2,
            JailDur=1, MaxEvAge=1, FracDen=4, FracDS=2, FracDT=1, Fee=1, GenBal=(9, 9), GenVals=set(),
            DaoTokens=3, Dev=set(), Amts={2, 4}, Dts={1}, BurnNums={2}, MaxHeight=3, MaxTx=2, MaxExt=0,
            EvOn=False, MissOn=False, BadTxOn=False, Kinds={"stake", "unstake"}, SendTos={1}, Props={1},
            AwardTos={1}, EvPowers={1}, EvUnknown=False, MaxRO=0, ParamOwner=1, ParamVals={1, 2}, GenExported=False, GenPrev=(-1, -1), MaxExports=0, MaxCrashes=0, SecpUsers=set(), EvHBacks={1}, EvTwo=False)


def cfg(**over):
    c = dict(BASE)
    c.update(over)
    assert c["SecpUsers"] <= {c["N"]}, "only the last user can hold the secp256k1 key"
    if len(c["GenPrev"]) != c["N"]:
        c["GenPrev"] = tuple([-1] * c["N"])
    return c


def gv(*vals):
    """genesis validators: (v, tokens) staked, or (v, tokens, status, jailed, uat)"""
    out = set()
    for x in vals:
        v, t = x[0], x[1]
        status, jailed, uat = (x[2], x[3], x[4]) if len(x) > 2 else (2, False, -1)
        out.add(tlagen.rec(v=v, tokens=t, status=status, jailed=jailed, uat=uat))
    return out


# which spec variables each property makes normative (DESIGN.md 6.2)
NORMATIVE = {
    "C02": {"bal", "supply", "anomalies"},
    "C04": {"bal", "val"},
    "C05": {"lastUpd", "updDup", "pidx"},
    "C06": {"val", "pidx", "uq"},
    "C07": {"val", "bal", "supply", "burnQ"},
    "C08": {"sinfo", "bits"},
    "C09": {"val", "pidx", "sinfo", "lastUpd"},
    "C10": {"bal", "supply", "awardQ", "proposer"},
    "C11": {"bal", "supply", "val", "pidx", "prev", "prevTotal", "uq", "sinfo", "bits", "awardQ", "burnQ", "proposer", "pkrel"},
}
# a divergence in `lastRes` (accept/reject class of a transaction) concerns the property that
# states the rule for that kind of transaction; `halt` the property of the block phase
LASTRES = {"stake": {"C06", "C04"}, "unstake": {"C06"}, "unjail": {"C09"}, "send": {"C02"}}
HALT = {"BeginBlock": {"C07", "C08", "C10", "C09"}, "EndBlock": {"C05", "C06", "C04"}, "InitChain": {"C05"}, "Commit": set(), "Tx": {"C11"}}
# C11 compares everything, but only on transactions the call rejected
INVS = {
    "C02": ["Inv_C02"], "C04": ["Inv_C04"], "C05": ["Inv_C05"], "C06": ["Inv_C06"], "C07": ["Inv_C07", "Inv_C02", "Inv_C04"],
    "C08": ["Inv_C08"], "C09": ["Inv_C09"], "C10": ["Inv_C10", "Inv_C02"], "C11": ["Inv_C02", "Inv_C04"],
}

ALLK = {"stake", "unstake", "unjail", "send"}

# Per property: exhaustive configurations (small) and simulation configurations (richer).
# Every configuration is a complete binding of Posmint.tla's constants.
PROFILES = {
    "C02": {
        "mc": [cfg(Kinds=ALLK, SendTos={2, 4}, Amts={2, 9}, MaxExt=1, AwardTos={1, 4}, BurnNums={1}, Props={0, 1}, MaxHeight=2, BadTxOn=False)],
        # the same with one crash-and-reopen anywhere, and transfers to the fee collector, the (not yet created) pos module
        # account and an outside address
        "mcT": [cfg(Kinds=ALLK, SendTos={2, 4}, Amts={2, 9}, MaxExt=1, AwardTos={1, 4}, BurnNums={1}, Props={0, 1}, MaxHeight=2, BadTxOn=False, MaxCrashes=1),
                cfg(Kinds={"send", "stake"}, SendTos={3, 5, 7, 8}, Amts={2}, MaxExt=1, AwardTos={1, 8}, BurnNums={1}, Props={0, 1}, MaxHeight=3, BadTxOn=False)],
        # (ids with N=3: 4 fee collector, 5 staked pool, 6 pos module account, 7 DAO, 8 any outside address, 9 any address of unusual length)
        "sim": [cfg(N=3, GenBal=(9, 9, 5), GenVals=gv((1, 4)), MaxVals=2, Kinds=ALLK, SendTos={1, 2, 4, 5, 6, 7, 8, 9}, Amts={0, 1, 2, 4, 9}, MaxExt=2,
                    AwardTos={1, 2, 4, 5, 8, 9}, BurnNums={1, 2, 4}, Props={0, 1, 2}, MaxHeight=6, MaxTx=3, EvOn=True, MissOn=True, BadTxOn=True, EvPowers={1, 2, 9}),
                # a node that crashes (losing everything since the last Commit) and is reopened, up to twice
                cfg(N=3, GenBal=(9, 9, 5), GenVals=gv((1, 4)), MaxVals=2, Kinds=ALLK, SendTos={1, 2, 5, 8}, Amts={1, 2, 4}, MaxExt=2,
                    AwardTos={1, 2, 5, 8}, BurnNums={1, 2}, Props={0, 1, 2}, MaxHeight=6, MaxTx=3, EvOn=True, MissOn=True, EvPowers={1, 2}, MaxCrashes=2)],
    },
    "C04": {
        "mc": [cfg(N=2, Kinds={"stake", "unstake", "send"}, SendTos={4}, Amts={2}, MaxExt=1, AwardTos={1}, BurnNums={4}, MaxHeight=3, MaxTx=2, EvOn=True, EvPowers={1})],
        "mcT": [cfg(N=2, Kinds=ALLK, SendTos={4}, Amts={2, 4}, MaxExt=1, AwardTos={1}, BurnNums={1, 4}, MaxHeight=3, MaxTx=2, EvOn=True, EvPowers={1})],
        "sim": [cfg(N=3, GenBal=(9, 9, 9), GenVals=gv((1, 4), (2, 2)), MaxVals=2, UnstakeTime=2, Kinds=ALLK, SendTos={1, 5}, Amts={1, 2, 3, 4}, MaxExt=2,
                    AwardTos={1, 2, 5}, BurnNums={1, 2, 4}, Props={0, 1, 2}, MaxHeight=7, MaxTx=3, EvOn=True, MissOn=True, EvPowers={1, 2, 9}, MaxCrashes=1),
                # export / import restart (the pool is re-funded by InitGenesis from the exported validators)
                cfg(N=3, GenBal=(9, 9, 9), GenVals=gv((1, 4), (2, 4)), MaxVals=3, UnstakeTime=2, Kinds={"stake", "unstake"}, Amts={2}, MaxHeight=5, MaxTx=2, Dts={1}, MaxExports=1,
                    EvOn=True, EvPowers={1}),
                # the same read from an EXPORTED genesis (previous-state powers given)
                cfg(N=3, GenBal=(9, 9, 9), GenVals=gv((1, 4), (2, 4), (3, 2, 1, False, 2)), GenExported=True, GenPrev=(2, 2, -1), MaxVals=3, UnstakeTime=2, Kinds={"stake", "unstake"}, Amts={2},
                    MaxHeight=4, MaxTx=2, Dts={1}),
                # a genesis with unstaking validators (one of them jailed), as an exported chain has
                cfg(N=3, GenBal=(9, 9, 9), GenVals=gv((1, 4), (2, 2, 1, False, 2), (3, 2, 1, True, 1)), MaxVals=3, UnstakeTime=2, Kinds={"stake", "unstake", "unjail"}, Amts={2},
                    MaxHeight=5, MaxTx=2, Dts={1}, EvOn=True, EvPowers={1})],
    },
    "C05": {
        "mc": [cfg(N=3, GenBal=(9, 9, 9), MaxVals=2, Amts={2, 4}, Kinds={"stake", "unstake", "unjail"}, MaxHeight=3, MaxTx=2, MissOn=True, Window=1, MinSignedNum=1, MinSignedDen=1),
               cfg(N=3, GenBal=(9, 9, 9), GenVals=gv((1, 4), (2, 2), (3, 2)), MaxVals=3, Amts={2}, Kinds={"setparam", "unstake", "stake"}, ParamVals={1, 2, 3}, MaxHeight=3, MaxTx=2)],
        "sim": [cfg(N=4, GenBal=(9, 9, 9, 9), GenVals=gv((1, 4), (2, 4), (3, 2)), MaxVals=2, Amts={2, 3, 4, 6}, Kinds={"stake", "unstake", "unjail"}, MaxHeight=8, MaxTx=3,
                    MissOn=True, EvOn=True, EvPowers={1, 2}, MaxExt=1, BurnNums={1, 2}, Props={0, 1, 2}, Dts={0, 1, 2}),
                cfg(N=3, GenBal=(9, 9, 9), GenVals=gv((1, 2), (2, 2), (3, 2)), MaxVals=1, Amts={2, 4}, Kinds={"stake", "unstake", "unjail"}, MaxHeight=8, MaxTx=3,
                    MissOn=True, EvOn=True, EvPowers={1}, UnstakeTime=0, MaxCrashes=1),
                # an exported genesis (consistent: the previous-state powers are the top-2 powers of the exported state;
                # validator 3 is staked but below the cut-off and therefore absent from them)
                cfg(N=3, GenBal=(9, 9, 9), GenVals=gv((1, 6), (2, 4), (3, 2)), GenExported=True, GenPrev=(3, 2, -1), MaxVals=2, Amts={2, 4}, Kinds={"stake", "unstake"},
                    MaxHeight=5, MaxTx=2, MissOn=True, Window=2),
                # export / import restart between blocks
                cfg(N=3, GenBal=(9, 9, 9), GenVals=gv((1, 6), (2, 4), (3, 2)), MaxVals=2, Amts={2, 4}, Kinds={"stake", "unstake", "unjail"}, MaxHeight=6, MaxTx=2, MissOn=True, Window=2,
                    MaxExports=1, UnstakeTime=2),
                # MaxValidators changed by governance between blocks (below and above the number of candidates)
                cfg(N=4, GenBal=(9, 9, 9, 9), GenVals=gv((1, 6), (2, 4), (3, 4), (4, 2)), MaxVals=2, Amts={2, 4}, Kinds={"setparam", "stake", "unstake"}, ParamVals={1, 2, 3, 4},
                    MaxHeight=7, MaxTx=3, MissOn=True, Window=2)],
    },
    "C06": {
        "mc": [cfg(N=2, MaxVals=2, UnstakeTime=1, Amts={1, 2, 9}, Kinds={"stake", "unstake", "unjail"}, MaxHeight=4, MaxTx=2, Dts={0, 1}, EvOn=True, EvPowers={1}),
               cfg(N=3, GenBal=(9, 9, 9), MaxVals=3, UnstakeTime=2, Amts={2}, Kinds={"stake", "unstake"}, MaxHeight=3, MaxTx=3, Dts={1, 2})],
        "mcT": [cfg(N=3, GenBal=(9, 9, 9), MaxVals=3, UnstakeTime=2, Amts={2}, Kinds={"stake", "unstake"}, MaxHeight=4, MaxTx=3, Dts={1, 2})],
        "sim": [cfg(N=3, GenBal=(9, 9, 3), GenVals=gv((1, 2)), MaxVals=2, UnstakeTime=2, Amts={1, 2, 3, 9}, Kinds={"stake", "unstake", "unjail"}, MaxHeight=9, MaxTx=3, Dts={0, 1, 2},
                    EvOn=True, MissOn=True, EvPowers={1, 2}, MaxExt=1, BurnNums={1, 2, 4}),
                cfg(N=4, GenBal=(9, 9, 9, 9), MaxVals=4, UnstakeTime=1, Amts={2, 4}, Kinds={"stake", "unstake"}, MaxHeight=7, MaxTx=4, Dts={0, 1, 3}, MaxCrashes=1, SecpUsers={4}),
                # the minimum stake itself is changed by governance (MinStakeHeld is then suspended; everything else still conforms)
                cfg(N=3, GenBal=(9, 9, 9), GenVals=gv((1, 4), (2, 2)), MaxVals=3, UnstakeTime=1, Amts={2, 3}, Kinds={"setparam", "stake", "unstake", "unjail"}, ParamVals={2},
                    MaxHeight=6, MaxTx=3, Dts={1}, MissOn=True, Window=1, MinSignedNum=1, MinSignedDen=1, FracDT=2),
                # export / import restart while validators are unstaking
                cfg(N=3, GenBal=(9, 9, 9), GenVals=gv((1, 4), (2, 4), (3, 2)), MaxVals=3, UnstakeTime=3, Amts={2}, Kinds={"stake", "unstake"}, MaxHeight=6, MaxTx=3, Dts={0, 1}, MaxExports=1),
                # an exported genesis: one validator already unstaking (queued at its completion time), previous-state powers given
                cfg(N=3, GenBal=(9, 9, 9), GenVals=gv((1, 4), (2, 4), (3, 2, 1, False, 2)), GenExported=True, GenPrev=(2, 2, -1), MaxVals=3, UnstakeTime=2, Amts={2}, Kinds={"stake", "unstake"},
                    MaxHeight=5, MaxTx=3, Dts={0, 1}),
                # several validators in the same unstaking-queue slot, forced unstakes (evidence) while they wait
                cfg(N=3, GenBal=(9, 9, 9), GenVals=gv((1, 4), (2, 4), (3, 2)), MaxVals=3, UnstakeTime=3, Amts={2}, Kinds={"stake", "unstake"}, MaxHeight=6, MaxTx=3, Dts={1},
                    EvOn=True, EvPowers={1})],
    },
    "C07": {
        "mc": [cfg(N=2, MaxVals=2, GenVals=gv((1, 4), (2, 2)), Kinds={"unstake"}, MaxHeight=2, MaxTx=1, EvOn=True, MissOn=True, EvPowers={0, 1, 2, 9}, MaxExt=1, BurnNums={0, 1, 2, 4},
                   Window=1, MinSignedNum=1, MinSignedDen=1, FracDS=2, FracDT=1)],
        "sim": [cfg(N=3, GenBal=(9, 9, 9), GenVals=gv((1, 7), (2, 4), (3, 2)), MaxVals=3, Kinds={"stake", "unstake", "unjail"}, Amts={2, 5}, MaxHeight=6, MaxTx=2, EvOn=True, MissOn=True,
                    EvPowers={0, 1, 2, 3, 9}, MaxExt=2, BurnNums={0, 1, 2, 3, 4}, Window=2, FracDen=8, FracDS=3, FracDT=1, Dts={0, 1, 2}, MaxEvAge=1, MaxCrashes=1, EvHBacks={1, 0, 2, -2}, EvTwo=True),
                cfg(N=3, GenBal=(9, 9, 9), GenVals=gv((1, 7), (2, 4), (3, 2)), MaxVals=3, Kinds={"unstake"}, MaxHeight=6, MaxTx=1, EvOn=True, MissOn=True,
                    EvPowers={1, 3}, MaxExt=1, BurnNums={1, 8}, Window=1, MinSignedNum=1, MinSignedDen=1, FracDen=8, FracDS=8, FracDT=8),
                # a downtime slash computed from a vote power that is older (larger) than the stake a burn left
                cfg(N=2, GenBal=(9, 9), GenVals=gv((1, 8), (2, 8)), MaxVals=2, Kinds={"unjail"}, MaxHeight=6, MaxTx=1, MissOn=True, MaxExt=2, BurnNums={1, 2},
                    Window=1, MinSignedNum=1, MinSignedDen=1, FracDen=4, FracDS=1, FracDT=2, JailDur=0)],
    },
    "C08": {
        "mc": [cfg(N=1, GenBal=(9,), GenVals=gv((1, 4)), MaxVals=1, Kinds={"unjail"}, MaxTx=1, MissOn=True, Window=3, MinSignedNum=1, MinSignedDen=2, MaxHeight=9, JailDur=1, FracDT=0),
               cfg(N=2, GenBal=(9, 9), GenVals=gv((1, 4), (2, 4)), MaxVals=2, Kinds={"unjail"}, MaxTx=1, MissOn=True, Window=2, MinSignedNum=1, MinSignedDen=2, MaxHeight=6, JailDur=0, FracDT=1)],
        "sim": [cfg(N=2, GenBal=(9, 9), GenVals=gv((1, 8), (2, 4)), MaxVals=2, Kinds={"unjail", "stake", "unstake"}, Amts={2}, MaxTx=2, MissOn=True, Window=5, MinSignedNum=1, MinSignedDen=2,
                    MaxHeight=16, JailDur=1, FracDT=1, Dts={1}, MaxCrashes=1),
                cfg(N=2, GenBal=(9, 9), GenVals=gv((1, 8), (2, 8)), MaxVals=2, Kinds={"unjail"}, MaxTx=1, MissOn=True, Window=4, MinSignedNum=3, MinSignedDen=4,
                    MaxHeight=14, JailDur=0, FracDT=1, FracDen=8),
                # the chain is stopped, exported and restarted from the export in the middle of the vote history
                cfg(N=2, GenBal=(9, 9), GenVals=gv((1, 8), (2, 8)), MaxVals=2, Kinds={"unjail"}, MaxTx=1, MissOn=True, Window=4, MinSignedNum=1, MinSignedDen=2,
                    MaxHeight=12, JailDur=0, FracDT=1, FracDen=8, MaxExports=1),
                # fraction * window = 1.5 (rounds half-even to 2) and 4.9 (rounds to 5): truncation would differ
                cfg(N=2, GenBal=(9, 9), GenVals=gv((1, 8), (2, 8)), MaxVals=2, Kinds={"unjail"}, MaxTx=1, MissOn=True, Window=3, MinSignedNum=1, MinSignedDen=2,
                    MaxHeight=12, JailDur=0, FracDT=1, FracDen=8),
                cfg(N=1, GenBal=(9,), GenVals=gv((1, 8)), MaxVals=1, Kinds={"unjail"}, MaxTx=1, MissOn=True, Window=7, MinSignedNum=7, MinSignedDen=10,
                    MaxHeight=20, JailDur=0, FracDT=1, FracDen=8),
                # a window of more than 255 blocks (the index of a window entry is stored as 8 little-endian bytes: key order is
                # not index order beyond one byte) and no tolerance: many misses are recorded before height start + window,
                # the first one after it jails and must clear all of them
                cfg(N=1, GenBal=(9,), GenVals=gv((1, 8)), MaxVals=1, Kinds={"unjail"}, MaxTx=0, MissOn=True, Window=260, MinSignedNum=1, MinSignedDen=1,
                    MaxHeight=272, JailDur=0, FracDT=0, FracDen=8, Dts={1}, SimDepth=830, SimNumDiv=8, SimOneIn=1, SimMaxBeh=2)],
    },
    "C09": {
        "mc": [cfg(N=2, GenBal=(9, 9), GenVals=gv((1, 4), (2, 2)), MaxVals=2, Kinds={"unjail", "unstake", "stake"}, Amts={2}, MaxTx=2, MissOn=True, EvOn=True, EvPowers={1}, Window=1,
                   MinSignedNum=1, MinSignedDen=1, MaxHeight=4, JailDur=2, Dts={1})],
        "sim": [cfg(N=3, GenBal=(9, 9, 9), GenVals=gv((1, 6), (2, 4), (3, 2)), MaxVals=2, Kinds={"unjail", "unstake", "stake"}, Amts={2, 3}, MaxTx=3, MissOn=True, EvOn=True, EvPowers={1, 2},
                    Window=2, MinSignedNum=1, MinSignedDen=2, MaxHeight=10, JailDur=2, Dts={0, 1, 2, 3}, FracDen=8, FracDT=1, FracDS=2, MaxCrashes=1, EvHBacks={1, -2}, EvTwo=True),
                # export / import restart with jailed and tombstoned validators
                cfg(N=3, GenBal=(9, 9, 9), GenVals=gv((1, 6), (2, 4), (3, 4)), MaxVals=3, Kinds={"unjail", "unstake", "stake"}, Amts={2, 4}, MaxTx=2, MissOn=True, EvOn=True, EvPowers={1},
                    Window=2, MaxHeight=7, JailDur=2, UnstakeTime=2, Dts={1, 2}, MaxExports=1),
                # a genesis (as exported from a running chain) holding a jailed unstaking validator and consistent previous-state powers
                cfg(N=3, GenBal=(9, 9, 9), GenVals=gv((1, 6), (2, 4), (3, 4, 1, True, 3)), GenExported=True, GenPrev=(3, 2, -1), MaxVals=3, Kinds={"unjail", "unstake", "stake"}, Amts={2, 4},
                    MaxTx=3, MissOn=True, EvOn=True, EvPowers={1, 2}, Window=2, MaxHeight=7, JailDur=2, UnstakeTime=2, Dts={0, 1, 2})],
    },
    "C10": {
        "mc": [cfg(N=2, Kinds={"stake", "send", "unstake"}, SendTos={2}, Amts={2}, MaxExt=2, AwardTos={1, 5}, Props={0, 1}, MaxHeight=3, MaxTx=2, UnstakeTime=0, BurnNums=set())],
        "mcT": [cfg(N=2, Kinds={"stake", "send", "unstake"}, SendTos={2}, Amts={2}, MaxExt=2, AwardTos={1, 2, 5}, Props={0, 1, 2}, MaxHeight=3, MaxTx=2, UnstakeTime=0, BurnNums=set())],
        "sim": [cfg(N=3, GenBal=(9, 9, 9), GenVals=gv((1, 4)), MaxVals=2, Kinds=ALLK, SendTos={1, 2, 4, 6}, Amts={1, 2, 3}, MaxExt=3, AwardTos={1, 2, 3, 4, 5, 6, 7, 8}, Props={0, 1, 2, 3}, MaxHeight=7, MaxTx=3,
                    UnstakeTime=0, BurnNums={1}, Fee=2, MaxCrashes=1)],
    },
    "C11": {
        "mc": [cfg(N=2, Kinds=ALLK, SendTos={2}, Amts={2, 9}, MaxHeight=2, MaxTx=2, BadTxOn=True, GenVals=gv((1, 4)), MaxRO=1)],
        "sim": [cfg(N=3, GenBal=(9, 2, 0), GenVals=gv((1, 4)), MaxVals=2, Kinds=ALLK, SendTos={1, 2, 3}, Amts={0, 1, 2, 9}, MaxHeight=5, MaxTx=5, BadTxOn=True, MissOn=True, Window=1, MinSignedNum=1, MinSignedDen=1,
                    Fee=2, MaxRO=3),
                cfg(N=2, GenBal=(9, 9), GenVals=gv((1, 4)), MaxVals=2, Kinds=ALLK, SendTos={1, 2, 4, 7}, Amts={2, 4}, MaxHeight=5, MaxTx=3, BadTxOn=True, Fee=1, MaxRO=2, UnstakeTime=0, MaxCrashes=1, SecpUsers={2}),
                # governance raises the minimum stake above existing stakes mid-history, then those validators transact
                cfg(N=3, GenBal=(9, 9, 9), GenVals=gv((1, 4), (2, 2)), MaxVals=3, Kinds={"setparam", "stake", "unstake", "unjail"}, ParamVals={2}, Amts={2, 3}, MaxHeight=4, MaxTx=4, Fee=1,
                    UnstakeTime=1, MaxRO=1),
                # governance changes the stake denomination to one nobody holds, then accounts try to stake
                cfg(N=2, GenBal=(9, 9), GenVals=set(), MaxVals=2, Kinds={"setdenom", "stake", "send"}, SendTos={1, 2}, Amts={2, 4}, MaxHeight=3, MaxTx=4, Fee=1, MaxRO=1, Props={0})],
    },
}

SIZES = {  # (sim traces per worker, depth, OneIn, sim timeout s, mc timeout s)
    "quick": dict(num=40, depth=40, onein=12, simt=120, mct=900, maxbeh=1200, rich=120),
    "thorough": dict(num=250, depth=60, onein=12, simt=420, mct=3000, maxbeh=9000, rich=1500),
}


def dec(num, den):
    return str(Decimal(num) / Decimal(den))


def app_cfg(c, seed):
    gvals = [{"v": g["v"], "status": g["status"], "tokens": g["tokens"], "jailed": g["jailed"], "uat": g["uat"]} for g in sorted(c["GenVals"], key=lambda g: g["v"])]
    return {"app": {"N": c["N"], "PR": c["PR"], "MinStake": c["MinStake"], "MaxVals": c["MaxVals"], "UnstakeTime": c["UnstakeTime"],
                    "Window": c["Window"], "MinSigned": dec(c["MinSignedNum"], c["MinSignedDen"]), "JailDur": c["JailDur"],
                    "MaxEvAge": c["MaxEvAge"], "FracDS": dec(c["FracDS"], c["FracDen"]), "FracDT": dec(c["FracDT"], c["FracDen"]),
                    "FracDen": c["FracDen"], "Fee": c["Fee"], "GovFee": max(c["Fee"], 0) or -1, "FeeMult": 1, "Bal": list(c["GenBal"]), "GVals": gvals,
                    "DaoTokens": c["DaoTokens"], "DaoOwner": 1, "AclOwner": [c["ParamOwner"]], "KeySeed": seed,
                    "Exported": c["GenExported"], "PrevPowers": list(c["GenPrev"]), "SecpLast": bool(c.get("SecpUsers"))},
            "fracDen": c["FracDen"]}


BEH = re.compile(r'^<<"BEH", "(.*)">>$')
DIV = re.compile(r'^<<"DIV", (\d+), (\d+), \{(.*?)\}, \{(.*?)\}, "(.*)">>$')


def parse_beh(out):
    behs = []
    for ln in out.splitlines():
        m = BEH.match(ln)
        if m:
            behs.append(json.loads(m.group(1).replace('\\"', '"').replace("\\\\", "\\")))
    return behs


def simulate(c, d, seed, size, label):
    sim = dict(c)
    # a configuration may ask for longer (and fewer) behaviours than the tier's default: python-only keys
    if "SimDepth" in sim:
        size = dict(size, depth=sim.pop("SimDepth"), num=max(2, size["num"] // sim.pop("SimNumDiv", 4)), onein=sim.pop("SimOneIn", size["onein"]))
    sim.pop("SimMaxBeh", None)
    sim.update(Depth=size["depth"], OneIn=size["onein"])
    files = tlagen.model("SIM_" + label, "PosmintSim", sim, spec="SimSpec", constraints=["Emit"])
    res = common.run_tlc("SIM_" + label, "SIM_%s.cfg" % label, d, timeout=size["simt"], files=files,
                         simulate="num=%d" % size["num"], depth=size["depth"] + 2, seed=seed, workers=min(8, common.NCPU))
    if res.error:
        raise common.ToolError("simulation %s: %s\n%s" % (label, res.error, res.out[-2000:]))
    behs = parse_beh(res.out)
    if not behs and not size.get("_retry"):
        # nothing printed within the time cap (a heavily loaded machine, or behaviours that all end early):
        # once more with four times the cap and every candidate printed
        return simulate(c, d, seed, dict(size, simt=size["simt"] * 4, onein=1, _retry=True), label + "r")
    return behs


class ProcessExit(Exception):
    """The real application ended the PROCESS inside a call (os.Exit / log.Fatal - not a panic, which the
    harness recovers and reports as a halt).  Reproduced twice at the same call before it is raised."""
    def __init__(self, info):
        Exception.__init__(self, "process exited with status %s inside %s" % (info["rc"], json.dumps(info["act"])))
        self.info = info


def locate_exit(cp, behs, d, label):
    """posdrv died: find the call inside which the process ended (flushed trace), twice."""
    found = None
    for b in behs:
        one = os.path.join(d, "one_%s.ndjson" % label)
        with open(one, "w") as fh:
            fh.write(json.dumps(b) + "\n")
        hits = []
        for attempt in range(2):
            tr = os.path.join(d, "one_%s_%d.trace" % (label, attempt))
            p = common.run_driver("posdrv", ["run", cp, one, tr], timeout=600, env_extra={"VERIF_SYNC": "1"})
            if p.returncode == 0:
                break
            err = p.stderr or ""
            if p.returncode < 0 or any(x in err for x in ("panic:", "goroutine ", "fatal error", "signal:")):
                return None   # a crash of the Go runtime / the harness itself: never a verdict
            done = 0
            try:
                for x in open(tr):
                    json.loads(x)
                    done += 1
            except ValueError:
                pass
            if done >= len(b):
                return None
            hits.append((done, p.returncode, err[-500:]))
        if len(hits) == 2 and hits[0][0] == hits[1][0]:
            done, rcode, err = hits[0]
            found = {"behaviour": b[:done + 1], "step": done + 1, "act": b[done], "rc": rcode, "stderr": err}
            break
    return found


def run_real(c, behs, d, seed, label, rc=None):
    acts = os.path.join(d, "acts_%s.ndjson" % label)
    with open(acts, "w") as fh:
        for b in behs:
            fh.write(json.dumps(b) + "\n")
    cp = os.path.join(d, "cfg_%s.json" % label)
    with open(cp, "w") as fh:
        json.dump(rc or app_cfg(c, seed), fh)
    tr = os.path.join(d, "trace_%s.ndjson" % label)
    p = common.run_driver("posdrv", ["run", cp, acts, tr], timeout=1800)
    if p.returncode != 0:
        info = locate_exit(cp, behs, d, label) if p.returncode > 0 else None
        if info:
            info["cfg"] = rc or app_cfg(c, seed)
            raise ProcessExit(info)
        raise common.ToolError("posdrv died (rc=%s): %s" % (p.returncode, (p.stderr or p.stdout)[-2000:]))
    return tr


PYKEYS = ("SimDepth", "SimNumDiv", "SimOneIn", "SimMaxBeh")


def validate(c, tr, d, label, dev=None):
    tc = {k: v for k, v in c.items() if k not in PYKEYS}
    tc["Dev"] = set(ACTIVE_DEV if dev is None else dev)
    tc["TraceFile"] = os.path.basename(tr)
    files = tlagen.model("TR_" + label, "Trace_Posmint", tc, spec="TraceSpec", postcondition="TraceAccepted")
    res = common.run_tlc("TR_" + label, "TR_%s.cfg" % label, d, timeout=3000, files=files, workers=1)
    if res.error or res.rc != 0:
        raise common.ToolError("trace validation %s failed to run to the end of the trace: %s\n%s" % (label, res.error, res.out[-3000:]))
    divs = common.parse_div(res.out)
    return res, divs


# The seeded adversarial driver (code -> spec): shipped power reduction, large amounts, more
# validators, longer histories; validated by the same monitor with these constants.
RICH = cfg(N=5, PR=1000000, MinStake=1000000, MaxVals=3, UnstakeTime=2, Window=4, MinSignedNum=1, MinSignedDen=2, JailDur=1, MaxEvAge=2,
           FracDen=100, FracDS=5, FracDT=1, Fee=100, GenBal=(50000000, 40000000, 30000000, 3000000, 999999),
           GenVals=gv((1, 3000000), (2, 1000001)), DaoTokens=7000000, Amts={1}, BurnNums={0, 50, 100, 150}, MaxHeight=14, MaxTx=5, MaxExports=1, MaxCrashes=1)
RICH2 = cfg(N=4, PR=1000000, MinStake=2500000, MaxVals=2, UnstakeTime=0, Window=3, MinSignedNum=7, MinSignedDen=10, JailDur=0, MaxEvAge=1,
            FracDen=1000, FracDS=1000, FracDT=333, Fee=0, GenBal=(90000000, 9000000, 5000000, 2500000),
            GenVals=gv((1, 7500000), (2, 2500000), (3, 2500000)), DaoTokens=0, Amts={1}, BurnNums={1, 999, 1000}, MaxHeight=12, MaxTx=4, MaxCrashes=2)


def run_random(c, d, seed, nbeh, label):
    rc = app_cfg(c, seed)
    rc.update(maxHeight=c["MaxHeight"], maxTx=c["MaxTx"], burnNums=sorted(c["BurnNums"]), exports=c.get("MaxExports", 0), crashes=c.get("MaxCrashes", 0))
    cp = os.path.join(d, "rcfg_%s.json" % label)
    with open(cp, "w") as fh:
        json.dump(rc, fh)
    tr = os.path.join(d, "rtrace_%s.ndjson" % label)
    p = common.run_driver("posdrv", ["random", cp, str(seed), str(nbeh), tr], timeout=1800)
    if p.returncode != 0:
        raise common.ToolError("posdrv random died (rc=%s): %s" % (p.returncode, (p.stderr or p.stdout)[-2000:]))
    return tr


# C12 at the level of the application: a node that dies anywhere (between blocks, inside a block,
# after EndBlock) and is reopened has byte for byte the stores it had at its last Commit, under
# every pruning option, and the history goes on from there conforming to the specification.
CRASH_CFGS = [
    cfg(N=3, GenBal=(9, 9, 5), GenVals=gv((1, 4), (2, 2)), MaxVals=2, UnstakeTime=1, Kinds=ALLK, SendTos={1, 2, 5, 8}, Amts={1, 2, 4}, MaxExt=2,
        AwardTos={1, 2, 8}, BurnNums={1, 2}, Props={0, 1, 2}, MaxHeight=7, MaxTx=3, EvOn=True, MissOn=True, EvPowers={1, 2}, MaxCrashes=3, MaxRO=2),
    cfg(N=2, GenBal=(9, 9), GenVals=gv((1, 4)), MaxVals=2, Kinds={"stake", "unstake", "send", "setparam"}, ParamVals={1, 2}, SendTos={1, 2}, Amts={2, 4},
        MaxHeight=6, MaxTx=3, MaxCrashes=2, MaxExports=1, UnstakeTime=2),
]
PRUNINGS = ["nothing", "everything", "syncable", "1,2", "2,3", "3,1"]


def stage_crash(out, prop, tier, seed, d):
    """Posmint.tla's Crash action against the real application, reported under `prop` (C12)."""
    common.build_harness(["posdrv"])
    size = dict(SIZES[tier])
    # (thorough: every behaviour runs under all six pruning options, so fewer behaviours per configuration)
    size.update(num=max(4, size["num"] // 6), maxbeh=max(150, size["maxbeh"] // (6 if tier == "quick" else 20)))
    seen = set()
    crashes = 0
    for i, c in enumerate(CRASH_CFGS):
        label = "%s_crash%d" % (prop, i)
        behs = [b for b in simulate(c, d, seed * 6151 + i, size, label) if any(a["a"] == "Crash" for a in b)]
        if len(behs) < size["maxbeh"] // 3:
            more = simulate(c, d, seed * 6151 + i + 1, dict(size, onein=1), label + "b")
            have = {json.dumps(b) for b in behs}
            behs += [b for b in more if json.dumps(b) not in have and any(a["a"] == "Crash" for a in b)]
        behs = behs[:size["maxbeh"]]
        if not behs:
            raise common.ToolError("simulation %s produced no behaviour with a crash" % label)
        acts = os.path.join(d, "acts_%s.ndjson" % label)
        with open(acts, "w") as fh:
            for b in behs:
                fh.write(json.dumps(b) + "\n")
        rc = app_cfg(c, seed)
        rc["app"]["Pruning"] = PRUNINGS[(seed + i) % len(PRUNINGS)] if tier == "quick" else None
        trs = []
        for pr in ([rc["app"]["Pruning"]] if tier == "quick" else PRUNINGS):
            rc["app"]["Pruning"] = pr
            cp = os.path.join(d, "cfg_%s_%s.json" % (label, pr.replace(",", "_")))
            with open(cp, "w") as fh:
                json.dump(rc, fh)
            tr = os.path.join(d, "trace_%s_%s.ndjson" % (label, pr.replace(",", "_")))
            p = common.run_driver("posdrv", ["run", cp, acts, tr], timeout=1800)
            if p.returncode != 0:
                raise common.ToolError("posdrv died (rc=%s): %s" % (p.returncode, (p.stderr or p.stdout)[-2000:]))
            trs.append((pr, tr, json.loads(json.dumps(rc))))
        for pr, tr, rcfg in trs:
            res, divs = validate(c, tr, d, label + "_" + pr.replace(",", "_"))
            lines = [json.loads(x) for x in open(tr)]
            n = sum(1 for ln in lines if ln["act"]["a"] == "Crash")
            crashes += n
            out.cov["traces_validated_against_impl"] += len(behs)
            committed = set()
            for ln in lines:
                if ln["act"]["a"] == "Commit":
                    committed.add(ln["b"])
                if ln["act"]["a"] == "ExportImport":
                    committed.discard(ln["b"])
                if ln["act"]["a"] == "Query" and ln["b"] in committed:
                    out.notes["app_level_queries_checked_against_committed_answers"] = out.notes.get("app_level_queries_checked_against_committed_answers", 0) + 1
            where = out.notes.setdefault("app_level_crash_points_by_preceding_call", {})
            for k, ln in enumerate(lines):
                if ln["act"]["a"] == "Crash" and k > 0:
                    a = lines[k - 1]["act"]["a"]
                    where[a] = where.get(a, 0) + 1
            for dv in divs:
                ln = lines[dv["line"] - 1]
                if ln["act"]["a"] == "Query" and "C12.QueryAnswersCommitted" in dv["bad"] and "C12.QueryAnswersCommitted" not in seen:
                    seen.add("C12.QueryAnswersCommitted")
                    beh = [x["act"] for x in lines if x["b"] == ln["b"] and x["i"] <= ln["i"]]
                    out.violation(sig="C12.QueryAnswersCommitted",
                                  what="a %s query for the latest committed height, asked while the next block executes, is not answered from what was committed (pruning %s, behaviour %d, step %d)" % (
                                      ln["act"].get("kind"), pr, ln["b"], ln["i"]),
                                  action="Query", kind=ln["act"].get("kind", ""), pruning=pr, predicates=sorted(dv["bad"]),
                                  replay={"driver": "posdrv", "cfg": rcfg, "consts": {k: (sorted(v, key=str) if isinstance(v, (set, frozenset)) else v) for k, v in c.items()},
                                          "actions": beh, "observed": ln["post"], "result": ln["res"]})
                if ln["act"]["a"] != "Crash":
                    continue
                sigs = []
                if "C12.CrashRecoversCommitted" in dv["bad"]:
                    sigs.append(("C12.CrashRecoversCommitted", "the node reopened after a crash does not have, byte for byte, the stores it had at its last Commit"))
                for f in sorted(dv["div"]):
                    sigs.append(("crash-lost-or-kept:%s" % f, "after crash and reopen `%s` is not what was committed" % f))
                for sig, what in sigs:
                    if sig in seen:
                        continue
                    seen.add(sig)
                    beh = [x["act"] for x in lines if x["b"] == ln["b"] and x["i"] <= ln["i"]]
                    out.violation(sig=sig, what="%s (pruning %s, behaviour %d, step %d, after %s)" % (what, pr, ln["b"], ln["i"], json.dumps(beh[-2])[:160] if len(beh) > 1 else ""),
                                  action="Crash", pruning=pr, diverged=sorted(dv["div"]), predicates=sorted(dv["bad"]),
                                  replay={"driver": "posdrv", "cfg": rcfg, "consts": {k: (sorted(v, key=str) if isinstance(v, (set, frozenset)) else v) for k, v in c.items()},
                                          "actions": beh, "observed": ln["post"], "result": ln["res"]})
    out.notes["app_level_crashes_validated"] = crashes
    if crashes == 0:
        raise common.ToolError("no crash was executed on the real application")
    if not out.notes.get("app_level_queries_checked_against_committed_answers"):
        raise common.ToolError("no query was asked while a block was executing on top of a committed state")


def attribute(prop, dv, line):
    """Which violations of `prop` does one DIV record amount to? Returns list of (sig, what)."""
    act = line["act"]
    a = act["a"]
    kind = act.get("kind", "")
    out = []
    for b in sorted(dv["bad"]):
        if b.startswith(prop + "."):
            out.append((b, "predicate %s is false on the real %s" % (b, "transition" if a else "state")))
    norm = set(NORMATIVE.get(prop, set()))
    fields = set(dv["div"])
    if a == "Crash":
        # whether a reopened node has exactly what it committed is C12's subject (predicate
        # C12.CrashRecoversCommitted); here only the property's own predicates on the state it came back with
        norm = set()
    if prop == "C11":
        # everything is normative, but only for calls the application rejected
        if not (a == "Tx" and line["res"]["class"] in ("rej_pre", "rej_post")):
            norm = set()
    for f in sorted(fields & norm):
        out.append(("diverge:%s@%s%s" % (f, a, "/" + kind if kind else ""), "real %s differs from the specification's step in `%s`" % (a, f)))
    if "lastRes" in fields and a == "Tx":
        props = set(LASTRES.get(kind, set()))
        if act.get("bad", "none") != "none" or line["res"]["class"] != "ok":
            props.add("C11")
        if prop in props:
            out.append(("diverge:lastRes@Tx/%s" % kind, "real result class %s differs from the specification's" % line["res"]["class"]))
    if "halt" in fields and prop in HALT.get(a, set()):
        out.append(("diverge:halt@%s" % a, "real %s %s but the specification %s (%s)" % (
            a, "panicked" if line["res"]["class"] == "halt" else "returned", "halts" if dv["note"] else "does not", dv["note"] or line["res"].get("halt", "")[:120])))
    return out


def report(out, prop, c, seed, label, lines, divs, seen):
    nonconf = {}
    for dv in divs:
        ln = lines[dv["line"] - 1]
        for f in dv["div"]:
            nonconf[f] = nonconf.get(f, 0) + 1
        for sig, what in attribute(prop, dv, ln):
            key = (sig, ln["act"]["a"], ln["act"].get("kind", ""), ln["res"]["class"])
            if key in seen:
                continue
            seen.add(key)
            beh = [x["act"] for x in lines if x["b"] == ln["b"] and x["i"] <= ln["i"]]
            out.violation(sig=sig, what="%s (config %s, behaviour %d, step %d: %s)" % (what, label, ln["b"], ln["i"], json.dumps(ln["act"])),
                          action=ln["act"]["a"], kind=ln["act"].get("kind", ""), result=ln["res"]["class"],
                          diverged=sorted(dv["div"]), predicates=sorted(dv["bad"]),
                          replay={"driver": "posdrv", "cfg": app_cfg(c, seed), "consts": {k: (sorted(v, key=str) if isinstance(v, (set, frozenset)) else v) for k, v in c.items()},
                                  "actions": beh, "observed": ln["post"], "result": ln["res"]})
    if nonconf:
        out.notes.setdefault("nonconformance_by_variable", {}).update(nonconf)


def run(prop, tier, seed):
    out = common.Outcome(prop, tier, seed)
    size = SIZES[tier]
    prof = PROFILES[prop]
    seen_all = set()
    common.build_harness(["posdrv"])
    out.assumptions += [
        "the abstraction function (harness/app/state.go: raw iteration of the pos/auth stores) is trusted",
        "Tendermint is modelled as an environment that applies updates after two blocks and offers votes over its own set; cryptography and amino are outside the model",
        "amounts are small integers (PowerReduction set to the model's PR through the exported variable sdk.PowerReduction)",
    ]
    actcount, rescount = {}, {}
    stages = out.notes.setdefault("stage_seconds", {})
    t_ = [time.time()]

    def lap(name):
        stages[name] = round(stages.get(name, 0) + time.time() - t_[0], 1)
        t_[0] = time.time()
    with common.Scratch() as d:
        # 1. the design: exhaustive on small constants, Dev = {}
        for i, c in enumerate(prof["mc"] + (prof.get("mcT", []) if tier == "thorough" else [])):
            files = tlagen.model("MC%d" % i, "Posmint", c, invariants=INVS[prop])
            res = common.run_tlc("MC%d" % i, "MC%d.cfg" % i, d, timeout=size["mct"], files=files, coverage=(tier == "thorough"))
            common.require_tlc_ok(res, "%s exhaustive cfg %d" % (prop, i))
            out.add_tlc(res, "exhaustive %d: %s" % (i, {k: (sorted(v, key=str) if isinstance(v, (set, frozenset)) else v) for k, v in c.items() if BASE.get(k) != v}))
            lap("exhaustive")
        # 2 + 3. spec -> code -> spec
        sims = prof["sim"]
        picks = sims  # every simulation configuration in both tiers (they steer to different corners)
        size = dict(size, maxbeh=max(300, size["maxbeh"] // len(picks)), num=max(10, size["num"] // len(picks)))
        for i, c in enumerate(picks):
            label = "%s_%d" % (prop, i)
            behs = simulate(c, d, seed * 7919 + i, size, label)
            if len(behs) < size["maxbeh"] // 3:
                # little branching at the end of these behaviours: print every candidate instead of a sample
                more = simulate(c, d, seed * 7919 + i + 1, dict(size, onein=1), label + "b")
                have = {json.dumps(b) for b in behs}
                behs += [b for b in more if json.dumps(b) not in have]
            behs = behs[:size["maxbeh"]]
            if "SimMaxBeh" in c:   # long behaviours: a few of them (three times as many in the thorough tier)
                behs = behs[:c["SimMaxBeh"] * (3 if tier == "thorough" else 1)]
            if not behs:
                raise common.ToolError("simulation produced no behaviours")
            lap("simulate")
            try:
                tr = run_real(c, behs, d, seed, label)
            except ProcessExit as e:
                # C11 states that the process keeps running whatever is submitted; for the other properties a
                # process that ends is a check that cannot go on (undecided), never a verdict
                inf = e.info
                if prop == "C11" and inf["act"]["a"] in ("Tx", "CheckTx", "Simulate", "Query"):
                    a = inf["act"]
                    out.violation(sig="process-exit@%s/%s" % (a["a"], a.get("kind", "")),
                                  what="the process ended (exit status %s) inside %s of behaviour step %d (config %s): %s" % (inf["rc"], a["a"], inf["step"], label, json.dumps(a)),
                                  action=a["a"], kind=a.get("kind", ""), result="process-exit",
                                  replay={"driver": "posdrv", "cfg": inf["cfg"], "consts": {k: (sorted(v, key=str) if isinstance(v, (set, frozenset)) else v) for k, v in c.items()},
                                          "actions": inf["behaviour"], "exit_status": inf["rc"]})
                    lap("real_run")
                    continue
                raise common.ToolError(str(e))
            lap("real_run")
            lines = [json.loads(x) for x in open(tr)]
            res, divs = validate(c, tr, d, label)
            lap("trace_validation")
            out.cov["traces_validated_against_impl"] += len(behs)
            out.notes.setdefault("real_steps_validated", 0)
            out.notes["real_steps_validated"] += len(lines)
            for ln in lines:
                k = ln["act"]["a"] + ("/" + ln["act"].get("kind", "") if ln["act"]["a"] == "Tx" else "")
                actcount[k] = actcount.get(k, 0) + 1
                rk = k + ":" + ln["res"]["class"]
                rescount[rk] = rescount.get(rk, 0) + 1
            if behs:
                out.sample({"behaviour_actions": behs[0][:12], "first_real_line": {k: lines[0][k] for k in ("act", "res")}})
            report(out, prop, c, seed, label, lines, divs, seen_all)
        # code -> spec with rich values: seeded adversarial histories recorded from the real code
        for j, rcfg_ in enumerate([RICH, RICH2]):
            label = "%s_rich%d" % (prop, j)
            nbeh = size["rich"]
            tr = run_random(rcfg_, d, seed * 31 + j, nbeh, label)
            lap("random_run")
            lines = [json.loads(x) for x in open(tr)]
            res, divs = validate(rcfg_, tr, d, label)
            lap("random_validation")
            out.cov["traces_validated_against_impl"] += nbeh
            out.notes["real_steps_validated"] += len(lines)
            out.notes["recorded_random_histories"] = out.notes.get("recorded_random_histories", 0) + nbeh
            for ln in lines:
                k = ln["act"]["a"] + ("/" + ln["act"].get("kind", "") if ln["act"]["a"] == "Tx" else "")
                actcount[k] = actcount.get(k, 0) + 1
                rk = k + ":" + ln["res"]["class"]
                rescount[rk] = rescount.get(rk, 0) + 1
            report(out, prop, rcfg_, seed * 31 + j, label, lines, divs, seen_all)
    out.notes["real_calls_by_action"] = actcount
    out.notes["real_results"] = rescount
    if prop in ("C02", "C11"):
        # DAO transfers and burns (the other explicit movers of C02) are governance transactions, and C11's
        # "a rejected transaction leaves no trace but its fee" covers every message of the bundled modules: Gov.tla
        from props import gov
        rr = out.notes.pop("real_results", None)     # (the governance stage keeps its own counts under the same names)
        rs = out.notes.pop("real_steps_validated", 0)
        gov.stage(out, prop, tier, seed)
        out.notes["gov_real_results"] = out.notes.pop("real_results", None)
        out.notes["real_results"] = rr
        out.notes["real_steps_validated"] = rs + out.notes.get("real_steps_validated", 0)
    return out


def replay(prop, path):
    """Re-execute the behaviour stored in a replay file on the real code and validate it again."""
    with open(path) as fh:
        v = json.load(fh)["violation"]
    rp = v["replay"]
    if "consts" not in rp:    # found by the governance stage (Gov.tla)
        from props import gov
        return gov.replay(prop, path)
    common.build_harness(["posdrv"])
    c = {}
    for k, val in rp["consts"].items():
        c[k] = val
    for k in ("Dev", "Amts", "Dts", "BurnNums", "Kinds", "SendTos", "Props", "AwardTos", "EvPowers", "SecpUsers", "ParamVals", "EvHBacks"):
        c[k] = set(c.get(k, ()))
    for k, dflt in BASE.items():   # replay files written before a constant existed
        c.setdefault(k, dflt)
    c["GenVals"] = {tlagen.rec(**g) for g in c["GenVals"]}
    c["GenBal"] = tuple(c["GenBal"])
    with common.Scratch() as d:
        try:
            tr = run_real(c, [rp["actions"]], d, rp["cfg"]["app"]["KeySeed"], "replay", rc=rp["cfg"])
        except ProcessExit as e:
            print("replayed on the real code: %s" % e)
            return 1
        res, divs = validate(c, tr, d, "replay")
        lines = [json.loads(x) for x in open(tr)]
        bad = False
        for dv in divs:
            if prop == "C12" and "C12.QueryAnswersCommitted" in dv["bad"]:
                print("step %d: query not answered from the committed state" % dv["line"])
                bad = True
            if prop == "C12" and lines[dv["line"] - 1]["act"]["a"] == "Crash" and (dv["div"] or "C12.CrashRecoversCommitted" in dv["bad"]):
                print("step %d: crash and reopen: differs from what was committed in %s %s" % (dv["line"], sorted(dv["div"]), sorted(dv["bad"])))
                bad = True
            for sig, what in attribute(prop, dv, lines[dv["line"] - 1]):
                print("step %d: %s: %s" % (dv["line"], sig, what))
                bad = True
        print("replayed %d steps on the real code: %s" % (len(lines), "violation reproduced" if bad else "no violation"))
        return 1 if bad else 0
