"""C19 -- signatures bind key and message; stored keys survive export/import.

Decided by model-based verification with spec/Sigs.tla and spec/Keybase.tla:

 Sigs:    TLC enumerates every arrangement of signature components (correct, missing, truncated
          list, swapped, duplicated, wrong key, other message, damaged bytes, extra component,
          nested multisignature in the wrong position) for a fixed list of key trees of depth <= 2,
          checks that the transcribed N-of-N positional VerifyBytes accepts exactly the
          arrangements in which every listed key signed the message in its own position, and
          prints the case table; cryptodrv builds every case from real ed25519 / secp256k1 /
          mixed keys and real signatures and the real VerifyBytes must return the model's boolean.
          The SLOT-SHAPE table (Sigs.tla part 3b) fills every slot of a multisignature of the key's own
          shape with the signature that belongs there / one that does not / nothing (zero bytes): an
          empty slot anywhere (all empty, exactly one empty at each position, nested slots) must never
          verify; every run checks that these cases were generated and executed.
 Keybase: TLC explores the whole state graph of the keybase machine (3 keys, 4 passphrases of
          which two differ from the other two only by white space, 1-2 kept armors) checking the property on every transition (StepOK); behaviours drawn by
          TLC's simulator (seeded) are selected to cover every (operation, result class) and are
          replayed by cryptodrv on keys.NewInMemory() and on the lazy keybase (LevelDB in a temp
          dir); after every step the success/failure of the call, the key it returned, List(),
          and - for signatures - verification under the listed public key are compared with the
          model; at the end of a behaviour every listed key is probed with every passphrase.
          Keys of BOTH types live in the keybase: key 2 is a secp256k1 key, which enters as an armor
          made outside (ArmorRaw = mintkey.EncryptArmorPrivKey, then ImportPrivKey); a third backend is
          the dbKeybase over a GoLevelDB that stays open. The SCENARIO PROGRAMS of Keybase.tla
          (case tables RoundTrip and Life over all keys and ALL passphrases, the empty one included) are
          run by TLC with the specification's own actions (MC_KeybaseProg.cfg) and replayed on every
          backend: the ones that put the empty passphrase into each parameter position, export under ""
          and import with "" / with the storage passphrase, re-import a stored key of each type, are
          required on every run, the rest is sampled by the seed.
"""
import json
import os
import random
import re
import threading
import time

import common

NEEDS = {"cmds": ["cryptodrv"], "specs": ["Sigs", "Keybase"]}

TIERS = {
    "quick": dict(sigs=["MC_Sigs.cfg"], kb="MC_Keybase.cfg", kbsim="MC_KeybaseSim.cfg", kbprog="MC_KeybaseProg.cfg", depth=12, sim_num=400,
                  budget={"mem": 600, "leveldb": 250, "lazy": 250}, budget_prog={"mem": 320, "leveldb": 320, "lazy": 320},
                  tlc_timeout=600, workers={"mem": 6, "leveldb": 5, "lazy": 5}),
    "thorough": dict(sigs=["MC_SigsThorough.cfg", "MC_SigsThoroughB.cfg"], kb="MC_KeybaseThorough.cfg", kbsim="MC_KeybaseSimThorough.cfg",
                     kbprog="MC_KeybaseProg.cfg", depth=16, sim_num=2500,
                     budget={"mem": 6000, "leveldb": 2000, "lazy": 2000}, budget_prog={"mem": 6000, "leveldb": 3000, "lazy": 3000},
                     tlc_timeout=1700, workers={"mem": 6, "leveldb": 5, "lazy": 5}),
}
BACKENDS = ("mem", "leveldb", "lazy")
# Keybase.tla: NK = 3, NKnown = 2, Secp = {2} in every configuration
NK, NKNOWN, SECP = 3, 2, [2]
KIND = {1: "ed25519-raw", 2: "secp256k1-armored", 3: "ed25519-created"}

# every (operation, result class) of Keybase.tla must be replayed at least once
REQUIRED = [("Create", "ok"), ("ArmorRaw", "ok"), ("ImportObj", "ok"), ("ImportObj", "exists"), ("ImportArm", "ok"), ("ImportArm", "badpass"),
            ("ImportArm", "exists"), ("ImportJunk", "badarmor"), ("Update", "ok"), ("Update", "badpass"),
            ("Update", "notfound"), ("ExportArm", "ok"), ("ExportArm", "badpass"), ("ExportArm", "notfound"),
            ("ExportObj", "ok"), ("ExportObj", "badpass"), ("ExportObj", "notfound"), ("Delete", "ok"),
            ("Delete", "badpass"), ("Delete", "notfound"), ("Sign", "ok"), ("Sign", "badpass"), ("Sign", "notfound"),
            ("Get", "ok"), ("Get", "notfound"), ("SetCoinbase", "ok"), ("SetCoinbase", "notfound"),
            ("GetCoinbase", "ok"), ("GetCoinbase", "nokeys")]
USES_PASS = {"Update", "ExportArm", "ExportObj", "Delete", "Sign", "ImportArm"}
COINBASE = {"SetCoinbase", "GetCoinbase"}
# every one of these (operation, result class) must be replayed for a key of EVERY kind (raw ed25519, armored secp256k1,
# created ed25519) on every backend: item (op@kind, class)
TYPED_OPS = [("ImportArm", "ok"), ("ImportArm", "badpass"), ("ImportArm", "exists"), ("Update", "ok"), ("Update", "badpass"),
             ("ExportArm", "ok"), ("ExportArm", "badpass"), ("ExportObj", "ok"), ("ExportObj", "badpass"), ("Delete", "ok"),
             ("Delete", "badpass"), ("Sign", "ok"), ("Sign", "badpass"), ("Get", "ok"), ("SetCoinbase", "ok")]
TYPED_REQUIRED = [("%s@%s" % (op, kind), cls) for kind in sorted(KIND.values()) for op, cls in TYPED_OPS]
# the EMPTY passphrase in every parameter position of every operation that takes one:
#   e-right  a successful call whose decrypt passphrase (storage / armor) is ""          e-new   a successful call that encrypts under ""
#   e-wrong  "" presented where another passphrase is needed (must fail)                e-needed  another one presented where "" is needed (must fail)
EMPTY_REQUIRED = [("e-right", op) for op in ("Update", "ExportArm", "ExportObj", "Delete", "Sign", "ImportArm")] + \
                 [("e-new", op) for op in ("Create", "ImportObj", "ArmorRaw", "Update", "ExportArm", "ImportArm")] + \
                 [("e-wrong", op) for op in ("Update", "ExportArm", "ExportObj", "Delete", "Sign", "ImportArm")] + \
                 [("e-needed", op) for op in ("Update", "ExportArm", "ExportObj", "Delete", "Sign", "ImportArm")]
# round trips and the overwrite guard, per kind of key:
#   roundtrip-export-under-empty      ExportArm under "" of a key stored under another passphrase, Delete, ImportArm with "" -> the key
#   empty-export-storage-pass-refused the same export, the key absent, ImportArm with the STORAGE passphrase -> must fail
#   export-empty-import-refused       an export under another passphrase, the key absent, ImportArm with "" -> must fail
#   reimport-refused                  ImportArm (right decrypt passphrase, ANOTHER encrypt passphrase) of a key that is stored
#                                     -> refused, and afterwards the owner's passphrase still opens the key
SCEN_REQUIRED = [(name, kind) for kind in sorted(KIND.values())
                 for name in ("roundtrip-export-under-empty", "empty-export-storage-pass-refused", "export-empty-import-refused",
                              "reimport-refused-then-owner-signs")]


def _tlc(module, cfg, d, label, timeout, **kw):
    last = None
    for _ in range(3):
        res = common.run_tlc(module, cfg, d, workers=min(8, common.NCPU), timeout=timeout, **kw)
        last = res
        if res.rc in (143, 137, -15, -9) or ("Finished in" not in res.out and not res.violated and not kw.get("simulate")):
            time.sleep(1.0)
            continue
        return res
    raise common.ToolError("%s: TLC was killed repeatedly (rc=%s)" % (label, last.rc if last else None))


def _json_lines(text):
    for line in text.splitlines():
        if line.startswith('"{'):
            try:
                yield json.loads(json.loads(line))
            except ValueError:
                continue


class Findings:
    def __init__(self):
        self.by = {}

    def add(self, sig, op, cause, what, example, repro):
        e = self.by.setdefault((sig, op, cause), {"count": 0, "examples": [], "what": what, "repro": repro})
        e["count"] += 1
        if len(e["examples"]) < 3:
            e["examples"].append(example)

    def flush(self, out):
        # one entry per kind of violation first (only the first few are printed), its other instantiations / backends after
        first, order = set(), []
        for key in sorted(self.by):
            order.append((0 if key[0] not in first else 1, key))
            first.add(key[0])
        for _, (sig, op, cause) in sorted(order):
            e = self.by[(sig, op, cause)]
            out.violation(sig=sig, what="%s [%d case(s); first: %s]" % (e["what"], e["count"], json.dumps(e["examples"][0])[:700]),
                          op=op, cause=cause, count=e["count"], examples=e["examples"], repro=e["repro"])


# ------------------------------------------------------------------------------------------------
# signatures


def _sig_class(key, sig):
    """a coarse label of the arrangement, for the evidence (what kinds of negatives were run)"""
    def atoms(s):
        return [s] if s[0] != "ms" else [a for c in s[1] for a in atoms(c)]

    def leaves(k):
        return [k] if k[0] == "k" else [a for c in k[1] for a in leaves(c)]
    at = atoms(sig)
    kinds = {a[0] for a in at}
    if key[0] == "k":
        if sig[0] == "ms":
            return "simple-key/multisig-given"
        if sig[0] != "s":
            return "simple-key/" + sig[0]
        return "simple-key/%s" % ("own-sig" if (sig[1], sig[2]) == (key[1], 1) else "other-key" if sig[2] == 1 else "other-message")
    if sig[0] != "ms":
        return "multi-key/atom-given"
    n, m = len(key[1]), len(sig[1])
    if m < n:
        return "multi-key/missing-or-truncated"
    if m > n:
        return "multi-key/extra-component"
    if "empty" in kinds:
        return "multi-key/empty-slot"
    if kinds - {"s"}:
        return "multi-key/damaged-component"
    if any(a[2] != 1 for a in at):
        return "multi-key/other-message-component"
    if sorted(a[1] for a in at) == sorted(l[1] for l in leaves(key)) and len(at) == len(leaves(key)):
        return "multi-key/same-signers-(right-or-permuted-or-renested)"
    return "multi-key/wrong-or-duplicated-signer"


def _leaf_count(key):
    return 1 if key[0] == "k" else sum(_leaf_count(c) for c in key[1])


def _nested_slots(key):
    """number of slots of a multisignature key that expect a nested multisignature (at any depth)"""
    return 0 if key[0] == "k" else sum((1 if c[0] == "mk" else 0) + _nested_slots(c) for c in key[1])


def _slot_shape_vacuity(cases):
    """The slot-shape dimension of Sigs.tla must be present in the table: for EVERY multisignature key of the
    table all slots empty, exactly one empty leaf slot at each position (the others signed in position), an empty
    nested slot as a whole, empty slots next to wrong signatures; and the specification refuses every one of them."""
    per = {}
    for c in cases:
        if c["key"][0] != "mk":
            continue
        v = c.get("slots")
        if v is None:
            raise common.ToolError("Sigs: the case table carries no slot-shape vector (slots)")
        e = per.setdefault(json.dumps(c["key"]), {"key": c["key"], "vectors": set(), "n": 0, "nE": 0})
        if "X" in v:
            continue
        e["n"] += 1
        if "E" in v:
            e["nE"] += 1
            if c["ok"]:
                raise common.ToolError("Sigs: the specification accepts a multisignature with an empty slot: %s" % json.dumps(c))
        e["vectors"].add("".join(v))
    if not per:
        raise common.ToolError("Sigs: no multisignature key in the table")
    stats = {}
    nested_keys = 0
    for ks, e in sorted(per.items()):
        n = _leaf_count(e["key"])
        need = {"E" * n, "G" * n}
        need |= {"G" * i + "E" + "G" * (n - 1 - i) for i in range(n)}          # exactly one empty, at each position
        need |= {"W" * i + "E" + "W" * (n - 1 - i) for i in range(n)}          # one empty among wrong signatures
        need.add("E")                                                          # no bytes at all where the multisignature is expected
        missing = sorted(need - e["vectors"])
        if missing:
            raise common.ToolError("Sigs: slot-shape vectors %s were not generated for key %s (vacuity)" % (missing, ks))
        if _nested_slots(e["key"]):
            nested_keys += 1
            # a nested slot empty as a whole: a vector shorter than the number of leaves
            if not any("E" in v and len(v) < n and len(v) > 1 for v in e["vectors"]):
                raise common.ToolError("Sigs: no case with an empty NESTED slot for key %s (vacuity)" % ks)
        stats[ks] = {"leaf_slots": n, "slot_shape_cases": e["n"], "with_an_empty_slot": e["nE"], "distinct_vectors": len(e["vectors"])}
    if nested_keys == 0 or nested_keys == len(per):
        raise common.ToolError("Sigs: the slot-shape table needs flat AND nested multisignature keys")
    return {"keys": stats, "cases_with_an_empty_slot": sum(x["with_an_empty_slot"] for x in stats.values()),
            "legend": "G signed in position, W a signature that does not belong there, E empty (zero bytes)"}


NON_LAST = ("first-only", "middle-only", "several-not-last")      # two keys of one length that agree in their LAST member


def _identity_vacuity(eqs, bykeys):
    """Sigs.tla parts 5 and 6 must be in the output: key pairs of every difference class (in particular pairs that
    differ ONLY in a member that is not the last one, flat and nested), and by-key assemblies for sibling
    multisignature members sharing their last, their first and no member."""
    if not eqs or not bykeys:
        raise common.ToolError("Sigs: the key-identity table (eqtable) or the by-key assembly table (bykey) was not printed")
    have = {(e["diff"], bool(e["nested"])) for e in eqs}
    need = {(d, n) for d in ("same", "length", "first-only", "middle-only", "last-only", "permuted", "kind") for n in (False, True)}
    need |= {("simple", False), ("several-not-last", False)}
    if need - have:
        raise common.ToolError("Sigs: the key-identity table lacks pairs of class %s (vacuity)" % sorted(need - have))
    if not any(e["diff"] in NON_LAST and not e["equal"] for e in eqs):
        raise common.ToolError("Sigs: no pair of keys differing only in a non-last member (vacuity)")
    if any(e["equal"] != (e["diff"] == "same") for e in eqs):
        raise common.ToolError("Sigs: the specification's KeyEquals is not structural identity")
    sib = {b["siblings"] for b in bykeys if b["index_order"]}
    if not (sib & set(NON_LAST)) or "last-only" not in sib or "several" not in sib or "flat" not in sib:
        raise common.ToolError("Sigs: by-key assembly lacks sibling multisignature members sharing their last / first / no member, or the flat control: %s" % sorted(sib))
    if not all(b["verifies"] for b in bykeys if b["index_order"]):
        raise common.ToolError("Sigs: the specification's by-key assembly in index order does not verify")


def _compare_identity(eqs, eq_resp, bykeys, bk_resp, seed, find, notes):
    """Equals must be true exactly for identical keys; signatures added BY KEY in index order must give a multisignature
    that verifies. A panic of Equals where it is asked to compare keys of different TYPES (a single key with a
    multisignature key, an ed25519 with a secp256k1 key: unchecked type assertion in the unchanged code) is recorded as
    an observation, never compared; everything else is."""
    ncmp = 0
    xtype = {}
    for e, r in zip(eqs, eq_resp):
        for inst, got in sorted(r["r"].items()):
            ncmp += 1
            want = "T" if e["equal"] else "F"
            if got == want:
                continue
            if got.startswith("panic") and "interface conversion" in got and (e["simple_vs_multi"] or inst == "mixed"):
                k = "Equals(%s): %s" % ("single key, multisignature key" if e["simple_vs_multi"] else "keys of different curves (possibly nested)", got[:160])
                xtype[k] = xtype.get(k, 0) + 1
                continue
            if got == "T":
                sig, what = "key-equals-true-for-different-keys", "Equals is true for two DIFFERENT keys (difference: %s)" % e["diff"]
            elif got == "F":
                sig, what = "key-equals-false-for-the-same-key", "Equals is false for two identical keys"
            else:
                sig, what = "key-equals-panics", "Equals panics"
            find.add(sig, "Equals", inst, what, {"keys": inst, "a": e["a"], "b": e["b"], "difference": e["diff"], "spec": e["equal"], "real": got},
                     {"driver": "cryptodrv", "args": ["sigs", "-seed", str(seed)],
                      "stdin": [json.dumps({"i": 0, "eq": [e["a"], e["b"]]}, separators=(",", ":"))], "expected": {inst: want}})
    bnotes = {}
    nprop = 0
    for b, r in zip(bykeys, bk_resp):
        for inst, got in sorted(r["r"].items()):
            ncmp += 1
            want = "T" if b["verifies"] else "F"
            n = (r.get("n") or {}).get(inst)
            if got.startswith("panic") and "interface conversion" in got and (b["simple_after_multi"] or inst == "mixed"):
                k = "AddSignature by key (%s): %s" % ("a single key listed after a multisignature key" if b["simple_after_multi"] else "key list of mixed curves", got[:160])
                xtype[k] = xtype.get(k, 0) + 1
                continue
            if b["index_order"]:
                nprop += 1
                if got != "T" or n != b["nsigs"]:
                    find.add("multisig-assembled-by-key-does-not-verify", "AddSignature", inst,
                             "every listed key signed and every signature was added under its own key with AddSignature (index order), yet the "
                             "multisignature %s (sibling members: %s)" % ("does not verify" if got == "F" else "has %s components for %d keys / %s" % (n, b["nsigs"], got), b["siblings"]),
                             {"keys": inst, "key": b["key"], "order": b["order"], "siblings": b["siblings"], "components": n, "spec_components": b["nsigs"], "real": got},
                             {"driver": "cryptodrv", "args": ["sigs", "-seed", str(seed)],
                              "stdin": [json.dumps({"i": 0, "bykey": b["key"], "order": b["order"]}, separators=(",", ":"))], "expected": {inst: "T"}})
            elif got != want or n != b["nsigs"]:
                k = "order %s of %s: model %s/%d, real %s/%s" % (b["order"], json.dumps(b["key"]), want, b["nsigs"], got[:60], n)
                bnotes[k] = bnotes.get(k, 0) + 1
    if nprop == 0:
        raise common.ToolError("Sigs: no by-key assembly in index order was executed")
    notes["key_identity"] = {
        "pairs": len(eqs), "pairs_differing_only_in_a_non_last_member": sum(1 for e in eqs if e["diff"] in NON_LAST),
        "by_key_assemblies": len(bykeys), "by_key_in_index_order_required_to_verify": nprop,
        "other_orders_not_conforming_to_the_transcription": bnotes,
        "observation_cross_type_equals_panics": xtype}
    return ncmp


def _run_sigs(d, tier, seed, out, find, notes):
    cfg = TIERS[tier]
    cases, builds, seen = [], [], set()
    eqs, bykeys = [], []
    for sc in cfg["sigs"]:
        res = _tlc("Sigs", sc, d, "Sigs", cfg["tlc_timeout"], coverage=(tier == "quick"))
        common.require_tlc_ok(res, "Sigs " + sc)
        out.add_tlc(res, "Sigs %s: VerifyBytes transcription = signed-in-position, all arrangements" % sc)
        for c in _json_lines(res.out):
            if "build" in c:
                builds = c["build"]
            elif "eqtable" in c:
                eqs = c["eqtable"]
            elif "bykey" in c:
                bykeys = c["bykey"]
            else:
                k = json.dumps([c["key"], c["sig"]])
                if k not in seen:      # the configurations overlap: every case is run once
                    seen.add(k)
                    cases.append(c)
    if not cases:
        raise common.ToolError("Sigs: TLC printed no case")
    accepted = sum(1 for c in cases if c["ok"])
    if accepted == 0:
        raise common.ToolError("Sigs: vacuous table (no accepted arrangement)")
    slot_stats = _slot_shape_vacuity(cases)
    reqs = [{"i": i, "key": c["key"], "sig": c["sig"]} for i, c in enumerate(cases)]
    reqs += [{"i": len(cases) + j, "build": b["order"]} for j, b in enumerate(builds)]
    _identity_vacuity(eqs, bykeys)
    eqs = sorted(eqs, key=lambda e: json.dumps([e["a"], e["b"]]))
    bykeys = sorted(bykeys, key=lambda e: json.dumps([e["key"], e["order"]]))
    base_eq = len(reqs)
    reqs += [{"i": base_eq + j, "eq": [e["a"], e["b"]]} for j, e in enumerate(eqs)]
    base_bk = len(reqs)
    reqs += [{"i": base_bk + j, "bykey": e["key"], "order": e["order"]} for j, e in enumerate(bykeys)]
    stdin = "\n".join(json.dumps(r, separators=(",", ":")) for r in reqs) + "\n"
    p = common.run_driver("cryptodrv", ["sigs", "-seed", str(seed)], stdin=stdin, timeout=3000)
    if p.returncode != 0:
        raise common.ToolError("cryptodrv sigs died: rc=%s %s" % (p.returncode, p.stderr[-1500:]))
    resp = [json.loads(l) for l in p.stdout.splitlines() if l.strip()]
    if len(resp) != len(reqs):
        raise common.ToolError("cryptodrv sigs: %d responses for %d cases" % (len(resp), len(reqs)))
    classes = {}
    ncmp = 0
    for c, r in zip(cases, resp):
        cl = _sig_class(c["key"], c["sig"])
        classes[cl] = classes.get(cl, 0) + 1
        for inst, got in sorted(r["r"].items()):
            ncmp += 1
            want = "T" if c["ok"] else "F"
            if got != want:
                if got.startswith("panic"):
                    sig, what = "sig-verify-panics", "VerifyBytes panics"
                elif got == "T" and "E" in (c.get("slots") or []):
                    sig, what = "sig-accepted-with-empty-slot", "VerifyBytes accepts a multisignature with the key's slot count in which a slot is EMPTY (slot shapes: G signed in position, W wrong signature, E empty)"
                elif got == "T":
                    sig, what = "sig-accepted-not-signed-in-position", "VerifyBytes accepts a signature in which not every listed key signed the message in its own position"
                else:
                    sig, what = "sig-rejected-though-signed-in-position", "VerifyBytes rejects a signature in which every listed key signed the message in its own position"
                find.add(sig, "VerifyBytes", inst, what, {"keys": inst, "key": c["key"], "sig": c["sig"], "slots": "".join(c.get("slots") or []), "spec": c["ok"], "real": got, "class": cl},
                         {"driver": "cryptodrv", "args": ["sigs", "-seed", str(seed)],
                          "stdin": [json.dumps({"i": 0, "key": c["key"], "sig": c["sig"]}, separators=(",", ":"))],
                          "expected": {inst: want}})
    # AddSignatureByIndex: conformance note (not part of the property)
    bnotes = []
    for b, r in zip(builds, resp[len(cases):]):
        model_pos = [a[1] if a[0] == "s" else 0 for a in b["sigs"]]
        for inst, pos in sorted(r.get("pos", {}).items()):
            same = pos == model_pos and r["r"][inst] == ("T" if b["verifies"] else "F")
            bnotes.append({"order": b["order"], "keys": inst, "real_positions": pos, "model_positions": model_pos,
                           "real_verifies": r["r"][inst], "model_verifies": b["verifies"], "conforms": same})
    notes["addsignaturebyindex_conformance"] = {
        "all_conform_to_transcription": all(x["conforms"] for x in bnotes),
        "orders_that_verify": sorted({json.dumps(x["order"]) for x in bnotes if x["real_verifies"] == "T"}),
        "observation": "AddSignatureByIndex pads only up to index-1: a signature added beyond the end lands one position "
                       "early, so only adding in index order yields a multisignature that verifies (not part of C19's text: "
                       "'verifies only when ...'; reported as an observation)",
        "samples": bnotes[:4]}
    ncmp += _compare_identity(eqs, resp[base_eq:base_bk], bykeys, resp[base_bk:], seed, find, notes)
    notes["sig_cases"] = len(cases)
    notes["sig_cases_accepted_by_spec"] = accepted
    notes["sig_case_classes"] = dict(sorted(classes.items()))
    notes["sig_real_verifications_compared"] = ncmp
    notes["sig_slot_shape_table"] = slot_stats
    if tier == "quick":
        notes["sigs_tlc_coverage"] = _coverage_summary(res.out, "Sigs")
    for c in [c for c in cases if c["ok"]][:1] + cases[len(cases) // 2:len(cases) // 2 + 1]:
        out.sample({"sig_case": c}, limit=8)
    return ncmp


# ------------------------------------------------------------------------------------------------
# keybase

COST = {("Create", "ok"): 1, ("ImportObj", "ok"): 1, ("ArmorRaw", "ok"): 1, ("ImportArm", "badpass"): 1, ("ImportArm", "exists"): 1,
        ("ImportArm", "ok"): 2, ("Update", "ok"): 2, ("Update", "badpass"): 1, ("ExportArm", "ok"): 4,
        ("ExportArm", "badpass"): 1, ("ExportObj", "ok"): 1, ("ExportObj", "badpass"): 1, ("Delete", "ok"): 1,
        ("Delete", "badpass"): 1, ("Sign", "ok"): 1, ("Sign", "badpass"): 1}


def _beh_cost(beh, npass):
    c = sum(COST.get((s["l"]["op"], s["l"]["res"]["class"]), 0) for s in beh)
    return c + npass * len(beh[-1]["list"]) if beh else c


PADDED = {"e": "w", "u": "v"}          # name -> the name bound to the same passphrase padded with white space
BASE_OF = {"w": "e", "v": "u"}
WS_OPS = ("Update", "ExportArm", "ExportObj", "Delete", "Sign")
# every run must replay: a call that presents the white-space-padded variant of the stored passphrase
# (must fail), one that presents the trimmed variant of a stored padded passphrase (must fail), and a
# successful call whose RIGHT passphrase has leading/trailing white space
WS_REQUIRED = [("ws-padded-wrong", op) for op in WS_OPS] + [("ws-trimmed-wrong", op) for op in WS_OPS] + \
              [("ws-right", op) for op in WS_OPS]


def _beh_items(beh):
    items = set()
    origin = {}          # (k, p) of an armor made by ExportArm -> the passphrase the key was stored under at that moment
    refused = {}         # k -> the owner's passphrase, after an ImportArm of the stored key k (right decrypt passphrase,
                         #      another encrypt passphrase) was refused and nothing has changed the key since
    prev = None
    for s in beh:
        l = s["l"]
        op, cls, k = l["op"], l["res"]["class"], l["k"]
        before = prev if prev is not None else ["-"] * len(s["st"])      # the store before the call
        prev = s["st"]
        items.add((op, cls))
        items.add((op, cls, l["p"], l["q"]))
        items.add((op, cls, len(s["list"])))
        kind = KIND.get(k)
        if kind and (op, cls) in TYPED_OPS:
            items.add(("%s@%s" % (op, kind), cls))
        stored = before[k - 1] if 1 <= k <= len(before) else "-"
        needed = l["a"]["p"] if op == "ImportArm" else stored           # the passphrase the call has to present
        if op in WS_OPS and stored != "-":
            if cls == "badpass" and PADDED.get(stored) == l["p"]:
                items.add(("ws-padded-wrong", op))
            if cls == "badpass" and BASE_OF.get(stored) == l["p"]:
                items.add(("ws-trimmed-wrong", op))
            if cls == "ok" and l["p"] in BASE_OF:
                items.add(("ws-right", op))
        if op in USES_PASS:
            if cls == "ok" and l["p"] == "e":
                items.add(("e-right", op))
            if cls == "badpass" and l["p"] == "e":
                items.add(("e-wrong", op))
            if cls == "badpass" and needed == "e":
                items.add(("e-needed", op))
        if cls == "ok" and ((op in ("Create", "ImportObj", "ArmorRaw") and l["p"] == "e") or
                            (op in ("Update", "ExportArm", "ImportArm") and l["q"] == "e")):
            items.add(("e-new", op))
        # scenarios
        if op == "ExportArm" and cls == "ok":
            origin[(k, l["q"])] = stored
        if op == "ArmorRaw" and cls == "ok":
            origin.pop((k, l["p"]), None)
        if op == "ImportArm" and kind:
            a = (l["a"]["k"], l["a"]["p"])
            if a in origin and stored == "-":
                if a[1] == "e" and origin[a] != "e" and l["p"] == "e" and cls == "ok":
                    items.add(("roundtrip-export-under-empty", kind))
                if a[1] == "e" and origin[a] != "e" and l["p"] == origin[a] and cls == "badpass":
                    items.add(("empty-export-storage-pass-refused", kind))
                if a[1] != "e" and l["p"] == "e" and cls == "badpass":
                    items.add(("export-empty-import-refused", kind))
            if cls == "exists" and l["q"] != stored:
                refused[k] = stored
        if op in ("Update", "Delete", "ImportObj", "Create") and cls == "ok" or (op == "ImportArm" and cls == "ok"):
            refused.pop(k, None)
        if op == "Sign" and cls == "ok" and refused.get(k) == l["p"] and kind:
            items.add(("reimport-refused-then-owner-signs", kind))
    return items


def _select(pool, budget, npass, rnd, must):
    """greedy cover of (op, class[, passphrases, store size]) items under a budget of scrypt runs"""
    chosen, covered, spent = [], set(), 0
    cand = list(range(len(pool)))
    items = [_beh_items(b) for b in pool]
    costs = [_beh_cost(b, npass) for b in pool]
    while cand:
        best, bestv = None, 0.0
        for i in cand:
            new = items[i] - covered
            if not new:
                continue
            w = sum(5 if (len(it) == 2 and it in must and it not in covered) else 1 for it in new)
            v = w / (costs[i] + 2.0)
            if v > bestv:
                best, bestv = i, v
        if best is None or spent + costs[best] > budget:
            break
        chosen.append(best)
        covered |= items[best]
        spent += costs[best]
        cand.remove(best)
    # fill the rest of the budget with seeded picks among behaviours that exercise passphrases
    cand = [i for i in cand if costs[i] > 0]
    rnd.shuffle(cand)
    for i in cand:
        if spent + costs[i] > budget:
            continue
        chosen.append(i)
        covered |= items[i]
        spent += costs[i]
    return [pool[i] for i in chosen], covered, spent


WS_ASCII = [" ", "\n", "\t", "\r\n", "  ", " \t\n"]
WS_UNI = ["\u00a0", "\u3000", "\u2003", "\u0085", "\u2028", "\u00a0 "]


def _passes(seed, n):
    """One binding of the passphrase names per behaviour: "e" empty, "w" white space only, "u" a base
    passphrase (unicode / long / plain), "v" = "u" with ASCII or unicode white space added before
    and/or after.  All four are different strings."""
    rnd = random.Random(seed * 15485863 + 7)
    out = []
    for i in range(n):
        kind = i % 4
        if kind == 0:
            u = rnd.choice(["пароль-密码-🔑", "contraseña ñ ü 😀", "パスワード ß", "abc\u0000def"])
        elif kind == 1:
            u = "".join(rnd.choice("abcdefghijklmnopqrstuvwxyzABCDEFGHIJKLMNOPQRSTUVWXYZ0123456789 !@#$%^&*()")
                        for _ in range(rnd.choice([257, 1024, 4096]))).strip() or "x"
        else:
            u = rnd.choice(["hunter2", "pw", "correct horse battery staple", "p w"])
        ws = rnd.choice(WS_ASCII if i % 2 == 0 else WS_UNI)
        ws2 = rnd.choice(WS_ASCII + WS_UNI)
        v = {0: u + ws, 1: ws + u, 2: ws + u + ws2}[rnd.randrange(3)]
        w = rnd.choice(WS_ASCII + WS_UNI + [" \u00a0\n"])
        out.append({"e": "", "w": w, "u": u, "v": v})
    return out


def _compare_behaviours(backend, behs, resp, find, notes, job):
    by = {}
    for r in resp:
        by.setdefault(r["b"], []).append(r)
    nsteps, nconf = 0, 0
    class_notes = {}
    cb_notes = {}
    for b, beh in enumerate(behs):
        rs = sorted(by.get(b, []), key=lambda r: r["i"])
        if len(rs) < len(beh):
            raise common.ToolError("cryptodrv keybase (%s): behaviour %d has %d results for %d steps" % (backend, b, len(rs), len(beh)))

        def viol(sig, op, what, i, extra):
            find.add(sig, op, backend, what,
                     dict({"backend": backend, "behaviour_index": b, "step": i, "call": beh[i]["l"] if i < len(beh) else "probe",
                           "prefix": [s["l"]["op"] + "/" + s["l"]["res"]["class"] for s in beh[:i]]}, **extra),
                     {"driver": "cryptodrv", "args": ["keybase"],
                      "job": {"seed": job["seed"], "backend": backend, "passes": (job.get("passes_by") or [job["passes"]] * (b + 1))[b],
                              "nknown": job["nknown"], "nk": job["nk"], "secp": job.get("secp", []), "probe": True, "workers": 1, "behaviours": [beh]},
                      "failing_step": i})

        diverged = False
        for i, (s, r) in enumerate(zip(beh, rs)):
            l = s["l"]
            op, exp = l["op"], l["res"]
            nsteps += 1
            if r.get("panic"):
                viol("keybase-call-panics", op, "keybase call panics", i, {"panic": r["panic"]})
                diverged = True
                break
            if op in COINBASE:
                # the cached coinbase is recorded as the code does it; not part of the property
                if (r["ok"], r["key"] if r["ok"] else 0) != (exp["class"] == "ok", exp["key"]):
                    cb_notes["%s model %s/%s real %s/%s" % (op, exp["class"], exp["key"], r["class"], r["key"])] = \
                        cb_notes.get("%s model %s/%s real %s/%s" % (op, exp["class"], exp["key"], r["class"], r["key"]), 0) + 1
            else:
                if r["ok"] and exp["class"] != "ok":
                    if exp["class"] == "badpass":
                        viol("keybase-wrong-passphrase-accepted", op, "a call with a wrong passphrase succeeds", i, {"real": r})
                    elif exp["class"] == "exists":
                        viol("keybase-import-overwrites-stored-key", op, "an import of a key that is already in the keybase is accepted instead of refused "
                             "(%s key %d; the stored key is re-encrypted under the importer's passphrase)" % (KIND.get(l["k"], "?"), l["k"]), i, {"real": r})
                    else:
                        viol("keybase-call-succeeds-unexpectedly", op, "the model's call fails (%s), the real one succeeds" % exp["class"], i, {"real": r})
                    diverged = True
                elif not r["ok"] and exp["class"] == "ok":
                    viol("keybase-right-passphrase-rejected" if op in USES_PASS else "keybase-call-fails-unexpectedly", op,
                         "the model's call succeeds, the real one fails", i, {"real": r})
                    diverged = True
                elif r["ok"] and exp["key"] != 0 and r["key"] != exp["key"]:
                    viol("keybase-wrong-key-returned", op, "the call returns another key / address than the model's", i, {"real": r, "model_key": exp["key"]})
                    diverged = True
                elif not r["ok"] and r["class"] != exp["class"] and not (exp["class"] == "badarmor"):
                    k = "%s: model %s, real %s" % (op, exp["class"], r["class"])
                    class_notes[k] = class_notes.get(k, 0) + 1
            if sorted(r["list"]) != sorted(s["list"]):
                if exp["class"] != "ok":
                    viol("keybase-store-changed-by-failed-call", op, "List() changed although the call must fail and leave no trace", i,
                         {"real_list": r["list"], "model_list": s["list"], "real": r})
                else:
                    viol("keybase-list-differs", op, "List() after the call differs from the model's key set", i,
                         {"real_list": r["list"], "model_list": s["list"], "real": r})
                diverged = True
            for name, ok in sorted((r.get("checks") or {}).items()):
                if not ok:
                    viol("keybase-" + name.replace("_", "-") + "-false", op, "check '%s' is false on the real keybase" % name, i, {"real": r})
                    # what an exported armor holds / opens under concerns the client's copy only: the keybase is still
                    # in step with the model, the behaviour goes on (a later import of that armor is judged on its own)
                    if not name.startswith("export_"):
                        diverged = True
            nconf += 1
            if diverged:
                break
        if diverged:
            continue
        if len(rs) > len(beh) and rs[-1]["op"] == "Probe" and beh:
            st = beh[-1]["st"]
            pr = rs[-1].get("probe") or {}
            for k in beh[-1]["list"]:
                for pname in (job.get("passes_by") or [job["passes"]] * (b + 1))[b]:
                    want = st[k - 1] == pname
                    got = (pr.get(str(k)) or {}).get(pname)
                    nconf += 1
                    if got is not want:
                        viol("keybase-passphrase-state-differs", "Probe",
                             "key %d %s under passphrase %r on the real keybase, the model says %s" % (k, "opens" if got else "does not open", pname, "it opens" if want else "it does not"),
                             len(beh), {"key": k, "pass": pname, "model_store": st, "probe": pr})
    notes.setdefault("keybase_error_class_nonconformance", {})[backend] = class_notes
    notes.setdefault("keybase_coinbase_nonconformance", {})[backend] = cb_notes
    return nsteps, nconf


def _run_keybase(d, tier, seed, out, find, notes):
    cfg = TIERS[tier]
    res = _tlc("Keybase", cfg["kb"], d, "Keybase exhaustive", cfg["tlc_timeout"], coverage=True)
    common.require_tlc_ok(res, "Keybase " + cfg["kb"])
    out.add_tlc(res, "Keybase %s: every transition satisfies StepOK" % cfg["kb"])
    cov = {}
    for m in re.finditer(r"<(\w+) line (\d+), col \d+ to line \d+, col \d+ of module Keybase(?: \([\d ]+\))?>: (\d+):(\d+)", res.out):
        name = m.group(1) if m.group(1) != "Next" else "ImportArm(Next@%s)" % m.group(2)
        cov[name] = (int(m.group(3)), int(m.group(4)))
    notes["keybase_action_coverage_distinct_generated"] = {a: list(v) for a, v in sorted(cov.items())}
    if len(cov) < 14:
        raise common.ToolError("Keybase: coverage lists only %d actions" % len(cov))
    never = [a for a, v in cov.items() if v[1] == 0 and a not in ("Init",)]
    if never:
        raise common.ToolError("Keybase: actions never taken in the exhaustive run (vacuous): %s" % never)
    notes["keybase_tlc_coverage"] = _coverage_summary(res.out, "Keybase")
    # behaviours from the simulator
    pool, seen = [], set()
    must = set(REQUIRED) | set(WS_REQUIRED)
    for attempt in range(6):
        sim = _tlc("Keybase", cfg["kbsim"], d, "Keybase simulation", cfg["tlc_timeout"],
                   simulate="num=%d" % cfg["sim_num"], depth=cfg["depth"] + 1, seed=seed * 10 + attempt)
        if sim.violated or sim.error:
            raise common.ToolError("Keybase simulation: %s %s" % (sim.violated, sim.error))
        for c in _json_lines(sim.out):
            beh = c.get("behaviour")
            if not beh:
                continue
            key = json.dumps(beh, sort_keys=True)
            if key not in seen:
                seen.add(key)
                pool.append(beh)
        have = set()
        for b in pool:
            have |= {it for it in _beh_items(b) if len(it) == 2}
        if must <= have:
            break
    missing = must - have
    if missing:
        raise common.ToolError("Keybase simulation never produced %s (vacuity)" % sorted(missing))
    notes["keybase_behaviour_pool"] = len(pool)
    # scenario programs: the case tables RoundTrip / Life of Keybase.tla, run by TLC with the specification's own actions
    pres = _tlc("Keybase", cfg["kbprog"], d, "Keybase scenario programs", cfg["tlc_timeout"])
    common.require_tlc_ok(pres, "Keybase " + cfg["kbprog"])
    out.add_tlc(pres, "Keybase %s: scenario programs (round trip, life of a key; all keys x all passphrases), StepOK on every step" % cfg["kbprog"])
    progs, fams = [], {}
    for c in _json_lines(pres.out):
        if c.get("program"):
            progs.append(c["program"])
            fams[c["tag"][0]] = fams.get(c["tag"][0], 0) + 1
    if set(fams) != {"RoundTrip", "Life"} or min(fams.values()) < 3 * 16:
        raise common.ToolError("Keybase scenario programs: TLC printed %s (vacuity)" % fams)
    notes["keybase_scenario_programs"] = dict(fams)
    must_all = must | set(TYPED_REQUIRED) | set(EMPTY_REQUIRED) | set(SCEN_REQUIRED)
    prog_items = [_beh_items(b) for b in progs]
    prog_costs = [_beh_cost(b, 4) for b in progs]
    rnd = random.Random(seed * 2654435761 % (2 ** 31))
    jobs = {}
    for backend in BACKENDS:
        behs, covered, spent = _select(pool, cfg["budget"][backend], 4, rnd, must)
        miss = must - {it for it in covered if len(it) == 2}
        if miss:
            raise common.ToolError("Keybase (%s): the budget of %d scrypt runs does not cover %s" % (backend, cfg["budget"][backend], sorted(miss)))
        nsim = len(behs)
        chosen, covered, pspent = _select_programs(progs, prog_items, prog_costs, cfg["budget_prog"][backend], rnd, must_all, covered)
        miss = must_all - {it for it in covered if len(it) == 2}
        if miss:
            raise common.ToolError("Keybase (%s): the selected behaviours and scenario programs (budget %d + %d scrypt runs) do not cover %s"
                                   % (backend, cfg["budget"][backend], cfg["budget_prog"][backend], sorted(miss)))
        behs = behs + chosen
        passes_by = _passes(seed, len(behs))
        jobs[backend] = dict(behs=behs, covered=covered, spent=spent, pspent=pspent, nsim=nsim, passes_by=passes_by,
                             job={"seed": seed, "backend": backend, "passes": passes_by[0] if passes_by else {}, "passes_by": passes_by,
                                  "nknown": NKNOWN, "nk": NK, "secp": SECP, "probe": True, "workers": cfg["workers"][backend], "behaviours": behs})

    # the three keybases are driven at the same time (scrypt is what costs)
    def drive(j):
        t0 = time.time()
        try:
            j["p"] = common.run_driver("cryptodrv", ["keybase"], stdin=json.dumps(j["job"]), timeout=3000)
        except Exception as e:      # reported below, in the main thread
            j["exc"] = e
        j["wall"] = round(time.time() - t0, 1)
    threads = [threading.Thread(target=drive, args=(jobs[b],)) for b in BACKENDS]
    for t in threads:
        t.start()
    for t in threads:
        t.join()
    total_steps = 0
    ncompared = 0
    for backend in BACKENDS:
        j = jobs[backend]
        if "exc" in j:
            raise j["exc"]
        p, behs = j["p"], j["behs"]
        if p.returncode != 0:
            raise common.ToolError("cryptodrv keybase (%s) died: rc=%s %s" % (backend, p.returncode, p.stderr[-1500:]))
        resp = [json.loads(l) for l in p.stdout.splitlines() if l.strip()]
        nsteps, nconf = _compare_behaviours(backend, behs, resp, find, notes, j["job"])
        # vacuity on the REAL side: keys of both types lived in this keybase, and "" was really presented
        real_kinds = {}
        for r in resp:
            for k in r.get("list") or []:
                if r["op"] != "Probe" and k in KIND:
                    real_kinds[KIND[k]] = real_kinds.get(KIND[k], 0) + 1
        lacking = sorted(set(KIND.values()) - set(real_kinds))
        if lacking and not find.by:
            raise common.ToolError("Keybase (%s): no key of kind %s was ever listed by the real keybase (vacuity)" % (backend, lacking))
        if any(pb["e"] != "" for pb in j["passes_by"]):
            raise common.ToolError("Keybase: the passphrase name e is not bound to the empty string")
        total_steps += nsteps
        ncompared += len(behs)
        covered = j["covered"]
        notes.setdefault("keybase_replay", {})[backend] = {
            "behaviours": len(behs), "simulated_behaviours": j["nsim"], "scenario_programs": len(behs) - j["nsim"],
            "steps": nsteps, "comparisons": nconf, "scrypt_runs_budgeted": j["spent"], "scrypt_runs_budgeted_programs": j["pspent"],
            "wall_s": j["wall"],
            "op_class_pairs_covered": len(set(REQUIRED) & covered), "white_space_items_covered": len(set(WS_REQUIRED) & covered),
            "op_class_per_key_kind_covered": len(set(TYPED_REQUIRED) & covered), "empty_passphrase_items_covered": len(set(EMPTY_REQUIRED) & covered),
            "round_trip_and_overwrite_scenarios_covered": len(set(SCEN_REQUIRED) & covered),
            "steps_with_key_kind_listed_by_the_real_keybase": dict(sorted(real_kinds.items())),
            "items_covered": len(covered)}
        if backend == "mem" and behs:
            out.sample({"keybase_behaviour": [(s["l"]["op"], s["l"]["k"], s["l"]["p"], s["l"]["q"], s["l"]["res"]["class"]) for s in behs[0]]}, limit=8)
            out.sample({"keybase_scenario_program": [(s["l"]["op"], s["l"]["k"], s["l"]["p"], s["l"]["q"], s["l"]["res"]["class"]) for s in behs[-1]]}, limit=8)
    passes_by = jobs["mem"]["passes_by"]
    notes["keybase_passphrase_bindings_first_4"] = [
        {k: (v if len(v) < 40 else "%s... (%d chars)" % (v[:20], len(v))) for k, v in pb.items()} for pb in passes_by[:4]]
    return ncompared, total_steps


def _select_programs(progs, items, costs, budget, rnd, must, covered):
    """scenario programs for one backend: first a greedy cover of the required items the simulated behaviours
    left uncovered (cheapest program per newly covered required item), then seeded picks up to the budget"""
    covered = set(covered)
    chosen, spent = [], 0
    cand = set(range(len(progs)))
    while True:
        need = must - covered
        if not need:
            break
        best, bestv = None, 0.0
        for i in cand:
            n = len(items[i] & need)
            if n and n / (costs[i] + 2.0) > bestv:
                best, bestv = i, n / (costs[i] + 2.0)
        if best is None:
            break
        chosen.append(best)
        covered |= items[best]
        spent += costs[best]
        cand.discard(best)
    rest = sorted(cand)
    rnd.shuffle(rest)
    for i in rest:
        if spent + costs[i] > budget:
            if budget - spent < 8:
                break
            continue
        chosen.append(i)
        covered |= items[i]
        spent += costs[i]
    return [progs[i] for i in chosen], covered, spent


def _coverage_summary(text, module):
    sites, zero = 0, []
    for m in re.finditer(r"line (\d+), col (\d+) to line (\d+), col (\d+) of module %s: (\d+)" % module, text):
        sites += 1
        if int(m.group(5)) == 0:
            zero.append("line %s col %s-%s" % (m.group(1), m.group(2), m.group(4)))
    return {"expression_sites": sites, "never_evaluated": sorted(set(zero))[:20]}


ASSUMPTIONS = [
    "The ed25519 / secp256k1 primitives are trusted to be signature schemes (a signature verifies under exactly the key and "
    "message it was made with); the binding observes them on every generated negative case (other key, other message, "
    "flipped byte, dropped byte, no bytes, cross-type).",
    "scrypt + AES-GCM is modelled by its contract: an armor opens iff the passphrase is the one it was encrypted with.",
    "Keybase behaviours and scenario programs are replayed on keys.NewInMemory(), on the same dbKeybase over a GoLevelDB that stays open "
    "(the package exports no constructor for it: the database field of an in-memory keybase is replaced through reflection) and on the "
    "lazy keybase keys.New (LevelDB opened and closed by every call). A secp256k1 key enters a keybase only as an armor "
    "(mintkey.EncryptArmorPrivKey by the client, then ImportPrivKey); ImportPrivateKeyObject and Create handle ed25519 keys only.",
    "What an exported armor holds and which passphrase opens it (the abstraction of the client's armors) is observed right after "
    "ExportPrivKeyEncryptedArmor with mintkey.UnarmorDecryptPrivKey: it opens under the export passphrase, holds the exported key, and "
    "stays closed under the storage passphrase when the two differ.",
    "Compared as normative: success/failure of each keybase call, the key/address it returns, List() after every call, "
    "verification of keybase signatures under the listed public key, and which passphrase opens which key at the end of a "
    "behaviour. Error classes (messages) and the cached coinbase are recorded as nonconformance notes only.",
    "The multisignature property is read as in the statement: VerifyBytes accepts exactly the arrangements in which every "
    "listed key signed the message in its own position (nested keys recursively). MultiSignature.AddSignatureByIndex is "
    "not fixed by the property; its transcription is compared as a conformance note.",
    "Key trees have depth <= 2 and at most 3 leaf keys, arrangements at most MaxLeaves atoms (the slot-shape table adds keys with 4 leaf slots); keybase behaviours are drawn "
    "from 3 keys (a raw ed25519 key, an armored secp256k1 key, a key generated inside) x 4 passphrases (empty; white space only; a base passphrase that is unicode, long or plain; the base padded with ASCII or unicode white space - bound per behaviour) with at most 2 kept armors (exhaustive run of the quick tier: 1); GetCoinbase without a cached value is "
    "modelled only when at most one key is listed.",
]


def run(prop, tier, seed):
    out = common.Outcome(prop, tier, seed)
    find = Findings()
    notes = out.notes
    phase = notes.setdefault("phase_wall_s", {})
    common.build_harness(["cryptodrv"])
    with common.Scratch() as d:
        t0 = time.time()
        n1 = _run_sigs(d, tier, seed, out, find, notes)
        phase["sigs"] = round(time.time() - t0, 1)
        t0 = time.time()
        nb, nsteps = _run_keybase(d, tier, seed, out, find, notes)
        phase["keybase"] = round(time.time() - t0, 1)
    out.cov["traces_validated_against_impl"] = n1 + nb
    notes["keybase_steps_replayed"] = nsteps
    out.cov["exhaustive"] = True
    out.assumptions += ASSUMPTIONS
    find.flush(out)
    return out


def replay(prop, path):
    with open(path) as fh:
        rec = json.load(fh)
    v = rec["violation"]
    rp = v.get("repro") or {}
    common.build_harness(["cryptodrv"])
    print("violation: sig=%s op=%s cause=%s" % (v.get("sig"), v.get("op"), v.get("cause")))
    if "job" in rp:
        p = common.run_driver("cryptodrv", ["keybase"], stdin=json.dumps(rp["job"]), timeout=600)
        resp = [json.loads(l) for l in p.stdout.splitlines() if l.strip()]
        beh = rp["job"]["behaviours"][0]
        f = Findings()
        _compare_behaviours(rp["job"]["backend"], [beh], resp, f, {}, rp["job"])
        for s, r in zip(beh, resp):
            print("  %-12s k=%s p=%s q=%s  model %s/%s list %s | real %s/%s list %s" % (
                s["l"]["op"], s["l"]["k"], s["l"]["p"], s["l"]["q"], s["l"]["res"]["class"], s["l"]["res"]["key"], s["list"],
                r["class"], r["key"], r["list"]))
        print("the behaviour %s on the real keybase" % ("still diverges from the model" if f.by else "now conforms to the model"))
        return 1 if f.by else 0
    lines = rp.get("stdin", [])
    p = common.run_driver("cryptodrv", rp.get("args", ["sigs"]), stdin="\n".join(lines) + "\n", timeout=300)
    print("case     :", *lines, sep="\n  ")
    print("real code:", p.stdout.strip())
    print("required :", json.dumps(rp.get("expected")))
    still = True
    try:
        r = json.loads(p.stdout.splitlines()[0])
        still = any(r["r"].get(k) != w for k, w in (rp.get("expected") or {}).items())
    except (ValueError, IndexError, KeyError):
        pass
    print("the real outcome %s the required one" % ("still differs from" if still else "now equals"))
    return 1 if still else 0
