"""C12 / C13 / C14: rootmulti + IAVL versions + pruning + commit protocol + crash + queries.

Technique (the only one): model-based verification with the explicit TLA+ specification
spec/MultiStore.tla, bound to the real Go code in both directions.

  1. TLC checks the property's named invariants exhaustively on small constants
     (spec/MC_MultiStore_<prop>*.cfg).  For C13 the crash-safe design (Dev = {}) must satisfy the
     invariants; for each named deviation of the code TLC is asked for the shortest violating
     behaviour (MC_MultiStore_C13dev_*.cfg, expected to fail) and that behaviour is replayed on the
     real code: if it reproduces, the deviation is real (a finding) and the recording runs below use
     the model WITH it so that the model keeps describing the code.
  2. spec -> code: TLC -simulate emits recorded behaviours (history variable; every step carries the
     state / results the spec computed, commit steps as separate durable writes in the store order
     TLC chose).  Every behaviour is replayed by harness/cmd/storedrv on real rootmulti+iavl over
     MemDB (thorough: also GoLevelDB) and after every step the projected real state, every
     LoadVersion outcome, every Query result and the verdict of the real proof runtime are compared
     with the spec's.  A crash inside Commit is reached with crashdb (a dbm.DB that numbers every
     durable write and panics at write k); the sub-store order of the Go map iteration is matched by
     retrying.
  3. exhaustive fault enumeration (C13): for every commit of every replayed behaviour and every
     k <= number of durable writes: crash before write k, reopen a copy, compare with the outcomes
     the spec allows (exactly version n or exactly n+1 in all stores), re-execute, compare the hash
     with the uninterrupted run.  The write log of every commit is compared with the writes of the
     spec's commit protocol.
  4. code -> spec: `storedrv record` runs seeded random longer histories (>= 120 commits in the
     thorough tier so that PruneSyncable prunes), logs ndjson events, and TLC validates the log with
     spec/Trace_MultiStore.tla (real store hashes as tokens).

Two extensions of the modelled API use (MultiStore.tla header): LoadVersion(v) on the LIVE handle
(action LiveLoad: a failing load changes nothing, a succeeding one moves the handle; generated in the
exhaustive models, the simulated behaviours - driver step `liveload` - and the recorded histories),
and pruning options given as a STRATEGY STRING: the model resolves it with its transcription of
store.NewPruningOptionsFromString (StrategyOpts), the driver with the real function.  Every violation
record carries the MODEL's kr / ke and the strategy string.

The Go driver executes and projects only; expected values come from the spec (TLC output).
"""
import json
import os
import random
import re
import sys
import threading
import time

import common

NEEDS = {"cmds": ["storedrv", "posdrv"], "specs": ["MultiStore", "Trace_MultiStore", "Posmint", "PosmintSim", "Trace_Posmint"]}

STORES = ["s1", "s2"]
TSTORE = "t1"
NPRUN = 13  # PruningSeq in MultiStore.tla
CODE_DEVS = ["PruneBeforeFlush", "LoadZeroLoadsLatest"]
MAXW = min(8, common.NCPU)  # the machine is shared: never more than 8 TLC workers

# which violation signatures are normative for which property (DESIGN 6.2); everything else that
# differs is recorded as nonconformance in the evidence file only
NORMATIVE = {
    "C12": {"version-step", "commit-id-not-reported-by-fresh-store", "reopen-fails", "reopen-wrong-version",
            "reopen-wrong-content", "reopen-hash-differs-from-commit", "retained-version-unreadable",
            "retained-version-unreadable-live", "pruned-version-readable", "loaded-version-wrong-content",
            "loaded-version-hash-differs-from-commit", "versioned-view-wrong-content",
            "transient-not-empty-after-commit", "transient-not-empty-after-reopen", "commit-changes-content",
            "working-content-differs", "prune-rule-differs", "commit-panics", "save-conflict",
            # LoadVersion on the live handle: all or nothing
            "failed-load-changes-handle", "live-load-wrong-version", "live-load-wrong-content",
            "live-load-hash-differs-from-commit", "live-load-panics"},
    "C13": {"crash-reexec-panics", "commit-panics", "crash-reopen-fails", "crash-mixture", "crash-content-version-mismatch", "crash-wrong-version",
            "crash-reexec-fails", "crash-reexec-hash-differs", "crash-reexec-wrong-content",
            "crash-reexec-not-durable", "flush-not-atomic", "save-after-flush",
            "hash-not-function-of-history", "crash-wrong-data-loaded"},
    "C14": {"query-wrong-value", "query-wrong-height", "query-error-differs", "query-proof-presence-differs",
            "query-not-the-committed-value", "query-data-for-pruned-or-future-height",
            "proof-does-not-verify-at-its-height", "proof-verifies-wrong-height", "proof-proves-something-else",
            "query-panics", "subspace-not-the-committed-pairs", "subspace-not-in-key-order"},
}

TIERS = {
    "quick": {
        "mc": {
            # strats: strategy strings of the exhaustive run ("?" = one unrecognised string, see run_mc)
            "C12": [("MC_MultiStore_C12.cfg", {"Vals": '{"x"}', "nprun": 5, "strats": ["everything", "?"]}, 400)],
            "C13": [("MC_MultiStore_C13.cfg", {"Vals": '{"x"}', "nprun": 7, "strats": ["everything", "?"]}, 400),
                    ("MC_MultiStore_C13_code.cfg", {"Vals": '{"x"}', "nprun": 4, "strats": ["everything", "?"]}, 300)],
            "C14": [("MC_MultiStore_C14.cfg", {"Vals": '{"x"}', "nprun": 3, "strats": ["everything", "?"]}, 600)],
        },
        "sim_workers": 4, "sim_num": 60, "fault_every": 1, "ldb_share": 0.0,
        # every seed has one option of each asymmetric shape, given to the store BEFORE loading:
        # A (kr>=2, ke=0), B (kr=0, ke>=2), C (kr>=1, ke>=2, kr != ke) -- confused arguments show
        # strat: the options come from a strategy string ("?" = an unrecognised one drawn by the seed);
        # pll: probability of LoadVersion calls on the live handle after a commit
        "records": {
            "C12": [dict(commits=30, pr="A", spal=False, pll=0.5), dict(commits=30, pr="B", spal=False, pll=0.5),
                    dict(commits=30, pr="C", spal=False, pll=0.5), dict(commits=40, pr="rand", pll=0.5),
                    dict(commits=25, strat="everything", pll=0.7), dict(commits=25, strat="?", pll=0.5)],
            "C13": [dict(commits=30, pr="A", spal=False, pll=0.3), dict(commits=30, pr="rand", pll=0.3),
                    dict(commits=20, strat="?", pll=0.3)],
            "C14": [dict(commits=45, pr="rand", pll=0.3), dict(commits=45, pr="rand", pll=0.3), dict(commits=30, pr=1, pll=0.3),
                    dict(commits=30, strat="nothing", pll=0.3), dict(commits=20, strat="?", pll=0.3)],
        },
    },
    "thorough": {
        "mc": {
            "C12": [("MC_MultiStore_C12_thorough.cfg", {"Vals": '{"x"}', "strats": "all"}, 3000),
                    ("MC_MultiStore_C12_wide.cfg", {"strats": ["everything"]}, 1500)],
            "C13": [("MC_MultiStore_C13_thorough.cfg", {"Vals": '{"x"}', "strats": "all"}, 3000),
                    ("MC_MultiStore_C13_code.cfg", {"Vals": '{"x"}', "strats": "all"}, 1500)],
            "C14": [("MC_MultiStore_C14_thorough.cfg", {"Vals": '{"x"}', "strats": "all"}, 3000),
                    ("MC_MultiStore_C14_wide.cfg", {"strats": ["everything"]}, 2200)],
        },
        "sim_workers": 8, "sim_num": 150, "fault_every": 1, "ldb_share": 0.15,
        "records": {
            "C12": [dict(commits=130, pr=13, pll=0.4), dict(commits=130, pr=1, pll=0.4), dict(commits=130, pr=2, pll=0.4)] +
                   [dict(commits=130, pr="rand", pll=0.4) for _ in range(6)] +
                   [dict(commits=60, pr=13, backend="goleveldb", pll=0.4), dict(commits=60, pr="rand", backend="goleveldb", pll=0.4)] +
                   [dict(commits=130, strat=s, pll=0.4) for s in ("syncable", "", "Nothing", "archive")] +
                   [dict(commits=40, strat=s, pll=0.4) for s in ("everything", "nothing")],
            "C13": [dict(commits=130, pr=13, pll=0.3), dict(commits=80, pr="rand", pll=0.3), dict(commits=80, pr=1, pll=0.3)] +
                   [dict(commits=40, strat=s, pll=0.3) for s in ("", "Nothing", "archive", "everything")],
            "C14": [dict(commits=130, pr=13, pll=0.3), dict(commits=130, pr=1, pll=0.3), dict(commits=130, pr=2, pll=0.3)] +
                   [dict(commits=130, pr="rand", pll=0.3) for _ in range(6)] +
                   [dict(commits=130, strat="?", pll=0.3), dict(commits=40, strat="nothing", pll=0.3)],
        },
    },
}
# indices into PRUNING_SEQ by shape
SHAPES = {"A": [9], "B": [3, 4], "C": [7, 8, 12], "shipped": [1, 2]}
PRUNING_SEQ = [(0, 0), (0, 1), (0, 2), (0, 3), (1, 0), (1, 1), (1, 2), (1, 3), (2, 0), (2, 1), (2, 2), (2, 3), (100, 10000)]
# strategy strings (MultiStore.tla: Strategies / StrategyOpts).  Nothing here says what they resolve to:
# the model's options come from TLC (HIST / CONF lines), the real ones from the driver.
NO_STRATEGY = "<pair>"
RECOGNISED = ["nothing", "everything", "syncable"]
UNRECOGNISED = ["", "Nothing", "archive"]   # unset option, wrong case, unknown word
SIM_STRATEGIES = RECOGNISED + UNRECOGNISED    # = Strategies of MC_MultiStore_sim*.cfg


# Key palettes: the specification's keys are opaque names; the driver maps them to bytes letter by
# letter (storelib.Cfg.Palette: letter -> hex image, prefix-free images => injective and prefix
# preserving).  In P1..P3 some name of the alphabet starts with the byte 0xFF; in P0, P1, P3 the
# successor of the prefix "a" (PrefixEndBytes) is exactly the key "b"; in P1 / P2 a prefix is all 0xFF.
PALETTES = [
    {},                                         # P0 identity
    {"a": "feff", "b": "ff", "c": "00"},        # P1
    {"a": "ff", "b": "00", "c": "01"},          # P2
    {"a": "ff01", "b": "ff02", "c": "fe"},      # P3
    {"a": "00", "b": "01", "c": "ffff"},        # P4
    {"a": "00", "b": "01", "c": "02"},          # P5 (no 0xFF anywhere)
]
# which palettes a check draws from.  With 0xFF in stored or queried keys the range proofs of the iavl
# v0.12.4 dependency show further faces of its cpIncr defect: a proved query for an all-0xFF key panics
# ("if keyStart and keyEnd are present, need keyStart < keyEnd": class `proved-all-ff-key`, known finding
# KF-C14-proof-query-all-ff-key-panics) and two more classes of absence proofs do not verify
# (KF-C14-absence-proof-ff-leading-*).  directed_ff_witness() shows these three in every C14 run.
# SAMPLED proved queries are only issued under palettes without a 0xFF byte (P0, P5, drawn twice as
# often in C14): under P1 a further class of non-verifying absence proofs showed at once
# (left=pred;early_stop=False;skips_leaf=False;succ=True: keys feff and ff stored, feffff asked) and the
# family is open-ended; it is one defect of the dependency, reported, and not enumerated class by class.
# Unproved /key queries and /subspace queries run under every palette.
PALSETS = {"all": [0, 1, 2, 3, 4], "C14": [0, 0, 5, 5, 1, 2, 3]}


def has_ff(pal):
    return any("ff" in [v[i:i + 2].lower() for i in range(0, len(v), 2)] for v in (pal or {}).values())


def conc(pal, name):
    out = b""
    for ch in name:
        out += bytes.fromhex(pal[ch]) if ch in (pal or {}) else ch.encode()
    return out


def pick_palette(rng, palset="all"):
    ids = PALSETS[palset]
    return PALETTES[ids[rng.randrange(len(ids))]]


def tla_set(xs):
    return "{" + ", ".join('"%s"' % x for x in xs) + "}"


def strat_of(h):
    """Strategy string of a behaviour printed by TLC (None: the pair was given directly)."""
    s = h.get("strat")
    return None if s is None or s == NO_STRATEGY else s


# ------------------------------------------------------------------------------------------------
# small helpers


def cfg_text(name, subs):
    with open(os.path.join(common.SPEC, name)) as fh:
        t = fh.read()
    for k, v in subs.items():
        t, n = re.subn(r"(?m)^  %s = .*$" % re.escape(k), "  %s = %s" % (k, v), t)
        if n != 1:
            raise common.ToolError("cfg %s has no constant %s" % (name, k))
    return t


def pick_prunings(rng, n):
    """Always PruneEverything; the rest drawn by the seed (all pairs are covered over a few seeds,
    and all of them in the thorough tier)."""
    rest = list(range(2, NPRUN + 1))
    rng.shuffle(rest)
    return sorted([1] + rest[:max(0, n - 1)])


def parse_printed(out, tag):
    """Lines printed by PrintT(<<"TAG", ToJson(x)>>)."""
    res = []
    pat = re.compile(r'^<<"%s", "(.*)">>\s*$' % tag)
    for line in out.splitlines():
        m = pat.match(line)
        if not m:
            continue
        try:
            res.append(json.loads(json.loads('"' + m.group(1) + '"')))
        except ValueError as e:
            raise common.ToolError("cannot parse %s line from TLC: %s" % (tag, e))
    return res


def nmap(m):
    """spec map -> python dict ([] is the empty function)."""
    if m is None or m == []:
        return {}
    return dict(m)


def nstores(st):
    return {s: nmap((st or {}).get(s)) for s in STORES}


def rstores(st):
    return {s: dict((st or {}).get(s) or {}) for s in STORES}


def nval(v):
    return None if v == "<nil>" else v


def cp_incr(b):
    """iavl's cpIncr: the smallest byte string greater than every string with prefix b."""
    r = bytearray(b)
    for i in range(len(r) - 1, -1, -1):
        if r[i] < 255:
            r[i] += 1
            return bytes(r)
        r[i] = 0
    return None


def proof_class(key, value, content, pal=None):
    """Input class of a proved query: existence, or absence with the position of the key among
    the keys present at that height (used to give proof findings a precise signature)."""
    if value is not None:
        return {"proof_kind": "value"}
    if content is None:
        return {"proof_kind": "absence", "absence_cls": "unknown"}
    kb = conc(pal, key)
    ks = sorted(conc(pal, k) for k in content)
    if key in content:
        return {"proof_kind": "absence", "absence_cls": "key-is-present"}
    if not ks:
        return {"proof_kind": "absence", "absence_cls": "empty-store"}
    pred = [k for k in ks if k < kb]
    succ = [k for k in ks if k > kb]
    # the leaf iavl's getRangeProof starts from, and the two places where it uses cpIncr(left)
    left = pred[-1] if pred else ks[0]
    li, ki = cp_incr(left), cp_incr(kb)
    early_stop = li is None or (ki is not None and li >= ki)
    # a leaf between left and cpIncr(left) is skipped by the traversal that continues from cpIncr(left)
    skips = (not early_stop) and li is not None and any(left < x < li for x in ks) and any(y >= li for y in ks)
    return {"proof_kind": "absence",
            "absence_cls": "left=%s;early_stop=%s;skips_leaf=%s;succ=%s" % ("pred" if pred else "first", early_stop, skips, bool(succ))}


class Issues:
    """Collected differences between the real code and the specification."""

    def __init__(self):
        self.items = []
        self.counts = {}
        self.examples = {}
        self.tool = []
        self.rejected = None   # a recorded history the specification could not follow

    def add(self, sig, what, **fields):
        key = (sig, fields.get("cls"))
        self.counts[key] = self.counts.get(key, 0) + 1
        # examples are kept per configuration too: a matcher of a known finding may name kr / ke,
        # and the same signature under another pruning option is a different finding
        ekey = (sig, fields.get("cls"), fields.get("kr"), fields.get("ke"), fields.get("spal"), fields.get("strat"))
        self.examples[ekey] = self.examples.get(ekey, 0) + 1
        if self.examples[ekey] <= 2:
            d = {"sig": sig, "what": what}
            d.update(fields)
            self.items.append(d)


# ------------------------------------------------------------------------------------------------
# spec behaviour -> driver program


def to_program(h, pid, backend, faults, obs_budget, rng, prune_after_flush=False, salt=None, palset="all"):
    """Turn one recorded spec behaviour into a driver program.  Returns (program, plan) where plan[i]
    describes what driver step i realises (spec entries, expected values)."""
    steps, plan = [], []
    # same sampling (and key palette) when a replay file is re-executed; salt = the run's seed
    rng = random.Random("%s|%s" % (pid, obs_budget) if salt is None else "%s|%s|%s" % (pid, obs_budget, salt))
    done = []          # durable writes of the running commit, as the spec did them
    cstart = None
    pending_flush = None
    post_prunes = 0

    palette = pick_palette(rng, palset)

    def obs_args(e):
        o = e.get("obs") or {}
        loads = [x["v"] for x in (o.get("loads") or [])]
        qs = list(o.get("queries") or [])
        if has_ff(palette):
            qs = [q for q in qs if not q[4]]   # no sampled proved queries under 0xFF palettes (see PALSETS)
        if obs_budget is not None and len(qs) > obs_budget:
            qs = rng.sample(qs, obs_budget)
        ss = list(o.get("subs") or [])
        if obs_budget is not None and len(ss) > max(4, obs_budget // 3):
            ss = rng.sample(ss, max(4, obs_budget // 3))
        return loads, (qs, ss), o

    def put_obs(st, loads, qss):
        if loads:
            st["loads"] = loads
        if qss[0]:
            st["queries"] = [q[:5] for q in qss[0]]
        if qss[1]:
            st["subs"] = [q[:4] for q in qss[1]]

    def emit_commit():
        nonlocal pending_flush, done
        e = pending_flush
        loads, qs, o = obs_args(e)
        st = {"a": "commit", "faults": bool(faults), "tries": 3}
        put_obs(st, loads, qs)
        steps.append(st)
        # a behaviour may end (HistLen) between the flush and the last pruning step
        cut = prune_after_flush and post_prunes < len(STORES)
        plan.append({"kind": "commit", "flush": e, "start": cstart, "writes": None if cut else list(done), "queries": qs[0], "subs": qs[1], "obs": o})
        pending_flush = None
        done = []

    for e in h["steps"]:
        a = e["a"]
        if pending_flush is not None:
            if a == "prune":
                post_prunes += 1
                if e["w"]:
                    done.append("prune:%s:%d" % (e["s"], e["v"]))
                continue
            if a == "crash" and e.get("incommit"):
                steps.append({"a": "crashcommit", "done": list(done)})
                plan.append({"kind": "crashcommit", "start": cstart, "done": list(done)})
                pending_flush = None
                done = []
                continue
            emit_commit()
        if a == "reopen":
            loads, qs, o = obs_args(e)
            st = {"a": "reopen"}
            put_obs(st, loads, qs)
            steps.append(st)
            plan.append({"kind": "reopen", "e": e, "queries": qs[0], "subs": qs[1], "obs": o})
        elif a == "write":
            op = e["op"]
            steps.append({"a": "write", "op": {"s": op["s"], "k": op["k"], "v": op["v"], "del": bool(op["del"])}})
            plan.append({"kind": "write", "e": e})
        elif a == "liveload":
            steps.append({"a": "liveload", "v": e["v"]})
            plan.append({"kind": "liveload", "e": e})
        elif a == "commitstart":
            cstart = e
            done = []
            loads, qs, o = obs_args(e)
            if loads or qs[0] or qs[1]:
                st = {"a": "observe"}
                put_obs(st, loads, qs)
                steps.append(st)
                plan.append({"kind": "observe", "queries": qs[0], "subs": qs[1], "obs": o})
        elif a in ("save", "prune"):
            if e["w"]:
                done.append("%s:%s:%d" % (e["w"], e["s"], e["v"]))
        elif a == "tcommit":
            pass
        elif a == "flush":
            done.append("flush:%d" % e["v"])
            pending_flush = e
            post_prunes = 0
        elif a == "crash":
            if e.get("incommit"):
                steps.append({"a": "crashcommit", "done": list(done)})
                plan.append({"kind": "crashcommit", "start": cstart, "done": list(done)})
                done = []
            else:
                steps.append({"a": "crash"})
                plan.append({"kind": "crash"})
        else:
            raise common.ToolError("unknown spec step %r" % a)
    if pending_flush is not None:
        emit_commit()
    cfg = {"stores": STORES, "transient": TSTORE, "kr": h["kr"], "ke": h["ke"], "backend": backend, "spal": bool(h.get("spal"))}
    if strat_of(h) is not None:
        # the driver resolves the string with the real store.NewPruningOptionsFromString and ignores
        # kr / ke (which are what the specification's transcription made of it)
        cfg["strat"] = strat_of(h)
    if palette:
        cfg["palette"] = palette
    return {"id": pid, "cfg": cfg, "steps": steps}, plan


# ------------------------------------------------------------------------------------------------
# judging a crash outcome against what the specification allows


def model_prunes_committed(kr, ke, v):
    """Does the pruning rule of the SPECIFICATION (MultiStore.tla ToRelease, with the specification's
    options) delete IAVL version v - the one the latest commit info points to - while saving v+1?"""
    if kr is None or ke is None:
        return True
    return kr == 0 and v >= 1 and (ke == 0 or v % ke != 0)


def crash_class(done, n, storevers=None, kr=None, ke=None):
    """Position class of a crash: which durable writes of the commit of version n+1 were done.
    `pruned_committed_version` describes the specification's configuration: a pruning delete of the
    committed version was seen AND the specification's options (kr, ke) prescribe it.  A delete the
    real store did under other options than the specification's shows as `unexpected_prune`."""
    kinds = [d.split(":")[0] for d in done]
    saves = [d for d in done if d.startswith("save:")]
    # did a pruning delete remove the IAVL version the latest commit info still points to?  (that is
    # the version saved just before the one this commit saves; IAVL numbering may be ahead of the
    # multistore's after an earlier incomplete first commit)
    sv = {}
    for d in saves:
        _, s, v = d.split(":")
        sv[s] = int(v)
    pruned_n = False
    unexpected = False
    for d in done:
        if d.startswith("prune:"):
            _, s, v = d.split(":")
            committed_iavl = (storevers or {}).get(s)
            hit = False
            if committed_iavl is not None:
                hit = int(v) == committed_iavl
            elif (s in sv and int(v) == sv[s] - 1) or (s not in sv and int(v) == n and n >= 1):
                hit = True
            if hit:
                if model_prunes_committed(kr, ke, int(v)):
                    pruned_n = True
                else:
                    unexpected = True
    after = kinds[-1] if kinds else "none"
    r = {
        "first_commit": n == 0,
        "after": after,
        "saved": "%dof%d" % (len(saves), len(STORES)),
        "pruned_committed_version": bool(pruned_n),
        "cls": "first=%s;after=%s;saved=%dof%d;pruned_n=%s" % (n == 0, after, len(saves), len(STORES), bool(pruned_n)),
    }
    if unexpected:
        r["unexpected_prune"] = True
        r["cls"] += ";unexpected_prune"
    return r


def judge_reopen(iss, ro, n, pre, post, fields, flushed):
    """ro: real observation of the reopen after a crash inside the commit of version n+1."""
    if not ro.get("ok"):
        iss.add("crash-reopen-fails", "after a crash inside Commit of version %d (writes done: %s) LoadLatestVersion fails: %s"
                % (n + 1, fields.get("done"), ro.get("err")), **fields)
        return None
    ver, st = ro.get("ver"), rstores(ro.get("stores"))
    if ver not in (n, n + 1):
        iss.add("crash-wrong-version", "reopened at version %s, expected %d or %d" % (ver, n, n + 1), **fields)
        return ver
    want = pre if ver == n else post
    if st != want:
        if st == (post if ver == n else pre):
            iss.add("crash-content-version-mismatch",
                    "after a crash inside Commit of version %d (writes done: %s) the store reports version %d but shows the content of version %d: %s"
                    % (n + 1, fields.get("done"), ver, n + 1 if ver == n else n, json.dumps(st, sort_keys=True)), **fields)
        else:
            iss.add("crash-mixture",
                    "after a crash inside Commit of version %d (writes done: %s) the reopened store (version %d) shows %s, neither version %d %s nor version %d %s"
                    % (n + 1, fields.get("done"), ver, json.dumps(st, sort_keys=True), n, json.dumps(pre, sort_keys=True),
                       n + 1, json.dumps(post, sort_keys=True)), **fields)
    if ro.get("trans"):
        iss.add("transient-not-empty-after-reopen", "transient store not empty after reopen: %s" % ro.get("trans"), **fields)
    return ver


def reexec_sig(err):
    return "crash-reexec-panics" if "panic" in (err or "") else "crash-reexec-fails"


def judge_reexec(iss, rx, n, post, ideal_hash, fields):
    if rx is None:
        return
    if not rx.get("ok"):
        iss.add(reexec_sig(rx.get("err")), "re-executing the interrupted block %d after the crash (writes done: %s) fails: %s"
                % (n + 1, fields.get("done"), rx.get("err")), **fields)
        return
    if rx.get("ver") != n + 1:
        iss.add("crash-wrong-version", "after re-execution the version is %s, expected %d" % (rx.get("ver"), n + 1), **fields)
    if rx.get("hash") != ideal_hash:
        iss.add("crash-reexec-hash-differs",
                "re-executing block %d after a crash (writes done: %s) yields hash %s, the uninterrupted run %s"
                % (n + 1, fields.get("done"), rx.get("hash"), ideal_hash), **fields)
    if rstores(rx.get("stores")) != post:
        iss.add("crash-reexec-wrong-content", "content after re-execution %s, expected %s"
                % (json.dumps(rstores(rx.get("stores")), sort_keys=True), json.dumps(post, sort_keys=True)), **fields)
    af = rx.get("after")
    if af is not None and (not af.get("ok") or af.get("ver") != n + 1 or rstores(af.get("stores")) != post or af.get("hash") != rx.get("hash")):
        iss.add("crash-reexec-not-durable", "a fresh handle after the re-executed commit shows %s" % json.dumps(af)[:300], **fields)


def judge_faults(iss, faults, n, pre, post, ideal_hash, committed, base_fields, stats, storevers=None):
    for f in faults:
        done = f.get("done") or []
        fields = dict(base_fields)
        fields.update(crash_class(done, n, storevers, base_fields.get("kr"), base_fields.get("ke")))
        fields["done"] = done
        fields["k"] = f.get("k")
        stats["crash_points"] += 1
        stats["classes"][fields["cls"]] = stats["classes"].get(fields["cls"], 0) + 1
        if f.get("err"):
            iss.tool.append("fault experiment could not run: %s" % f["err"])
            continue
        if f.get("panic"):
            # the uninterrupted commit succeeded on the live handle, the same commit on a fresh one panics
            iss.add("commit-panics", "Commit of version %d on a freshly opened store panics (writes done: %s): %s"
                    % (n + 1, done, f["panic"]), **fields)
            continue
        flushed = any(d.startswith("flush:") for d in done)
        ver = judge_reopen(iss, f.get("reopen") or {}, n, pre, post, fields, flushed)
        if flushed and ver is not None and ver != n + 1:
            iss.add("crash-wrong-version", "the flush was written but the store reopens at %s" % ver, **fields)
        if ver is None:
            continue
        # whatever LoadVersion returns after the crash must be a committed version
        for v, lo in (f.get("loads") or {}).items():
            v = int(v)
            if lo.get("ok"):
                want = committed.get(v)
                if want is None or rstores(lo.get("stores")) != want:
                    iss.add("crash-wrong-data-loaded", "after the crash LoadVersion(%d) returns %s, committed was %s"
                            % (v, json.dumps(rstores(lo.get("stores")), sort_keys=True), json.dumps(want, sort_keys=True)), **fields)
        judge_reexec(iss, f.get("reexec"), n, post, ideal_hash, fields)


# ------------------------------------------------------------------------------------------------
# comparing one replayed behaviour with the specification


def check_writes(iss, real_writes, spec_writes, fields):
    """The write log of a commit against the writes of the spec's commit protocol."""
    flushes = [w for w in real_writes if w.startswith("flush:")]
    odd = [w for w in real_writes if not re.match(r"^(save|prune):[A-Za-z0-9]+:\d+$|^flush:\d+$", w)]
    if odd:
        iss.add("model:unexpected-durable-write" if not any(("latest" in w or "cinfo" in w) for w in odd) else "flush-not-atomic",
                "Commit issued durable writes outside the protocol: %s (all: %s)" % (odd, real_writes), **fields)
        return
    if len(flushes) != 1:
        iss.add("flush-not-atomic", "Commit wrote commit info / latest marker in %d writes: %s" % (len(flushes), real_writes), **fields)
        return
    fi = real_writes.index(flushes[0])
    late = [w for w in real_writes[fi + 1:] if w.startswith("save:")]
    if late:
        iss.add("save-after-flush", "sub-store versions saved after the commit info was flushed: %s" % real_writes, **fields)
    elif fi != len(real_writes) - 1 and spec_writes and spec_writes[-1].startswith("flush:"):
        # pruning after the flush keeps the property; it only differs from the model in use
        iss.add("model:flush-not-last", "the flush is not the last durable write of the commit: %s" % real_writes, **fields)
    if sorted(real_writes) != sorted(spec_writes):
        rp = sorted(w for w in real_writes if w.startswith("prune:"))
        sp = sorted(w for w in spec_writes if w.startswith("prune:"))
        if rp != sp:
            iss.add("prune-rule-differs", "Commit pruned %s, the pruning rule of the specification prunes %s" % (rp, sp), **fields)
        else:
            iss.add("model:commit-writes-differ", "Commit wrote %s, the specification %s" % (sorted(real_writes), sorted(spec_writes)), **fields)


def check_loads(iss, real_loads, spec_obs, fields, committed, clean):
    byv = {x["v"]: x for x in (real_loads or [])}
    for sx in (spec_obs.get("loads") or []):
        v = sx["v"]
        rx = byv.get(v)
        if rx is None:
            continue
        rl, sl = rx.get("load") or {}, sx["load"]
        f = dict(fields, v=v)
        if clean:
            if sx.get("retained") and not rl.get("ok"):
                iss.add("retained-version-unreadable", "version %d is retained by the pruning policy (kr=%s ke=%s) but LoadVersion fails: %s"
                        % (v, fields.get("kr"), fields.get("ke"), rl.get("err")), **f)
            if not sx.get("retained") and rl.get("ok"):
                iss.add("pruned-version-readable", "version %d is not retained by the pruning policy (kr=%s ke=%s) but LoadVersion succeeds"
                        % (v, fields.get("kr"), fields.get("ke")), **f)
        if rl.get("ok"):
            want = committed.get(v)
            if rl.get("ver") != v or want is None or rstores(rl.get("stores")) != want:
                iss.add("loaded-version-wrong-content", "LoadVersion(%d) shows version %s %s, committed at %d: %s"
                        % (v, rl.get("ver"), json.dumps(rstores(rl.get("stores")), sort_keys=True), v, json.dumps(want, sort_keys=True)), **f)
        if bool(rl.get("ok")) != bool(sl.get("ok")):
            iss.add("model:load-outcome-differs", "LoadVersion(%d): real ok=%s, specification ok=%s" % (v, rl.get("ok"), sl.get("ok")), **f)
        rv, sv = rx.get("view"), sx.get("view") or {}
        if rv is not None:
            if clean and sx.get("retained") and not rv.get("ok"):
                iss.add("retained-version-unreadable-live", "CacheMultiStoreWithVersion(%d) fails on the live store: %s" % (v, rv.get("err")), **f)
            if rv.get("ok"):
                want = committed.get(v)
                if clean and (want is None or rstores(rv.get("stores")) != want):
                    iss.add("versioned-view-wrong-content", "CacheMultiStoreWithVersion(%d) shows %s, committed %s"
                            % (v, json.dumps(rstores(rv.get("stores")), sort_keys=True), json.dumps(want, sort_keys=True)), **f)
            if bool(rv.get("ok")) != bool(sv.get("ok")):
                iss.add("model:view-outcome-differs", "versioned view %d: real ok=%s, specification ok=%s" % (v, rv.get("ok"), sv.get("ok")), **f)


def prefix_end(b):
    """store/types.PrefixEndBytes."""
    b = bytearray(b)
    while b:
        if b[-1] != 255:
            b[-1] += 1
            return bytes(b)
        b.pop()
    return None


def check_subs(iss, real_ss, spec_ss, fields, clean, stats, pal=None, committed=None):
    """"/subspace" queries: exactly the committed pairs of the latest version under the prefix, in key
    order.  The specification's entry is <<via, store, prefix, height, answered, pairs>>."""
    for rq, sq in zip(real_ss or [], spec_ss or []):
        via, s, p, h, sok, skv = sq
        f = dict(fields, query=[via, s, p, h], cls="subspace")
        if rq.get("q") != [via, s, p, h]:
            raise common.ToolError("driver answered a different subspace query: %s vs %s" % (rq.get("q"), sq[:4]))
        sc = stats.setdefault("subspace", {"queries": 0, "nonempty": 0, "successor_of_prefix_stored": 0, "all_ff_prefix": 0})
        sc["queries"] += 1
        if "panic" in rq:
            iss.add("query-panics", "Query %s (subspace) panics: %s" % (f["query"], rq["panic"]), **f)
            continue
        tag = "" if clean else "model:"
        want = nmap(skv)
        if bool(rq.get("answered")) != bool(sok):
            iss.add(tag + "subspace-not-the-committed-pairs", "subspace query %s: answered=%s (%s), the specification: answered=%s %s"
                    % (f["query"], rq.get("answered"), (rq.get("log") or "")[:120], sok, want), **f)
            continue
        if not sok:
            continue
        pairs = [tuple(x) for x in rq.get("kv") or []]
        got = dict(pairs)
        if want:
            sc["nonempty"] += 1
        pb = conc(pal, p)
        if pb == b"\xff" * len(pb):
            sc["all_ff_prefix"] += 1 if want else 0
        if committed:
            succ = prefix_end(pb)
            if succ is not None and any(conc(pal, k) == succ for k in (committed[max(committed)].get(s) or {})):
                sc["successor_of_prefix_stored"] += 1
        if got != want:
            iss.add(tag + "subspace-not-the-committed-pairs",
                    "subspace query %s (prefix bytes %s) returns %s, the committed pairs of the latest version under that prefix are %s"
                    % (f["query"], pb.hex(), json.dumps(pairs), json.dumps(sorted(want.items()))), **f)
        if not rq.get("sorted") or len(pairs) != len(got):
            iss.add("subspace-not-in-key-order", "subspace query %s returns %s: not strictly ascending in key order" % (f["query"], json.dumps(pairs)), **f)


def check_queries(iss, real_qs, spec_qs, fields, hashes, clean, stats, committed=None, pal=None):
    for rq, sq in zip(real_qs or [], spec_qs or []):
        via, s, k, h, p, serr, sval, sproof, sheight, sver = sq
        f = dict(fields, query=[via, s, k, h, p])
        stats["queries"] += 1
        if rq.get("q") != [via, s, k, h, p]:
            raise common.ToolError("driver answered a different query: %s vs %s" % (rq.get("q"), sq[:5]))
        if "panic" in rq:
            kb = conc(pal, k)
            if p and kb and kb == b"\xff" * len(kb):
                f["cls"] = "proved-all-ff-key"   # nothing else about the query matters
            iss.add("query-panics", "Query %s (key bytes %s) panics: %s" % (f["query"], kb.hex(), rq["panic"]), **f)
            continue
        rerr = rq.get("code", 0) != 0
        rproof = rq.get("nops", 0) > 0
        norm = clean
        tag = "" if norm else "model:"
        if rerr != serr:
            iss.add(tag + "query-error-differs", "Query %s: real error=%s (%s), specification error=%s"
                    % (f["query"], rerr, (rq.get("log") or "")[:120], serr), **f)
            continue
        if serr:
            continue
        if rq.get("height") != sheight:
            iss.add(tag + "query-wrong-height", "Query %s answers for height %s, the specification for %s" % (f["query"], rq.get("height"), sheight), **f)
        if rq.get("value") != nval(sval):
            iss.add(tag + "query-wrong-value", "Query %s returns %r, committed at height %s is %r" % (f["query"], rq.get("value"), sheight, nval(sval)), **f)
        if rproof != bool(sproof):
            iss.add(tag + "query-proof-presence-differs", "Query %s: proof returned=%s, specification=%s" % (f["query"], rproof, sproof), **f)
        if rproof:
            stats["proofs"] += 1
            got = rq.get("verifies") or []
            hh = rq.get("height")
            f.update(proof_class(k, rq.get("value"), ((committed or {}).get(hh) or {}).get(s), pal))
            f["cls"] = f.get("absence_cls") or f["proof_kind"]
            pc = stats.setdefault("proof_classes", {}).setdefault(f["cls"], {"proofs": 0, "not_verifying": 0})
            pc["proofs"] += 1
            if hh not in got:
                pc["not_verifying"] += 1
            if hh not in got:
                iss.add(tag + "proof-does-not-verify-at-its-height", "Query %s: the proof does not verify against the hash of height %s (verifies against %s)"
                        % (f["query"], hh, got), **f)
            wrong = [v for v in got if hashes.get(v) != hashes.get(hh)]
            if wrong:
                iss.add(tag + "proof-verifies-wrong-height", "Query %s at height %s: the proof also verifies against the differing hash of height(s) %s"
                        % (f["query"], hh, wrong), **f)
            if rq.get("forged"):
                iss.add(tag + "proof-proves-something-else", "Query %s: the proof also proves %s" % (f["query"], rq.get("forged")), **f)
            if sorted(set(sver)) != sorted(v for v in got if hashes.get(v) == hashes.get(hh) and v == hh):
                pass  # heights with identical hashes may verify too; the model names only its own


def compare_behaviour(iss, h, prog, plan, res, tokhash, stats):
    # kr / ke: the options of the SPECIFICATION's configuration (for a strategy string: what the
    # transcription StrategyOpts makes of it); the real store's come from the real function
    kr, ke = h["kr"], h["ke"]
    base = {"kr": kr, "ke": ke, "spal": bool(h.get("spal")), "id": prog["id"], "strat": strat_of(h)}
    pal = prog["cfg"].get("palette") or {}
    # equal write histories (by key NAME) must give equal hashes - among programs with the same palette
    tokhash = tokhash.setdefault("palette " + json.dumps(pal, sort_keys=True), {})
    ps = stats.setdefault("palettes", {"programs": 0, "with_a_first_byte_ff": 0, "transient_ff_key_committed": 0})
    ps["programs"] += 1
    if any(v.lower().startswith("ff") for v in pal.values()):
        ps["with_a_first_byte_ff"] += 1
    tff = False
    for st in prog["steps"]:
        if st["a"] == "write" and st["op"]["s"] == TSTORE and not st["op"]["del"] and conc(pal, st["op"]["k"])[:1] == b"\xff":
            tff = True
        elif st["a"] == "commit" and tff:
            ps["transient_ff_key_committed"] += 1
            tff = False
        elif st["a"] in ("reopen", "crash", "crashcommit", "liveload"):
            tff = False
    if strat_of(h) is not None:
        bs = stats.setdefault("strategy_behaviours", {})
        bs[strat_of(h)] = bs.get(strat_of(h), 0) + 1
    obs = res.get("obs") or []
    if res.get("tool_error"):
        iss.tool.append("driver: %s" % res["tool_error"])
        return
    committed = {0: {s: {} for s in STORES}}
    hashes = {}          # version -> hash the node reported (what Tendermint would have recorded)
    ideal = {}           # version -> hash of the uninterrupted run
    dirty = False
    crashed_in = None    # (n, pre, post, fields) of the last crash inside a commit, until the next flush
    for i, pl in enumerate(plan):
        if i >= len(obs):
            iss.tool.append("driver stopped at step %d of %d (program %s)" % (len(obs), len(plan), prog["id"]))
            return
        o = obs[i]
        f = dict(base, step=i)
        if o.get("tool_error"):
            iss.tool.append("driver step %d: %s" % (i, o["tool_error"]))
            return
        kind = pl["kind"]
        if kind == "write":
            e = pl["e"]["exp"]
            if rstores(o.get("stores")) != nstores(e["stores"]) or dict(o.get("trans") or {}) != nmap(e["trans"]):
                iss.add("working-content-differs", "after %s the stores show %s / %s, the specification %s / %s"
                        % (json.dumps(pl["e"]["op"]), json.dumps(rstores(o.get("stores")), sort_keys=True), o.get("trans"),
                           json.dumps(nstores(e["stores"]), sort_keys=True), nmap(e["trans"])), **f)
        elif kind == "liveload":
            if not check_liveload(iss, pl["e"], o, f, committed, hashes, tokhash, stats):
                # the real handle and the specification's have parted (a load that succeeds on one
                # side only): what follows are consequences
                stats["behaviours"] += 1
                return
        elif kind == "observe":
            clean = bool(pl["obs"].get("clean"))
            check_loads(iss, o.get("loads"), pl["obs"], f, committed, clean)
            check_queries(iss, o.get("queries"), pl["queries"], f, hashes, clean, stats, committed, pal)
            check_subs(iss, o.get("subs"), pl.get("subs"), f, clean, stats, pal, committed)
        elif kind == "reopen":
            e = pl["e"]
            exp = e["exp"]
            if crashed_in is not None:
                n, pre, post, cf = crashed_in
                stats["spec_crashes_replayed"] += 1
                nbefore = len(iss.items) + sum(iss.counts.values())
                ver = judge_reopen(iss, o, n, pre, post, dict(cf, step=i), False)
                if len(iss.items) + sum(iss.counts.values()) != nbefore:
                    # the history has left the property; what follows are consequences of this
                    # violation (shifted IAVL versions ...), not separate findings
                    stats["behaviours"] += 1
                    stats["behaviours_cut_at_first_crash_violation"] = stats.get("behaviours_cut_at_first_crash_violation", 0) + 1
                    return
                if not o.get("ok"):
                    if exp.get("ok"):
                        iss.add("model:reopen-outcome-differs", "reopen fails on the code, succeeds in the specification", **f)
                    return
                if ver == n + 1:
                    crashed_in = None
            else:
                if not o.get("ok"):
                    iss.add("reopen-fails", "LoadLatestVersion fails: %s" % o.get("err"), **f)
                    return
            if not exp.get("ok"):
                iss.add("model:reopen-outcome-differs", "reopen succeeds on the code, fails in the specification", **f)
                return
            if o.get("ver") != exp["ver"]:
                iss.add(("model:" if dirty else "") + "reopen-wrong-version", "reopened at version %s, specification %s" % (o.get("ver"), exp["ver"]), **f)
            if rstores(o.get("stores")) != nstores(exp["stores"]):
                iss.add(("model:" if dirty else "") + "reopen-wrong-content", "reopened store shows %s, specification %s"
                        % (json.dumps(rstores(o.get("stores")), sort_keys=True), json.dumps(nstores(exp["stores"]), sort_keys=True)), **f)
            if o.get("trans"):
                iss.add("transient-not-empty-after-reopen", "transient store not empty after reopen: %s" % o.get("trans"), **f)
            if o.get("ver") in hashes and o.get("hash") != hashes[o["ver"]]:
                iss.add("reopen-hash-differs-from-commit", "reopened store reports hash %s, Commit of version %s returned %s"
                        % (o.get("hash"), o.get("ver"), hashes[o["ver"]]), **f)
            note_token(iss, tokhash, exp.get("tok"), o.get("hash"), f)
            clean = bool((pl["obs"] or {}).get("clean"))
            check_loads(iss, o.get("loads"), pl["obs"] or {}, f, committed, clean)
            check_queries(iss, o.get("queries"), pl["queries"], f, hashes, clean, stats, committed, pal)
            check_subs(iss, o.get("subs"), pl.get("subs"), f, clean, stats, pal, committed)
        elif kind == "crash":
            pass
        elif kind == "crashcommit":
            st = pl["start"]
            n = st["n"]
            pre, post = nstores(st["pre"]), nstores(st["post"])
            if o.get("panic"):
                if crashed_in is not None:
                    cn, cpre, cpost, cf = crashed_in
                    iss.add("crash-reexec-panics", "re-executing block %d after a crash (writes done: %s) panics inside Commit: %s"
                            % (cn + 1, cf.get("done"), o["panic"]), **dict(cf, step=i))
                else:
                    iss.add("commit-panics", "Commit of version %d panics: %s" % (n + 1, o["panic"]), **f)
                stats["behaviours"] += 1
                return
            if not o.get("matched"):
                iss.add("model:crash-point-unreachable", "the real Commit never produced the write prefix %s of the specification; seen: %s"
                        % (pl["done"], o.get("seen")), **f)
                return
            idl = o.get("ideal") or {}
            if idl.get("ok"):
                ideal[n + 1] = idl["hash"]
            cf = dict(base)
            cf.update(crash_class(pl["done"], n, o.get("storevers"), kr, ke))
            cf["done"] = pl["done"]
            crashed_in = (n, pre, post, cf)
            committed.setdefault(n + 1, post)
            dirty = True
        elif kind == "commit":
            st, fl = pl["start"], pl["flush"]
            n = st["n"]
            pre, post = nstores(st["pre"]), nstores(st["post"])
            exp = fl["exp"]
            stats["commits"] += 1
            if not o.get("ok"):
                if crashed_in is not None:
                    iss.add(reexec_sig(o.get("err")), "re-executing block %d after a crash (writes done: %s) fails: %s"
                            % (n + 1, crashed_in[3].get("done"), o.get("err")), **dict(crashed_in[3], step=i))
                else:
                    iss.add("commit-panics", "Commit of version %d panics: %s" % (n + 1, o.get("err")), **f)
                stats["behaviours"] += 1
                return
            committed[n + 1] = post
            if o.get("ver") != o.get("prever", 0) + 1:
                iss.add("version-step", "Commit went from version %s to %s" % (o.get("prever"), o.get("ver")), **f)
            if o.get("ver") != exp["ver"]:
                iss.add(("model:" if dirty else "") + "version-step", "Commit returned version %s, specification %s" % (o.get("ver"), exp["ver"]), **f)
            if rstores(o.get("stores")) != nstores(exp["stores"]):
                iss.add("commit-changes-content", "after Commit the stores show %s, specification %s"
                        % (json.dumps(rstores(o.get("stores")), sort_keys=True), json.dumps(nstores(exp["stores"]), sort_keys=True)), **f)
            if o.get("trans"):
                iss.add("transient-not-empty-after-commit", "transient store holds %s after Commit" % o.get("trans"), **f)
            fr = o.get("fresh") or {}
            if not fr.get("ok") or fr.get("ver") != o.get("ver") or fr.get("hash") != o.get("hash") or rstores(fr.get("stores")) != rstores(o.get("stores")):
                iss.add("commit-id-not-reported-by-fresh-store", "Commit returned (%s, %s); a freshly opened store reports %s"
                        % (o.get("ver"), o.get("hash"), json.dumps(fr)[:300]), **f)
            hashes[o["ver"]] = o.get("hash")
            if pl["writes"] is not None:
                check_writes(iss, o.get("writes") or [], pl["writes"], f)
            note_token(iss, tokhash, exp.get("tok"), o.get("hash"), f)
            if crashed_in is not None:
                cn, cpre, cpost, cf = crashed_in
                if cn + 1 in ideal and o.get("ver") == cn + 1 and o.get("hash") != ideal[cn + 1]:
                    iss.add("crash-reexec-hash-differs", "re-executing block %d after a crash (writes done: %s) yields hash %s, the uninterrupted run %s"
                            % (cn + 1, cf.get("done"), o.get("hash"), ideal[cn + 1]), **dict(cf, step=i))
                crashed_in = None
            else:
                ideal.setdefault(o["ver"], o.get("hash"))
            if o.get("faults") is not None:
                stats["commits_fault_enumerated"] += 1
                judge_faults(iss, o["faults"], n, pre, post, o.get("hash"), committed, base, stats, o.get("storevers"))
            clean = bool((pl["obs"] or {}).get("clean"))
            check_loads(iss, o.get("loads"), pl["obs"] or {}, f, committed, clean)
            check_queries(iss, o.get("queries"), pl["queries"], f, hashes, clean, stats, committed, pal)
            check_subs(iss, o.get("subs"), pl.get("subs"), f, clean, stats, pal, committed)
    stats["behaviours"] += 1


def handle_state(o):
    return {"ver": o.get("ver"), "hash": o.get("hash"), "stores": rstores(o.get("stores")), "trans": dict(o.get("trans") or {})}


def check_liveload(iss, e, o, f, committed, hashes, tokhash, stats):
    """LoadVersion(v) on the live handle.  e: the specification's step, o: what the driver saw (`pre`:
    the handle's projected state before the call).  Returns False when the outcomes differ."""
    v, exp = e["v"], e["exp"]
    f = dict(f, v=v)
    clean = bool(e.get("clean"))
    sok, rok = bool(e["ok"]), bool(o.get("ok"))
    pre, post = handle_state(o.get("pre") or {}), handle_state(o)
    ll = stats.setdefault("live_loads", {"total": 0, "failed_pruned": 0, "failed_never_committed": 0, "ok_latest": 0, "ok_older": 0,
                                         "failed_with_uncommitted_writes": 0, "failed_on_rolled_back_handle": 0})
    ll["total"] += 1
    if o.get("panic"):
        iss.add("live-load-panics", "LoadVersion(%d) on the live store (at version %s) panics: %s" % (v, pre["ver"], o.get("err")), **f)
        return False
    if clean:
        if e.get("retained") and not rok:
            iss.add("retained-version-unreadable", "version %d is retained by the pruning policy (kr=%s ke=%s) but LoadVersion(%d) on the live store fails: %s"
                    % (v, f.get("kr"), f.get("ke"), v, o.get("err")), **f)
        if not e.get("retained") and rok:
            iss.add("pruned-version-readable", "version %d is not retained by the pruning policy (kr=%s ke=%s) but LoadVersion(%d) on the live store succeeds"
                    % (v, f.get("kr"), f.get("ke"), v), **f)
    if not rok:
        changed = [x for x in ("ver", "hash", "stores", "trans") if pre[x] != post[x]]
        if changed:
            iss.add("failed-load-changes-handle",
                    "LoadVersion(%d) on the live store (version %s, hash %s) returned an error (%s) but changed the store's %s: "
                    "it now reports version %s, hash %s, content %s (before: %s)"
                    % (v, pre["ver"], str(pre["hash"])[:16], o.get("err"), "/".join(changed), post["ver"], str(post["hash"])[:16],
                       json.dumps(post["stores"], sort_keys=True), json.dumps(pre["stores"], sort_keys=True)), **f)
    else:
        if post["ver"] != v:
            iss.add("live-load-wrong-version", "LoadVersion(%d) on the live store succeeded but it reports version %s" % (v, post["ver"]), **f)
        want = committed.get(v)
        if want is None or post["stores"] != want or post["trans"]:
            iss.add(("" if clean else "model:") + "live-load-wrong-content",
                    "after LoadVersion(%d) the live store shows %s (transient %s), committed at %d: %s"
                    % (v, json.dumps(post["stores"], sort_keys=True), post["trans"], v, json.dumps(want, sort_keys=True)), **f)
        if v in hashes and post["hash"] != hashes[v]:
            iss.add("live-load-hash-differs-from-commit", "after LoadVersion(%d) the live store reports hash %s, Commit of version %d returned %s"
                    % (v, post["hash"], v, hashes[v]), **f)
    if rok != sok:
        iss.add("model:load-outcome-differs", "LoadVersion(%d) on the live store: real ok=%s (%s), specification ok=%s" % (v, rok, o.get("err"), sok), **f)
        return False
    if post["ver"] != exp["ver"] or post["stores"] != nstores(exp["stores"]) or post["trans"] != nmap(exp["trans"]):
        iss.add("model:live-load-state-differs", "after LoadVersion(%d) (ok=%s) the live store shows version %s %s, the specification version %s %s"
                % (v, rok, post["ver"], json.dumps(post["stores"], sort_keys=True), exp["ver"], json.dumps(nstores(exp["stores"]), sort_keys=True)), **f)
    note_token(iss, tokhash, exp.get("tok"), post["hash"], f)
    if not sok:
        ll["failed_pruned" if e.get("hasinfo") else "failed_never_committed"] += 1
        if e.get("nblock"):
            ll["failed_with_uncommitted_writes"] += 1
        if e.get("rolled"):
            ll["failed_on_rolled_back_handle"] += 1
    else:
        ll["ok_older" if e.get("rolled") else "ok_latest"] += 1
    return True


def note_token(iss, tokhash, tok, real_hash, fields):
    """Equal tokens (write histories) must give equal real hashes."""
    if tok is None or real_hash is None:
        return
    key = json.dumps(tok, sort_keys=True)
    have = tokhash.get(key)
    if have is None:
        tokhash[key] = real_hash
    elif have != real_hash:
        iss.add("hash-not-function-of-history", "the same write history gave the hashes %s and %s" % (have, real_hash), **fields)


# ------------------------------------------------------------------------------------------------
# running things


def run_programs(d, programs, name, parallel=4, timeout=1500):
    """Run driver programs in `parallel` child processes; returns results by id."""
    if not programs:
        return {}
    chunks = [programs[i::parallel] for i in range(parallel)]
    results, errs = {}, []

    def work(ci, chunk):
        if not chunk:
            return
        path = os.path.join(d, "%s-%d.ndjson" % (name, ci))
        with open(path, "w") as fh:
            for p in chunk:
                fh.write(json.dumps(p) + "\n")
        try:
            pr = common.run_driver("storedrv", ["replay", path], timeout=timeout)
        except common.ToolError as e:
            errs.append(str(e))
            return
        if pr.returncode != 0:
            errs.append("storedrv replay exit %d: %s" % (pr.returncode, pr.stderr[-2000:]))
            return
        for line in pr.stdout.splitlines():
            if line.strip():
                r = json.loads(line)
                results[r["id"]] = r

    ts = [threading.Thread(target=work, args=(i, c)) for i, c in enumerate(chunks)]
    for t in ts:
        t.start()
    for t in ts:
        t.join()
    if errs:
        raise common.ToolError("; ".join(errs))
    return results


def run_mc(out, d, prop, tier, rng):
    """Exhaustive TLC runs of the property's invariants (spec side; failure = exit 2).  The first
    configuration is also run once on smaller constants with -coverage: every action of the commit
    protocol must have been taken (no vacuous pass)."""
    first = True
    for cfg, subs, tmo in TIERS[tier]["mc"][prop]:
        subs = dict(subs)
        n = subs.pop("nprun", None)
        if n:
            subs["PrunSel"] = "{" + ", ".join(str(x) for x in pick_prunings(rng, n)) + "}"
        strats = subs.pop("strats", None)
        if strats:
            # "?": one unrecognised string drawn by the seed - it resolves to PruneSyncable, which would be
            # one more pair to explore; the quick tier takes it only when that pair was drawn anyway (the
            # unrecognised strings meet the real code in the replayed and recorded histories of every run)
            free = "13" in re.findall(r"\d+", subs.get("PrunSel", "13"))
            strats = SIM_STRATEGIES if strats == "all" else [rng.choice(UNRECOGNISED) if s == "?" else s for s in strats if s != "?" or free]
            subs["Strategies"] = tla_set(strats)
        text = cfg_text(cfg, subs)
        res = common.run_tlc("MultiStore", "run_" + cfg, d, workers=MAXW, timeout=tmo, files={"run_" + cfg: text})
        common.require_tlc_ok(res, cfg)
        out.add_tlc(res, "exhaustive %s %s" % (cfg, json.dumps(subs, sort_keys=True)))
        out.cov["exhaustive"] = True
        if first:
            first = False
            csubs = dict(subs, MaxVer="3", PrunSel="{1, %d}" % rng.randint(5, 12), Vals='{"x"}')
            cres = common.run_tlc("MultiStore", "cov_" + cfg, d, workers=MAXW, timeout=600, coverage=True,
                                  files={"cov_" + cfg: cfg_text(cfg, csubs)})
            common.require_tlc_ok(cres, "coverage run of " + cfg)
            cov = {m.group(1): (int(m.group(2)), int(m.group(3)))
                   for m in re.finditer(r"(?m)^<(\w+) line [^>]*>: (\d+):(\d+)", cres.out)}
            out.notes.setdefault("action_coverage", {})[cfg] = {
                "constants": csubs, "distinct_states": cres.distinct, "distinct_states_per_action": {k: v[0] for k, v in cov.items()}}
            need = ["Write", "CommitStart", "CommitSave", "CommitPrune", "CommitTransient", "CommitFlush", "LiveLoad", "Crash", "Reopen"]
            missing = [a for a in need if cov.get(a, (0, 0))[1] == 0]
            if missing:
                raise common.ToolError("%s: actions never taken (vacuous run): %s" % (cfg, missing))


def witness_programs(d, out, seed):
    """One TLC run per named deviation: the code-shaped model is EXPECTED to violate a C13 invariant;
    the printed shortest behaviour is the witness that is replayed on the real code."""
    wits = {}
    for dev, cfg in (("PruneBeforeFlush", "MC_MultiStore_C13dev_prune.cfg"), ("LoadZeroLoadsLatest", "MC_MultiStore_C13dev_load0.cfg")):
        res = common.run_tlc("MultiStore", cfg, d, workers=MAXW, timeout=600)
        if res.error:
            raise common.ToolError("%s: TLC error: %s\n%s" % (cfg, res.error, res.out[-2000:]))
        ws = parse_printed(res.out, "WITNESS")
        out.notes.setdefault("deviation_runs", []).append(
            {"deviation": dev, "cfg": cfg, "violated": res.violated, "distinct": res.distinct, "generated": res.generated,
             "witness_steps": len(ws[0]["steps"]) if ws else None})
        if not res.violated or not ws:
            # the model with this switch does not violate C13: the switch is harmless / obsolete
            continue
        wits[dev] = min(ws, key=lambda w: len(w["steps"]))
    return wits


def probe_deviations(d, out, wits):
    """Replay each witness on the real code.  Returns (active deviations, issues of the witnesses)."""
    iss = Issues()
    stats = new_stats()
    active = []
    progs, plans = [], {}
    rng = random.Random(0)
    for dev, h in wits.items():
        prog, plan = to_program(h, "witness-" + dev, "memdb", False, 0, rng)
        progs.append(prog)
        plans[prog["id"]] = (dev, h, prog, plan)
    results = run_programs(d, progs, "witness", parallel=1)
    for pid, (dev, h, prog, plan) in plans.items():
        one = Issues()
        compare_behaviour(one, h, prog, plan, results.get(pid) or {}, {}, stats)
        if one.tool:
            raise common.ToolError("witness replay of %s: %s" % (dev, one.tool[:3]))
        hit = [x for x in one.items if x["sig"].startswith("crash-")]
        unreach = [x for x in one.items if x["sig"] == "model:crash-point-unreachable"]
        out.notes.setdefault("deviation_witness_replay", {})[dev] = {
            "reproduced_on_real_code": bool(hit), "signatures": sorted({x["sig"] for x in one.items}),
            "steps": [{k: v for k, v in s.items() if k not in ("loads", "queries")} for s in prog["steps"]]}
        if hit and not unreach:
            active.append(dev)
            for x in hit:
                x["program"] = prog
                x["witness_of"] = dev
                x["origin"] = "tlc-counterexample"
                x["behaviour"] = slim(h)
                x["build"] = {"pid": "witness-" + dev, "backend": "memdb", "faults": False, "budget": 0}
                iss.items.append(x)
    return active, iss


def slim(h):
    """A recorded behaviour without the tables that the failing comparison does not need."""
    steps = []
    for e in h["steps"]:
        e = dict(e)
        o = e.get("obs")
        if isinstance(o, dict) and len(json.dumps(o)) > 20000:
            e["obs"] = {"loads": o.get("loads") or [], "queries": [], "clean": o.get("clean")}
        steps.append(e)
    return {"kr": h["kr"], "ke": h["ke"], "spal": bool(h.get("spal")), "strat": h.get("strat"), "steps": steps}


def new_stats():
    return {"behaviours": 0, "commits": 0, "commits_fault_enumerated": 0, "crash_points": 0, "classes": {},
            "spec_crashes_replayed": 0, "queries": 0, "proofs": 0}


def simulate_and_replay(out, d, prop, tier, seed, rng, devs):
    T = TIERS[tier]
    cfg = "MC_MultiStore_sim%s.cfg" % prop
    subs = {"Dev": "{" + ", ".join('"%s"' % x for x in devs) + "}"}
    text = cfg_text(cfg, subs)
    res = common.run_tlc("MultiStore", "run_" + cfg, d, workers=T["sim_workers"], simulate="num=%d" % T["sim_num"], depth=100,
                         seed=seed, timeout=900, files={"run_" + cfg: text})
    if res.error or res.violated:
        raise common.ToolError("simulation %s: %s\n%s" % (cfg, res.error or res.violated, res.out[-2000:]))
    hs = parse_printed(res.out, "HIST")
    if not hs:
        raise common.ToolError("simulation printed no behaviour\n" + res.out[-2000:])
    # de-duplicate identical behaviours
    seen, uniq = set(), []
    for h in hs:
        k = json.dumps(h, sort_keys=True)
        if k not in seen:
            seen.add(k)
            uniq.append(h)
    m = re.search(r"The number of states generated: (\d+)", res.out)
    gen = int(m.group(1)) if m else 0
    out.notes["simulation"] = {"cfg": cfg, "dev": devs, "behaviours": len(hs), "distinct": len(uniq), "states_generated": gen}
    out.cov["transitions"] += gen
    progs, meta = [], {}
    for i, h in enumerate(uniq):
        backend = "goleveldb" if rng.random() < T["ldb_share"] else "memdb"
        faults = prop == "C13" and (i % T["fault_every"] == 0)
        budget = None
        if prop == "C14" and tier == "quick":
            budget = 40
        prog, plan = to_program(h, i, backend, faults, budget, rng, "PruneBeforeFlush" not in devs, salt=seed, palset="C14" if prop == "C14" else "all")
        progs.append(prog)
        meta[i] = (h, prog, plan, {"pid": i, "backend": backend, "faults": faults, "budget": budget, "paf": "PruneBeforeFlush" not in devs,
                                   "salt": seed, "palset": "C14" if prop == "C14" else "all"})
    results = run_programs(d, progs, "sim", parallel=min(8, common.NCPU))
    iss, stats, tokhash = Issues(), new_stats(), {}
    for i, (h, prog, plan, build) in meta.items():
        before = len(iss.items)
        compare_behaviour(iss, h, prog, plan, results.get(i) or {"tool_error": "no result"}, tokhash, stats)
        for x in iss.items[before:]:
            x.setdefault("program", prog)
            x.setdefault("origin", "tlc-simulation")
            x.setdefault("behaviour", slim(h))
            x.setdefault("build", build)
    stats["distinct_histories_hashed"] = sum(len(x) for x in tokhash.values())
    stats["goleveldb_behaviours"] = sum(1 for p in progs if p["cfg"]["backend"] == "goleveldb")
    return iss, stats, uniq


# ------------------------------------------------------------------------------------------------
# code -> spec: recorded histories validated by TLC


def record_and_validate(out, d, prop, tier, seed, rng, devs):
    runs = TIERS[tier]["records"][prop]
    lines, metas = [], []
    for j, r in enumerate(runs):
        strat = r.get("strat")
        if strat is not None:
            # the options are whatever the real NewPruningOptionsFromString makes of the string; the
            # specification's come from its transcription (CONF line of the trace validation)
            if strat == "?":
                strat = rng.choice(UNRECOGNISED)
            krv = kev = None
            args = ["record", "--seed", str(seed * 1000 + j), "--commits", str(r["commits"]), "--use-strategy", "--strategy=" + strat,
                    "--backend", r.get("backend", "memdb")]
        else:
            pr = r["pr"]
            if pr == "rand":
                pr = rng.randint(1, 12)
            elif pr in SHAPES:
                pr = rng.choice(SHAPES[pr])
            krv, kev = PRUNING_SEQ[pr - 1]
            args = ["record", "--seed", str(seed * 1000 + j), "--commits", str(r["commits"]), "--kr", str(krv), "--ke", str(kev),
                    "--backend", r.get("backend", "memdb")]
        if r.get("pll"):
            args += ["--pliveload", str(r["pll"])]
        pal = pick_palette(rng, "C14" if prop == "C14" else "all")
        if pal:
            args += ["--palette", json.dumps(pal, sort_keys=True)]
        if has_ff(pal):
            args.append("--noprove")
        if "PruneBeforeFlush" not in devs:
            args.append("--prune-after-flush")
        spal = r.get("spal")
        if spal is None:
            spal = rng.random() < 0.5
        if spal:
            args.append("--set-pruning-after-load")
        p = common.run_driver("storedrv", args, timeout=900)
        if p.returncode != 0:
            raise common.ToolError("storedrv record failed: %s" % p.stderr[-2000:])
        ls = [x for x in p.stdout.splitlines() if x.strip()]
        metas.append({"args": args, "first_line": len(lines) + 1, "lines": len(ls), "kr": krv, "ke": kev, "strat": strat, "palette": pal})
        lines.extend(ls)
    iss, stats = validate_lines(out, d, lines, metas, devs)
    stats["histories"] = len(runs)
    return iss, stats


def palette_of_args(args):
    return json.loads(args[args.index("--palette") + 1]) if "--palette" in args else {}


def live_load_counts(evs):
    """LoadVersion calls on the live handle in recorded histories, by what the real call did."""
    c = {"total": 0, "failed_pruned": 0, "failed_never_committed": 0, "ok_latest": 0, "ok_older": 0}
    commits = 0
    for e in evs:
        if e["a"] == "reset":
            commits = 0
        elif e["a"] == "flush":
            commits += 1
        elif e["a"] == "liveload":
            c["total"] += 1
            if e.get("ok"):
                c["ok_latest" if e["v"] == commits else "ok_older"] += 1
            else:
                c["failed_pruned" if e["v"] <= commits else "failed_never_committed"] += 1
    return c


def validate_lines(out, d, lines, metas, devs):
    iss = Issues()
    evs = [json.loads(x) for x in lines]

    def run_of(line_no):
        for m in metas:
            if m["first_line"] <= line_no < m["first_line"] + m["lines"]:
                return m
        return metas[-1]

    # prune writes after the flush = the crash-safe order; the model follows what the log shows
    tdev = [x for x in devs]
    text = cfg_text("Trace_MultiStore.cfg", {"Dev": "{" + ", ".join('"%s"' % x for x in tdev) + "}"})
    res = common.run_tlc("Trace_MultiStore", "Trace_MultiStore.cfg", d, workers=1, timeout=1500,
                         files={"trace.ndjson": "\n".join(lines) + "\n", "Trace_MultiStore.cfg": text})
    if res.error:
        raise common.ToolError("trace validation: TLC error: %s\n%s" % (res.error, res.out[-3000:]))
    out.add_tlc(res, "trace validation of %d recorded events (%d histories)" % (len(lines), len(metas)))
    # the options of the SPECIFICATION's configuration per history (TraceReset prints them): the pair
    # handed over, or its transcription's reading of the strategy string
    confs = {c["line"]: c for c in parse_printed(res.out, "CONF")}
    for m in metas:
        c = confs.get(m["first_line"])
        if c is None:
            if m.get("kr") is None:
                m["kr"] = m["ke"] = -1   # the trace was rejected before this history
            continue
        m["kr"], m["ke"] = c["kr"], c["ke"]
        m["strat"] = None if c["strat"] == NO_STRATEGY else c["strat"]
        if not c["same"]:
            iss.add("model:strategy-options-differ",
                    "strategy %r: the real NewPruningOptionsFromString returned (%s, %s), the specification's transcription (%s, %s)"
                    % (c["strat"], evs[m["first_line"] - 1].get("kr"), evs[m["first_line"] - 1].get("ke"), c["kr"], c["ke"]),
                    kr=c["kr"], ke=c["ke"], strat=m["strat"], record_args=m["args"], line=1, origin="recorded-trace")
    # durable writes outside the commit protocol never reach the spec
    for i, e in enumerate(evs):
        m = run_of(i + 1)
        f = {"kr": m["kr"], "ke": m["ke"], "strat": m.get("strat"), "record_args": m["args"], "line": i + 1, "origin": "recorded-trace"}
        if e["a"] == "otherwrite":
            cls = e.get("class") or ""
            iss.add("flush-not-atomic" if ("latest" in cls or "cinfo" in cls) else "model:unexpected-durable-write",
                    "Commit issued a durable write outside the protocol: %s" % cls, **f)
        elif e["a"] == "commitpanic":
            iss.add("commit-panics", "Commit panics: %s" % e.get("err"), **f)
        elif e["a"] == "querypanic" and e.get("sub"):
            iss.add("query-panics", "Query %s (subspace) panics: %s" % ([e["via"], e["s"], e["k"], e["h"]], e["panic"]), **f)
        elif e["a"] == "querypanic":
            kb = conc(m.get("palette") or palette_of_args(m["args"]), e["k"])
            if e["p"] and kb and kb == b"\xff" * len(kb):
                f["cls"] = "proved-all-ff-key"
            iss.add("query-panics", "Query %s (key bytes %s) panics: %s" % ([e["via"], e["s"], e["k"], e["h"], e["p"]], kb.hex(), e["panic"]), **f)
        elif e["a"] == "tool_error":
            iss.tool.append("record: %s" % e.get("err"))
    ends = parse_printed(res.out, "TRACE-END")
    accepted = bool(ends)
    stats = {"histories": len(metas), "events": len(lines), "accepted": accepted,
             "commits": sum(1 for e in evs if e["a"] == "flush"), "loads": sum(1 for e in evs if e["a"] == "load"),
             "queries": sum(1 for e in evs if e["a"] == "query"),
             "pruned_loads_seen": sum(1 for e in evs if e["a"] == "load" and not e.get("ok")),
             "live_loads": live_load_counts(evs),
             "subspace_queries": sum(1 for e in evs if e["a"] == "subspace"),
             "subspace_queries_nonempty": sum(1 for e in evs if e["a"] == "subspace" and e.get("kv")),
             "palettes": [m.get("palette") or palette_of_args(m["args"]) for m in metas],
             "strategy_histories": sorted(m["strat"] for m in metas if m.get("strat") is not None),
             "runs": [{"args": m["args"], "lines": m["lines"], "kr": m["kr"], "ke": m["ke"], "strat": m.get("strat")} for m in metas]}
    if not accepted:
        at = res.depth  # states on the path = consumed lines + 1; the next line is the rejected one
        ev = evs[at - 1] if 0 < at <= len(evs) else None
        m = run_of(at)
        stats["rejected_at_line"] = at
        iss.rejected = "line %d: %s" % (at, json.dumps(ev)[:300])
        iss.add("model:trace-rejected", "the specification has no step for line %d of the recorded history: %s" % (at, json.dumps(ev)[:400]),
                kr=m["kr"], ke=m["ke"], strat=m.get("strat"), record_args=m["args"], line=at, origin="recorded-trace", event=ev)
    else:
        for b in ends[0].get("bad") or []:
            ln = b["line"]
            ev = evs[ln - 1]
            m = run_of(ln)
            extra = {}
            if ev["a"] == "query" and ev.get("proof"):
                # content the real store reported when it committed that height (classification only)
                content = None
                for e2 in evs[m["first_line"] - 1:ln]:
                    if e2["a"] == "flush" and e2.get("ver") == ev.get("height"):
                        content = (e2.get("stores") or {}).get(ev["s"])
                extra = proof_class(ev["k"], nval(ev.get("value")), content, m.get("palette") or palette_of_args(m["args"]))
                extra["cls"] = extra.get("absence_cls") or extra["proof_kind"]
                extra["query"] = [ev["via"], ev["s"], ev["k"], ev["h"], ev["p"]]
            iss.add(b["kind"], "recorded history line %d (line %d of `storedrv %s`): %s: %s"
                    % (ln, ln - m["first_line"] + 1, " ".join(m["args"]), b["kind"], json.dumps(ev)[:500]),
                    kr=m["kr"], ke=m["ke"], strat=m.get("strat"), record_args=m["args"], line=ln - m["first_line"] + 1, origin="recorded-trace",
                    event=ev, **extra)
    return iss, stats


# ------------------------------------------------------------------------------------------------


def report(out, prop, iss, where):
    # problems of the machinery make the run undecided (exit 2) unless the real code has already
    # shown a violation of the property elsewhere in the run (see the end of run())
    for t in iss.tool[:5]:
        out.notes.setdefault("tool_problems", []).append("%s: %s" % (where, t))
    non = out.notes.setdefault("nonconformance_not_normative_for_" + prop, [])
    for x in iss.items:
        sig = x["sig"]
        if sig in NORMATIVE[prop]:
            fields = {k: v for k, v in x.items() if k not in ("sig", "what")}
            fields["found_by"] = where
            out.violation(sig=sig, what=x["what"], **fields)
        else:
            if len(non) < 30:
                non.append({"sig": sig, "what": x["what"][:400], "found_by": where})
    cnt = out.notes.setdefault("difference_counts", {})
    for (sig, cls), n in iss.counts.items():
        cnt["%s|%s|%s" % (where, sig, cls)] = n


def directed_ff_witness(out, d, prop):
    """One directed program per C14 run that shows the three 0xFF faces of the dependency's range-proof
    defect deterministically (sampling alone does not guarantee them): palette P2 ("a" = 0xFF, "b" =
    0x00), store s1 = {a: x} committed as version 1, then three proved queries at height 1.  What the
    specification's QueryMS answers for them is written out here (value of `a`, absence of `ab` and
    `b`, each with a proof that verifies at height 1)."""
    pal = PALETTES[2]
    prog = {"id": "directed-ff", "cfg": {"stores": STORES, "transient": TSTORE, "kr": 0, "ke": 1, "backend": "memdb", "spal": False, "palette": pal},
            "steps": [{"a": "reopen"}, {"a": "write", "op": {"s": "s1", "k": "a", "v": "x", "del": False}}, {"a": "commit", "faults": False, "tries": 1},
                      {"a": "observe", "queries": [["ms", "s1", "a", 1, True], ["ms", "s1", "ab", 1, True], ["ms", "s1", "b", 1, True]]}]}
    res = run_programs(d, [prog], "directed", parallel=1).get("directed-ff") or {}
    obs = res.get("obs") or []
    if res.get("tool_error") or len(obs) != 4 or not obs[2].get("ok"):
        raise common.ToolError("directed 0xFF witness did not run: %s" % json.dumps(res)[:500])
    spec_qs = [["ms", "s1", "a", 1, True, False, "x", True, 1, [1]], ["ms", "s1", "ab", 1, True, False, "<nil>", True, 1, [1]],
               ["ms", "s1", "b", 1, True, False, "<nil>", True, 1, [1]]]
    iss, stats = Issues(), new_stats()
    fields = {"kr": 0, "ke": 1, "spal": False, "strat": None, "id": "directed-ff", "step": 3, "origin": "directed-witness", "program": prog}
    check_queries(iss, obs[3].get("queries"), spec_qs, fields, {1: obs[2].get("hash")}, True, stats, {1: {"s1": {"a": "x"}, "s2": {}}}, pal)
    out.notes["directed_ff_witness"] = sorted("%s|%s" % (x["sig"], x.get("cls")) for x in iss.items)
    report(out, prop, iss, "directed witness of the 0xFF faces of the dependency's range-proof defect")


def check_not_vacuous(prop, stats, tstats):
    """The two extensions must have been exercised on the real code in this very run."""
    sim = stats.get("live_loads") or {}
    rec = tstats.get("live_loads") or {}
    if sim.get("failed_pruned", 0) == 0:
        raise common.ToolError("vacuous: no replayed behaviour contains a failing LoadVersion of a pruned version on the live store (%s)" % sim)
    if prop == "C12" and rec.get("failed_pruned", 0) == 0:
        raise common.ToolError("vacuous: no recorded history contains a failing LoadVersion of a pruned version on the live store (%s)" % rec)
    if sim.get("ok_older", 0) + sim.get("ok_latest", 0) == 0:
        raise common.ToolError("vacuous: no replayed behaviour contains a succeeding LoadVersion on the live store (%s)" % sim)
    ps = stats.get("palettes") or {}
    if ps.get("with_a_first_byte_ff", 0) * 3 < ps.get("programs", 1):
        raise common.ToolError("vacuous: fewer than a third of the replayed programs use a key palette with a first byte 0xFF (%s)" % ps)
    if prop == "C12" and not ps.get("transient_ff_key_committed"):
        raise common.ToolError("vacuous: no replayed program commits after writing a transient key whose first byte is 0xFF (%s)" % ps)
    if prop == "C14":
        sc = stats.get("subspace") or {}
        if not sc.get("successor_of_prefix_stored") or not sc.get("nonempty") or sc.get("queries", 0) == sc.get("nonempty", 0):
            raise common.ToolError("vacuous: the replayed subspace queries lack a prefix whose successor is a stored key, a non-empty or an empty answer (%s)" % sc)
        if not tstats.get("subspace_queries_nonempty"):
            raise common.ToolError("vacuous: no recorded subspace query with a non-empty answer")
    sb = stats.get("strategy_behaviours") or {}
    missing = [s for s in UNRECOGNISED if not sb.get(s)]
    if missing:
        raise common.ToolError("vacuous: no replayed behaviour was configured with the strategy string(s) %r (%s)" % (missing, sb))
    if not [s for s in tstats.get("strategy_histories") or [] if s in UNRECOGNISED]:
        raise common.ToolError("vacuous: no recorded history was configured with an unrecognised strategy string (%s)" % tstats.get("strategy_histories"))


def run(prop, tier, seed):
    if prop not in NORMATIVE:
        raise common.ToolError("multistore family does not handle %s" % prop)
    common.build_harness(NEEDS["cmds"])
    out = common.Outcome(prop, tier, seed)
    rng = random.Random(seed * 7919 + {"C12": 1, "C13": 2, "C14": 3}[prop])
    out.assumptions += [
        "DB batches are atomic (MemDB / GoLevelDB guarantee); a crash happens between durable writes, never inside one",
        "all stores are mounted from version 0 on (no store upgrades), lazy loading off (the applications never enable it)",
        "store hashes are abstract tokens (the write history per saved IAVL version); only equality of real hashes is used",
        "queries never interleave with a running Commit (the ABCI connections are serialised)",
    ]
    with common.Scratch() as d:
        t0 = time.time()
        run_mc(out, d, prop, tier, rng)
        out.notes["t_mc_s"] = round(time.time() - t0, 1)
        # which named deviations does the code really have?  (TLC counterexample -> real code)
        t0 = time.time()
        wits = witness_programs(d, out, seed)
        active, wiss = probe_deviations(d, out, wits)
        out.notes["active_deviations"] = active
        out.notes["t_witness_s"] = round(time.time() - t0, 1)
        if prop == "C13":
            report(out, prop, wiss, "deviation witness (TLC counterexample replayed)")
            out.cov["traces_validated_against_impl"] += len(wits)
        # spec -> code
        t0 = time.time()
        iss, stats, uniq = simulate_and_replay(out, d, prop, tier, seed, rng, active)
        out.notes["replay"] = stats
        out.notes["t_replay_s"] = round(time.time() - t0, 1)
        out.cov["traces_validated_against_impl"] += stats["behaviours"]
        report(out, prop, iss, "replay of TLC behaviours")
        if prop == "C14":
            directed_ff_witness(out, d, prop)
        if uniq:
            h = uniq[0]
            out.sample({"pruning": [h["kr"], h["ke"]],
                        "behaviour": [{k: v for k, v in s.items() if k not in ("obs", "itok", "exp")} for s in h["steps"][:14]]})
        # code -> spec
        t0 = time.time()
        tiss, tstats = record_and_validate(out, d, prop, tier, seed, rng, active)
        out.notes["recorded_traces"] = tstats
        out.notes["t_trace_s"] = round(time.time() - t0, 1)
        out.cov["traces_validated_against_impl"] += tstats["histories"]
        report(out, prop, tiss, "trace validation of recorded histories")
        if prop == "C12":
            # the same property one level up: the whole application (BaseApp + modules over this multistore)
            # crashed anywhere and reopened - Posmint.tla's Crash action, validated by Trace_Posmint
            t0 = time.time()
            from props import posmint
            posmint.stage_crash(out, prop, tier, seed, d)
            out.notes["t_app_crash_s"] = round(time.time() - t0, 1)
        if out.notes.get("tool_problems") and not out.violations:
            raise common.ToolError("; ".join(out.notes["tool_problems"][:3]))
        if not out.violations:
            check_not_vacuous(prop, stats, tstats)
        if tiss.rejected and not out.violations:
            raise common.ToolError("the specification could not follow a recorded history of the real code (%s); "
                                   "that part of the evidence is missing" % tiss.rejected)
    return out


def replay(prop, path):
    """Re-execute a violation's behaviour (or recorded history) on the real code, judge it again with
    the same comparisons and print what happens.  Exit code 1 if the violation shows again."""
    with open(path) as fh:
        rec = json.load(fh)
    v = rec["violation"]
    common.build_harness(NEEDS["cmds"])
    print("violation: %s\n  %s" % (v.get("sig"), v.get("what")))
    with common.Scratch() as d:
        if v.get("behaviour") and v.get("build"):
            b = v["build"]
            prog, plan = to_program(v["behaviour"], b["pid"], b["backend"], b["faults"], b["budget"], None, b.get("paf", False), salt=b.get("salt"), palset=b.get("palset", "all"))
            print("driver input (%s replay <file>):\n%s" % (os.path.join(common.BIN, "storedrv"), json.dumps(prog)[:3000]))
            res = run_programs(d, [prog], "replay", parallel=1).get(prog["id"]) or {}
            for o in res.get("obs") or []:
                o2 = {k: x for k, x in o.items() if k not in ("faults", "queries", "loads")}
                print("  step %s" % json.dumps(o2, sort_keys=True)[:700])
            iss = Issues()
            compare_behaviour(iss, v["behaviour"], prog, plan, res, {}, new_stats())
        elif v.get("record_args"):
            args = v["record_args"]
            p = common.run_driver("storedrv", args, timeout=900)
            ls = [x for x in p.stdout.splitlines() if x.strip()]
            ln = v.get("line") or 1
            print("recorded history: storedrv %s" % " ".join(args))
            for i in range(max(0, ln - 4), min(len(ls), ln)):
                print("%6d %s" % (i + 1, ls[i][:700]))
            out = common.Outcome(prop, rec.get("tier"), rec.get("seed"))
            iss, _ = validate_lines(out, d, ls, [{"args": args, "first_line": 1, "lines": len(ls), "kr": v.get("kr"), "ke": v.get("ke")}], CODE_DEVS)
        elif (v.get("replay") or {}).get("driver") == "posdrv":
            from props import posmint
            return posmint.replay(prop, path)
        else:
            print(json.dumps(v, indent=1)[:4000])
            return 2
    again = [x for x in iss.items if x["sig"] == v.get("sig")]
    for x in iss.items:
        if x["sig"] in NORMATIVE.get(prop, ()):
            print("  -> %s: %s" % (x["sig"], x["what"][:600]))
    print("the violation %s" % ("shows again" if again else "does not show any more"))
    return 1 if again else 0
