"""C17: spec/Gov.tla bound to the real application through DeliverTx of governance transactions.
Same pipeline as props/posmint.py: exhaustive TLC on the design, TLC-simulated transaction
sequences executed on the real app, trace validation of the recorded real run by Trace_Gov."""
import json
import os

import common
import tlagen
from props import posmint as P

NEEDS = {"cmds": ["posdrv"], "specs": ["Gov", "GovSim", "Trace_Gov"]}

K = 17
IACL, IDAO, IUPG = 15, 16, 17


def owners(default, **over):
    o = [default] * K
    for k, v in over.items():
        o[int(k[1:]) - 1] = v
    return tuple(o)


def variants(n):
    # complete ACLs: all owned by 2; hand-over of single parameters; an entry for a non-parameter key
    return {tlagen.rec(owners=owners(2), extra=0),
            tlagen.rec(owners=owners(1, k5=2, k15=2), extra=0),
            tlagen.rec(owners=owners(1, k16=min(3, n), k17=2), extra=2),
            # a hand-over to outside addresses that LOOK like users 1 and 3 (ids 100+u: the user's bytes with the case of
            # every letter byte changed): those users are strangers to these parameters
            tlagen.rec(owners=owners(2, k1=101, k4=100 + min(3, n), k16=101, k17=102), extra=0),
            # a hand-over that DROPS entries (owner 0 = no entry): nobody may change those parameters any more
            tlagen.rec(owners=owners(2, k2=0, k5=0, k17=0), extra=0)}


def gcfg(n=3, **over):
    c = dict(N=n, K=K, IAcl=IACL, IDao=IDAO, IUpg=IUPG, GovFee=1, GenBal=tuple([6] * n), DaoTokens=5, DaoOwner0=2,
             AclOwner0=owners(1), AclVariants=variants(n), Amts={-1, 0, 2, 5, 6}, MaxTx=3, GMaxExp=1, TxFocus="all")
    c.update(over)
    return c


def app_cfg(c, seed):
    return {"app": {"N": c["N"], "PR": 2, "MinStake": 2, "MaxVals": 5, "UnstakeTime": 1, "Window": 5, "MinSigned": "0.5", "JailDur": 1,
                    "MaxEvAge": 1, "FracDS": "0.5", "FracDT": "0.25", "FracDen": 4, "Fee": 1, "GovFee": c["GovFee"], "FeeMult": 1,
                    "Bal": list(c["GenBal"]), "GVals": [], "DaoTokens": c["DaoTokens"], "DaoOwner": c["DaoOwner0"],
                    "AclOwner": list(c["AclOwner0"]), "KeySeed": seed},
            "fracDen": 4, "gov": True}


SIZES = {"quick": dict(num=60, depth=8, onein=40, simt=120, mct=900, maxbeh=1500, mctx=2),
         "thorough": dict(num=600, depth=9, onein=40, simt=300, mct=2400, maxbeh=12000, mctx=3)}


def run(prop, tier, seed):
    out = common.Outcome(prop, tier, seed)
    return stage(out, prop, tier, seed)


def stage(out, prop, tier, seed):
    """The Gov pipeline. For C17 every finding counts; when called for C02 (token conservation across
    DAO transfers and burns) only findings about balances and supply do."""
    size = SIZES[tier]
    if prop != "C17":   # as a stage of another property's check: half the sample
        size = dict(size, num=max(10, size["num"] // 2), maxbeh=size["maxbeh"] // 2)
    common.build_harness(["posdrv"])
    out.assumptions += ["parameter values are compared through per-key value alphabets (index of the stored raw JSON among the values the driver can write); "
                        "every parameter of every subspace is read raw from the params store after every call",
                        "an ACL entry naming an unknown SUBSPACE makes the code call os.Exit; the driver never writes one (recorded in DESIGN.md as an observation)"]
    with common.Scratch() as d:
        c = gcfg(MaxTx=size["mctx"])
        files = tlagen.model("MCG", "Gov", c, spec="GSpec", invariants=["GovInv"], properties=["GovActionProps"])
        res = common.run_tlc("MCG", "MCG.cfg", d, timeout=size["mct"], files=files, coverage=(tier == "thorough"))
        common.require_tlc_ok(res, "Gov exhaustive")
        out.add_tlc(res, "Gov exhaustive N=%d MaxTx=%d" % (c["N"], c["MaxTx"]))
        # two simulated populations: every transaction (mostly rejected ones), and histories of SUCCESSFUL changes by the
        # rightful owners with up to two export/import restarts in between (what was changed must survive them)
        seen = set()
        for si, (sc, nmax) in enumerate([(gcfg(MaxTx=size["depth"] - 2, GovFee=1 + seed % 2), size["maxbeh"]),
                                         (gcfg(MaxTx=size["depth"] - 2, GovFee=1 + seed % 2, TxFocus="owner", GMaxExp=2), max(200, size["maxbeh"] // 5)),
                                         # a chain whose DAO starts empty (the default genesis): everything the DAO owner tries is refused
                                         (gcfg(MaxTx=size["depth"] - 2, GovFee=1, DaoTokens=0, Amts={0, 2}), max(150, size["maxbeh"] // 8))]):
            sim = dict(sc, Depth=size["depth"], OneIn=size["onein"])
            files = tlagen.model("SIMG", "GovSim", sim, spec="SimSpec", constraints=["Emit"])
            res = common.run_tlc("SIMG", "SIMG.cfg", d, timeout=size["simt"], files=files, simulate="num=%d" % size["num"],
                                 depth=size["depth"] + 2, seed=seed * 31 + 5 + si, workers=min(8, common.NCPU))
            if res.error:
                raise common.ToolError("Gov simulation: %s\n%s" % (res.error, res.out[-2000:]))
            behs = P.parse_beh(res.out)[:nmax]
            if not behs:
                raise common.ToolError("Gov simulation produced no behaviours")
            acts = os.path.join(d, "acts.ndjson")
            with open(acts, "w") as fh:
                for b in behs:
                    fh.write(json.dumps(b) + "\n")
            cp = os.path.join(d, "cfg.json")
            with open(cp, "w") as fh:
                json.dump(app_cfg(sc, seed), fh)
            tr = os.path.join(d, "trace.ndjson")
            p = common.run_driver("posdrv", ["run", cp, acts, tr], timeout=1800)
            if p.returncode != 0:
                info = P.locate_exit(cp, behs, d, "gov") if p.returncode > 0 else None
                raise common.ToolError("posdrv died (rc=%s): %s %s" % (p.returncode, (p.stderr or p.stdout)[-2000:],
                                                                      ("- the process ended inside step %d of %s" % (info["step"], json.dumps(info["behaviour"]))) if info else ""))
            lines = [json.loads(x) for x in open(tr)]
            tc = dict(sc, TraceFile="trace.ndjson")
            files = tlagen.model("TRG", "Trace_Gov", tc, spec="TraceSpec", postcondition="TraceAccepted")
            res = common.run_tlc("TRG", "TRG.cfg", d, timeout=3000, files=files, workers=1)
            if res.error or res.rc != 0:
                raise common.ToolError("Gov trace validation did not reach the end of the trace: %s\n%s" % (res.error, res.out[-3000:]))
            out.cov["traces_validated_against_impl"] += len(behs)
            out.notes["real_steps_validated"] = out.notes.get("real_steps_validated", 0) + len(lines)
            kinds = out.notes.get("real_results", {})
            for ln in lines:
                k = ln["act"].get("kind", ln["act"]["a"]) + ":" + ln["res"]["class"]
                kinds[k] = kinds.get(k, 0) + 1
            out.notes["real_results"] = kinds
            out.sample({"behaviour_actions": behs[0], "first_tx_line": next(({"act": x["act"], "res": x["res"]["class"], "gov": x["post"]["gov"]} for x in lines if x["act"]["a"] == "Tx"), None)})
            for dv in common.parse_div(res.out):
                lineno, div, bad = dv["line"], dv["div"], dv["bad"]
                ln = lines[lineno - 1]
                sigs = ["%s" % b for b in sorted(bad)] + ["diverge:%s@%s" % (f, ln["act"].get("kind", ln["act"]["a"])) for f in sorted(div)]
                if prop == "C11":
                    # "a rejected transaction leaves the state as it was, except for the fee" holds for governance messages too
                    sigs = [x.replace("C17.RejectedChangesNothing", "C11.RejectedChangesNothing") for x in sigs if x == "C17.RejectedChangesNothing"]
                if prop == "C02":
                    sigs = [x.replace("C17.SupplyIsSum", "C02.SupplyIsSum") for x in sigs
                            if x == "C17.SupplyIsSum" or x == "C17.DaoOnlyByOwner" or x.startswith("diverge:bal@") or x.startswith("diverge:supply@")]
                for sig in sigs:
                    key = (sig, ln["act"].get("kind", ""), ln["res"]["class"])
                    if key in seen:
                        continue
                    seen.add(key)
                    beh = [x["act"] for x in lines if x["b"] == ln["b"] and x["i"] <= ln["i"]]
                    out.violation(sig=sig, what="%s at behaviour %d step %d: %s -> %s" % (sig, ln["b"], ln["i"], json.dumps(ln["act"]), ln["res"]["class"]),
                                  action=ln["act"]["a"], kind=ln["act"].get("kind", ""), result=ln["res"]["class"], diverged=sorted(div), predicates=sorted(bad),
                                  replay={"cfg": app_cfg(sc, seed), "actions": beh, "observed": ln["post"].get("gov"), "bal": ln["post"]["bal"], "result": ln["res"]})
    return out


def replay(prop, path):
    with open(path) as fh:
        v = json.load(fh)["violation"]
    common.build_harness(["posdrv"])
    with common.Scratch() as d:
        acts = os.path.join(d, "acts.ndjson")
        with open(acts, "w") as fh:
            fh.write(json.dumps(v["replay"]["actions"]) + "\n")
        cp = os.path.join(d, "cfg.json")
        with open(cp, "w") as fh:
            json.dump(v["replay"]["cfg"], fh)
        tr = os.path.join(d, "trace.ndjson")
        p = common.run_driver("posdrv", ["run", cp, acts, tr], timeout=600)
        for x in open(tr):
            e = json.loads(x)
            print(e["i"], json.dumps(e["act"])[:200], e["res"]["class"], e["post"]["gov"]["params"], e["post"]["gov"]["acl"], e["post"]["bal"])
    return 0
