"""C18 -- Int / Uint / Dec / Coins arithmetic is exact and overflow-safe.

Decided by model-based verification with spec/Arith.tla and spec/Coins.tla:

 (i)   TLC, small precision (P = 10 / 100) and small bit widths, complete operand ranges:
       every transcribed Go algorithm yields the outcome the mathematical definitions require
       (MC_Arith*.cfg); each named deviation of the code alone yields a counterexample
       (MC_ArithDev*.cfg); coin sets over 3-4 denominations (MC_Coins*.cfg).
 (ii)  Apalache, P = 10^18, unbounded integers: the chop / rounding relations for ALL integers,
       Mul / MulTruncate for all pairs, range checks of Add/Sub; big-integer witnesses for every
       case split of the rounding (tie with even / odd quotient, below, above, exact, each sign,
       rounding across the Int / int64 / Dec bounds), with the specification's outcomes carried
       in the ITF state.
 (iii) binding, spec -> code: every TLC case (rescaled so that the same rounding position is hit
       at 18 decimals, see SCALE) and every Apalache witness is executed by arithdrv on the real
       sdk.Int/Uint/Dec/Coins and compared with the outcome the specification computed;
       code -> spec: arithdrv emits seeded operand/result tuples over the full 255/256/315 bit
       range; they are written as constants into a generated module and Apalache evaluates the
       specification's requirement Req_<op>(operands, observed outcome) for each (python repeats
       the computation with exact rationals only as a cross-check of the tool).

A violation is raised only when the REAL code's outcome differs from what the property requires.
"""
import concurrent.futures as cf
import hashlib
import json
import math
import os
import random
import re
import shutil
import subprocess
import time
from fractions import Fraction

import common

NEEDS = {"cmds": ["arithdrv"], "specs": ["Arith", "Coins"]}

TIERS = {
    "quick": dict(
        laws=["MC_Arith.cfg"], table="MC_ArithTable.cfg", code="MC_ArithCode.cfg", pdigits=1,
        devs=["MC_ArithDevQuo.cfg", "MC_ArithDevQuoRoundUp.cfg", "MC_ArithDevCeil.cfg"],
        coins="MC_Coins.cfg", coins_code="MC_CoinsCode.cfg",
        samples=320, batch=320, tlc_timeout=600, apa_timeout=300, coverage=True),
    "thorough": dict(
        laws=["MC_ArithThorough.cfg", "MC_ArithThoroughP10.cfg"], table="MC_ArithTableThorough.cfg",
        code="MC_ArithCodeThorough.cfg", pdigits=2,
        devs=["MC_ArithDevQuo.cfg", "MC_ArithDevQuoRoundUp.cfg", "MC_ArithDevCeil.cfg"],
        coins="MC_CoinsThorough.cfg", coins_code="MC_CoinsCodeThorough.cfg",
        samples=4000, batch=400, tlc_timeout=1500, apa_timeout=600, coverage=True),
}

DEV_EXPECT = {"MC_ArithDevQuo.cfg": "Inv_DecQuo", "MC_ArithDevQuoRoundUp.cfg": "Inv_DecQuoRoundUp",
              "MC_ArithDevCeil.cfg": "Inv_DecCeil"}

# operations whose deviation from the property is a named switch of Arith.tla: a violation whose
# observed outcome equals the transcribed code's outcome gets this (sig, cause); anything else on
# the same operation gets "<op>-wrong-result" / "unexplained" and is a different violation
NAMED = {
    "Dec.Quo": ("dec-quo-not-half-even", "double-rounding"),
    "Dec.QuoRoundUp": ("dec-quoroundup-not-ceil", "trunc-before-roundup"),
    "Dec.Ceil": ("dec-ceil-out-of-range-no-panic", "no-range-check"),
}

# Req operator of Arith.tla per driver operation (the *Raw / *64 variants share the requirement)
REQ = {
    "Dec.Add": "Req_DecAdd", "Dec.Sub": "Req_DecSub", "Dec.Mul": "Req_DecMul",
    "Dec.MulTruncate": "Req_DecMulTruncate", "Dec.MulInt": "Req_DecMulInt", "Dec.MulInt64": "Req_DecMulInt",
    "Dec.Quo": "Req_DecQuo", "Dec.QuoTruncate": "Req_DecQuoTruncate", "Dec.QuoRoundUp": "Req_DecQuoRoundUp",
    "Dec.QuoInt": "Req_DecQuoInt", "Dec.QuoInt64": "Req_DecQuoInt",
    "Dec.Cmp": "Req_Cmp", "Dec.Min": "Req_Min", "Dec.Max": "Req_Max",
    "Dec.RoundInt": "Req_DecRoundInt", "Dec.RoundInt64": "Req_DecRoundInt64",
    "Dec.TruncateInt": "Req_DecTruncateInt", "Dec.TruncateInt64": "Req_DecTruncateInt64",
    "Dec.TruncateDec": "Req_DecTruncateDec", "Dec.Ceil": "Req_DecCeil", "Dec.Neg": "Req_DecNeg",
    "Dec.Abs": "Req_DecAbs", "Dec.IsInteger": "Req_DecIsInteger", "Dec.StrRoundTrip": "Req_DecIdentity",
    "Int.Add": "Req_IntAdd", "Int.AddRaw": "Req_IntAdd", "Int.Sub": "Req_IntSub", "Int.SubRaw": "Req_IntSub",
    "Int.Mul": "Req_IntMul", "Int.MulRaw": "Req_IntMul", "Int.Quo": "Req_IntQuo", "Int.QuoRaw": "Req_IntQuo",
    "Int.Mod": "Req_IntMod", "Int.ModRaw": "Req_IntMod", "Int.Cmp": "Req_Cmp", "Int.Min": "Req_Min",
    "Int.Max": "Req_Max", "Int.Neg": "Req_IntNeg", "Int.Int64": "Req_IntInt64", "Int.IsInt64": "Req_IntIsInt64",
    "Int.ToDec": "Req_IntToDec", "Int.Power": "Req_IntPower", "Int.New": "Req_IntNew",
    "Int.NewFromString": "Req_IntNew",
    "Uint.Add": "Req_UintAdd", "Uint.AddUint64": "Req_UintAdd", "Uint.Sub": "Req_UintSub",
    "Uint.SubUint64": "Req_UintSub", "Uint.Mul": "Req_UintMul", "Uint.MulUint64": "Req_UintMul",
    "Uint.Quo": "Req_UintQuo", "Uint.QuoUint64": "Req_UintQuo", "Uint.Cmp": "Req_Cmp", "Uint.Min": "Req_Min",
    "Uint.Max": "Req_Max", "Uint.Uint64": "Req_UintUint64", "Uint.New": "Req_UintNew", "Uint.Parse": "Req_UintNew",
}
DIVOPS = {"Dec.Quo", "Dec.QuoTruncate", "Dec.QuoRoundUp", "Dec.QuoInt", "Dec.QuoInt64", "Int.Quo", "Int.QuoRaw",
          "Int.Mod", "Int.ModRaw", "Uint.Quo", "Uint.QuoUint64"}
# transcribed-code operator for the named deviations (Dev = ConstReal's set): observed = code?
ALG = {"Dec.Quo": "DecQuo", "Dec.QuoRoundUp": "DecQuoRoundUp", "Dec.Ceil": "DecCeil"}
BASE = {"Dec.MulInt64": "Dec.MulInt", "Dec.QuoInt64": "Dec.QuoInt", "Int.AddRaw": "Int.Add", "Int.SubRaw": "Int.Sub",
        "Int.MulRaw": "Int.Mul", "Int.QuoRaw": "Int.Quo", "Int.ModRaw": "Int.Mod", "Uint.AddUint64": "Uint.Add",
        "Uint.SubUint64": "Uint.Sub", "Uint.MulUint64": "Uint.Mul", "Uint.QuoUint64": "Uint.Quo"}

# fixed witnesses of DESIGN 9 R4 and of the other named deviations, always part of the samples
FIXED = [
    ("Dec.Quo", "166666666666666667", "1000000000000000003"),
    ("Dec.Quo", "71428571428571429", "1000000000000000007"),
    ("Dec.Quo", "-166666666666666667", "1000000000000000003"),
    ("Dec.QuoRoundUp", "1", "2000000000000000000000000000000000000"),
    ("Dec.QuoRoundUp", "-1", "-2000000000000000000000000000000000000"),
    ("Dec.Ceil", str(2 ** 315 - 1), ""),
    ("Dec.QuoTruncate", "166666666666666667", "1000000000000000003"),
]


# ------------------------------------------------------------------------------------------------
# tools


def _tlc(module, cfg, d, label, timeout, coverage=False):
    """run_tlc with a retry when the JVM was killed from outside (other checks pkill stray TLCs)."""
    last = None
    for _ in range(3):
        res = common.run_tlc(module, cfg, d, workers=min(8, common.NCPU), timeout=timeout, coverage=coverage)
        last = res
        if res.rc in (143, 137, -15, -9) or ("Finished in" not in res.out and not res.violated):
            time.sleep(1.0)
            continue
        return res
    raise common.ToolError("%s: TLC was killed repeatedly (rc=%s)" % (label, last.rc if last else None))


class ApaResult:
    def __init__(self, status, itf, wall, log):
        self.status, self.itf, self.wall, self.log = status, itf, wall, log


def _apalache(workdir, module, init, nxt, inv, timeout, label, cinit="ConstReal"):
    """apalache-mc check --length=0; status ok | violated | stalled | error."""
    out = os.path.join(workdir, "apa_" + re.sub(r"\W", "_", label))
    args = ["timeout", str(timeout), "apalache-mc", "check", "--cinit=" + cinit, "--init=" + init, "--next=" + nxt,
            "--length=0", "--inv=" + inv, "--out-dir=" + out, module + ".tla"]
    env = dict(os.environ)
    env.setdefault("JVM_ARGS", "-Xmx6g -XX:ActiveProcessorCount=3")
    t0 = time.time()
    for _ in range(3):
        p = subprocess.run(args, cwd=workdir, env=env, capture_output=True, text=True)
        if p.returncode not in (137, 143, -9, -15):   # killed from outside (shared machine): once more
            break
        shutil.rmtree(out, ignore_errors=True)
        time.sleep(1.0)
    wall = time.time() - t0
    log = p.stdout + p.stderr
    if p.returncode == 124:
        return ApaResult("stalled", None, wall, log)
    if "The outcome is: NoError" in log:
        return ApaResult("ok", None, wall, log)
    if "The outcome is: Error" in log and "violated" in log:
        for root, _, files in os.walk(out):
            if "violation1.itf.json" in files:
                with open(os.path.join(root, "violation1.itf.json")) as fh:
                    return ApaResult("violated", json.load(fh), wall, log)
        return ApaResult("error", None, wall, log)
    return ApaResult("error", None, wall, log)


def _itf(v):
    """ITF JSON value -> python (big integers, records, sequences)."""
    if isinstance(v, dict):
        if "#bigint" in v:
            return int(v["#bigint"])
        if "#tup" in v:
            return [_itf(e) for e in v["#tup"]]
        if "#set" in v:
            return [_itf(e) for e in v["#set"]]
        return {k: _itf(e) for k, e in v.items() if not k.startswith("#")}
    if isinstance(v, list):
        return [_itf(e) for e in v]
    return v


def _lit(n):
    n = int(n)
    return "(%d)" % n if n < 0 else "%d" % n


def _drive(requests, label):
    """requests: list of dicts -> list of response dicts (same order)."""
    if not requests:
        return []
    stdin = "\n".join(json.dumps(r, separators=(",", ":")) for r in requests) + "\n"
    p = common.run_driver("arithdrv", ["eval"], stdin=stdin, timeout=1800)
    if p.returncode != 0:
        raise common.ToolError("arithdrv eval died (%s): rc=%s %s" % (label, p.returncode, p.stderr[-1500:]))
    out = [json.loads(l) for l in p.stdout.splitlines() if l.strip()]
    if len(out) != len(requests):
        raise common.ToolError("arithdrv eval (%s): %d responses for %d requests" % (label, len(out), len(requests)))
    return out


# ------------------------------------------------------------------------------------------------
# violations are collected per (sig, op, cause) with a count and a few examples


class Findings:
    def __init__(self):
        self.by = {}

    def add(self, sig, op, cause, source, what, example, repro):
        key = (sig, op, cause)
        e = self.by.setdefault(key, {"count": 0, "sources": {}, "examples": [], "what": what, "repro": repro})
        e["count"] += 1
        e["sources"][source] = e["sources"].get(source, 0) + 1
        if len(e["examples"]) < 3:
            e["examples"].append(example)

    def flush(self, out):
        for (sig, op, cause), e in sorted(self.by.items()):
            out.violation(sig=sig, what="%s [%d case(s); first: %s]" % (e["what"], e["count"], json.dumps(e["examples"][0])),
                          op=op, cause=cause, count=e["count"], sources=e["sources"], examples=e["examples"],
                          repro=e["repro"])


def _classify(op, matches_code):
    base = BASE.get(op, op)
    if base in NAMED and matches_code:
        return NAMED[base]
    return (op.lower().replace(".", "-") + "-wrong-result", "unexplained")


def _repro(reqs, expected):
    return {"driver": "arithdrv", "args": ["eval"], "stdin": [json.dumps(r, separators=(",", ":")) for r in reqs],
            "expected": expected,
            "how": "cd /verif/harness && go build -tags verif -o bin/arithdrv ./cmd/arithdrv && printf '%s\\n' '<stdin line>' | bin/arithdrv eval"}


# ------------------------------------------------------------------------------------------------
# (i) + (iii a): TLC case tables and their replay on the real types

TOK = re.compile(r'"([^"]*)"')


def _parse_table(text):
    ops, uops, rows, urows = None, None, [], []
    for line in text.splitlines():
        if not line.startswith('"<<'):
            continue
        try:
            toks = TOK.findall(json.loads(line))
        except ValueError:
            continue
        if not toks:
            continue
        if toks[0] == "OPS":
            ops = toks[1:]
        elif toks[0] == "UOPS":
            uops = toks[1:]
        elif toks[0] == "CASE":
            rows.append(toks[1:])
        elif toks[0] == "UCASE":
            urows.append(toks[1:])
    if not ops or not uops:
        raise common.ToolError("case table: OPS/UOPS header not found in TLC output")
    table = {}
    classes = {}
    for r in rows:
        x, y = int(r[0]), int(r[1])
        classes[(x, y)] = r[2:5]
        vals = r[5:]
        if len(vals) != len(ops):
            raise common.ToolError("case table: row %s has %d cells, expected %d" % (r[:2], len(vals), len(ops)))
        for op, v in zip(ops, vals):
            table[(op, x, y)] = v
    uclasses = {}
    for r in urows:
        x = int(r[0])
        uclasses[x] = r[1]
        vals = r[2:]
        if len(vals) != len(uops):
            raise common.ToolError("case table: unary row %s has %d cells" % (r[:1], len(vals)))
        for op, v in zip(uops, vals):
            table[(op, x, None)] = v
    return table, classes, uclasses, len(rows), len(urows)


def _factors(op, pdigits, rnd):
    """Rescale a model case (x, y, v) for precision 10^pdigits to the real precision 10^18 so that
    the SAME exact rational is rounded at the SAME position: returns multipliers (fa, fb, fv) with
    a = x*fa, b = y*fb, required value = v*fv.  Exact operations are homogeneous (a common factor k
    goes through); Mul chops 18 digits of x*y*10^(18-p); Quo divides x*k by y*10^(18-p)*k (the same
    quotient x*10^p/y); unary roundings read x*10^(18-p)."""
    S = 10 ** (18 - pdigits)
    k = rnd.choice([1, 1, 3, 10 ** rnd.randrange(0, 30), (1 << rnd.randrange(1, 120)) + 1, rnd.getrandbits(90) + 1])
    typ, name = op.split(".")
    if op in ("Dec.Mul", "Dec.MulTruncate"):
        j = rnd.randrange(0, 18 - pdigits + 1)
        if rnd.random() < 0.5:
            return 10 ** j, 10 ** (18 - pdigits - j), 1
        return 10 ** (18 - pdigits - j), 10 ** j, 1
    if op in ("Dec.Quo", "Dec.QuoTruncate", "Dec.QuoRoundUp"):
        return k, S * k, 1
    if op in ("Dec.QuoInt", "Int.Quo", "Uint.Quo"):
        return k, k, 1
    if op == "Int.Mod":
        return k, k, k
    if name in ("Add", "Sub", "Min", "Max"):
        return k, k, k
    if name == "Cmp":
        return k, k, 1
    if op == "Dec.MulInt" or (name == "Mul" and typ in ("Int", "Uint")):
        k2 = rnd.choice([1, 7, 10 ** rnd.randrange(0, 20)])
        return k, k2, k * k2
    if op in ("Dec.RoundInt", "Dec.RoundInt64", "Dec.TruncateInt", "Dec.TruncateInt64", "Dec.IsInteger"):
        return S, None, 1
    if op in ("Dec.TruncateDec", "Dec.Ceil"):
        return S, None, S
    if op in ("Dec.Neg", "Dec.Abs", "Int.Neg"):
        return k, None, k
    if op == "Int.ToDec":
        return k, None, S * k
    if op == "Int.Power":  # model PR = 10^pdigits, real PowerReduction = 10^6
        return 10 ** (6 - pdigits), None, 1
    if op in ("Int.Int64", "Uint.Uint64"):
        return 1, None, 1
    raise common.ToolError("no scaling rule for " + op)


def _alt_expect(alt_op, exp):
    """required outcome of a variant reported next to the main operation"""
    if alt_op == "Int.IsInt64":
        return ("ok", "1" if exp[0] == "ok" else "0")
    return exp


def _replay_table(out, find, table, code_table, pdigits, seed, notes):
    rnd = random.Random(seed * 7919 + 17)
    reqs, exps = [], []
    skipped_model_panic = 0

    def cell_exp(cell, fv):
        if cell in (None, "n"):
            return None
        return ("panic", None) if cell == "p" else ("ok", str(int(cell) * fv))

    keys = sorted(table, key=lambda k: (k[0], k[1], k[2] if k[2] is not None else 0))
    for key in keys:
        op, x, y = key
        cell = table[key]
        if cell == "n":
            continue
        if cell == "p" and not ((op in DIVOPS and y == 0) or op == "Uint.Sub"):
            # a panic of the small model is required of the real code only where it does not
            # depend on the model's bit widths: zero divisors and negative Uint differences
            skipped_model_panic += 1
            continue
        fa, fb, fv = _factors(op, pdigits, rnd)
        r = {"id": len(reqs), "op": op, "a": str(x * fa)}
        if fb is not None:
            r["b"] = str(y * fb)
        reqs.append(r)
        exps.append((cell_exp(cell, fv), cell_exp(code_table.get(key), fv), key))
    resp = _drive(reqs, "tlc case table")
    n_cmp = 0
    per_op = {}
    for r, q, (exp, code_exp, key) in zip(resp, reqs, exps):
        op, x, y = key
        if r["k"] == "skip":
            continue
        outs = [(op, r["k"], r.get("v"))] + [(a["op"], a["k"], a.get("v")) for a in r.get("alts", [])]
        for (rop, k, v) in outs:
            n_cmp += 1
            per_op[rop] = per_op.get(rop, 0) + 1
            got = (k, v if k == "ok" else None)
            want = _alt_expect(rop, exp)
            if got != want:
                sig, cause = _classify(rop, code_exp is not None and got == _alt_expect(rop, code_exp))
                find.add(sig, rop, cause, "tlc-case",
                         "%s on the real type differs from the outcome the specification requires" % rop,
                         {"model_case": [x, y], "a": q["a"], "b": q.get("b"), "required": want, "observed": got},
                         _repro([q], {"k": want[0], "v": want[1]}))
        if r.get("a2") != q["a"] or (q.get("b") is not None and r.get("b2") != q["b"]):
            find.add("operand-mutated", op, "aliasing", "tlc-case", "operand changed by the call",
                     {"a": q["a"], "b": q.get("b"), "a2": r.get("a2"), "b2": r.get("b2")}, _repro([q], {"operands": "unchanged"}))
    notes["tlc_cases_replayed"] = n_cmp
    notes["tlc_cases_per_op"] = per_op
    notes["model_range_panics_not_replayable"] = skipped_model_panic
    for (exp, _, key), q in list(zip(exps, reqs))[:2]:
        out.sample({"tlc_case": key, "request": q, "required": exp})
    return n_cmp


# ------------------------------------------------------------------------------------------------
# (ii): Apalache theorems and witnesses

THEOREMS_X = ["Thm_ChopRound", "Thm_ChopTrunc", "Thm_ChopRoundUp", "Thm_Ceil", "Thm_RoundInt", "Thm_TruncateInt"]
THEOREMS_XY = ["Thm_DivHalfEven", "Thm_AddSubRange", "Thm_Mul", "Thm_MulTruncate"]
# a relation Apalache is known to stall on (division by a variable): tried in the thorough tier only,
# a stall is recorded, never a verdict
HARD = ["Thm_QuoTruncate"]

WIT_OPS = ["Dec.Mul", "Dec.MulTruncate", "Dec.RoundInt", "Dec.RoundInt64", "Dec.TruncateInt", "Dec.TruncateInt64",
           "Dec.TruncateDec", "Dec.Ceil", "Dec.Quo", "Dec.QuoTruncate", "Dec.QuoRoundUp"]


def _witness_module(seed):
    """One refutable invariant whose counterexample carries a big-integer operand for EVERY case
    split of the rounding, together with the specification's outcomes for it."""
    rnd = random.Random(seed * 104729 + 3)
    K = rnd.getrandbits(rnd.randrange(70, 250))
    cases = []
    for c in ["exact", "below", "above", "tie-even", "tie-odd"]:
        cases.append(("%s_pos" % c, 'Big(v) /\\ v > 0 /\\ ChopCase(v) = "%s"' % c))
        cases.append(("%s_neg" % c, 'Big(v) /\\ v < 0 /\\ ChopCase(v) = "%s"' % c))
    cases += [
        ("int_at_bound", 'ChopRound(v) = IntMax /\\ ChopCase(v) # "exact"'),
        ("int_round_over", "ChopRound(v) = IntMax + 1 /\\ ChopTrunc(v) = IntMax"),
        ("int_neg_over", "ChopRound(v) = -IntMax - 1 /\\ ChopTrunc(v) = -IntMax"),
        ("i64_round_over", "ChopRound(v) = I64Max + 1 /\\ ChopTrunc(v) = I64Max"),
        ("i64_neg_bound", 'ChopRound(v) = -I64Max - 1 /\\ ChopCase(v) # "exact"'),
        ("ceil_over", "InDec(v) /\\ ~InDec(CeilVal(v))"),
        ("ceil_neg_frac", "Big(v) /\\ v < 0 /\\ TRem(v, P) # 0"),
    ]
    n = len(cases)
    decl = ",\n".join("    \\* @type: Int;\n    v%d,\n    \\* @type: Seq({ ok: Bool, v: Int });\n    w%d" % (i, i) for i in range(n))
    conds = "\n".join("C%d(v) == %s" % (i, e) for i, (_, e) in enumerate(cases))
    init = "\n".join("    /\\ v%d \\in Int /\\ InDec(v%d) /\\ w%d = Outs(v%d)" % (i, i, i, i) for i in range(n))
    allv = ", ".join("v%d, w%d" % (i, i) for i in range(n))
    allc = " /\\ ".join("C%d(v%d)" % (i, i) for i in range(n))
    mod = """---- MODULE ArithWit ----
\\* generated at run time
EXTENDS Arith
VARIABLES
%s
\\* the specification's outcomes for operand v, in the order of WIT_OPS of lib/props/arith.py
\\* @type: Int => Seq({ ok: Bool, v: Int });
Outs(v) == << DecMul(v, 1), DecMulTruncate(v, 1), DecRoundInt(v), DecRoundInt64(v), DecTruncateInt(v),
              DecTruncateInt64(v), DecTruncateDec(v), Out(CeilVal(v), InDec(CeilVal(v))),
              Ok(ChopRound(v)), Ok(ChopTrunc(v)), Ok(ChopRoundUp(v)) >>
Big(v) == Abs(v) > %d
%s
WInit ==
    /\\ x = 0 /\\ y = 0
%s
WNext == UNCHANGED <<x, y, %s>>
\\* refuted by a state that realises every case at once
NoWitnesses == ~(%s)
====
""" % (decl, K, conds, init, allv, allc)
    return mod, [nm for nm, _ in cases]


def _apalache_jobs(d, tier, seed):
    """[(kind, label, args of _apalache)] for theorems and witnesses; writes the generated module."""
    cfg = TIERS[tier]
    wit_mod, wit_names = _witness_module(seed)
    with open(os.path.join(d, "ArithWit.tla"), "w") as fh:
        fh.write(wit_mod)
    shutil.copyfile(os.path.join(common.SPEC, "Arith.tla"), os.path.join(d, "Arith.tla"))
    to = cfg["apa_timeout"]
    jobs = [("thm", "theorems_x", (d, "Arith", "ApaInitX", "ApaNext", ",".join(THEOREMS_X), to, "theorems_x")),
            ("thm", "theorems_xy", (d, "Arith", "ApaInit", "ApaNext", ",".join(THEOREMS_XY), to, "theorems_xy")),
            ("wit", "witnesses", (d, "ArithWit", "WInit", "WNext", "NoWitnesses", to, "witnesses"))]
    if tier == "thorough":
        jobs.append(("hard", "hard", (d, "Arith", "ApaInit", "ApaNext", ",".join(HARD), 150, "hard")))
    return jobs, wit_names


def _finish_apalache_part(results, wit_names, out, find, notes):
    proved, stalled, walls = [], [], {}
    wit = None
    for (kind, label), r in sorted(results.items()):
        walls[label] = round(r.wall, 1)
        if kind == "thm":
            if r.status == "ok":
                proved += THEOREMS_X if label == "theorems_x" else THEOREMS_XY
            elif r.status == "violated":
                raise common.ToolError("Apalache refutes a theorem of %s on the specification itself (specification bug): %s"
                                       % (label, r.log[-1500:]))
            else:
                raise common.ToolError("Apalache %s on %s: %s" % (r.status, label, r.log[-1200:]))
        elif kind == "hard":
            if r.status == "ok":
                proved += HARD
            else:
                stalled += ["%s (%s after %.0f s)" % (h, r.status, r.wall) for h in HARD]
        elif kind == "wit":
            wit = r
    notes["apalache_proved_P_1e18_all_integers"] = proved
    notes["apalache_stalled"] = stalled
    notes["apalache_wall_s"] = walls
    if wit is None or wit.status != "violated":
        raise common.ToolError("Apalache produced no witnesses (%s): %s" % (wit.status if wit else "not run", wit.log[-1200:] if wit else ""))
    st = _itf(wit.itf["states"][0])
    reqs, exps, labels = [], [], []
    for i, name in enumerate(wit_names):
        x, w = st["v%d" % i], st["w%d" % i]
        for op, o in zip(WIT_OPS, w):
            q = {"id": len(reqs), "op": op, "a": str(x)}
            if op in ("Dec.Mul", "Dec.MulTruncate"):
                q["b"] = "1"
            elif op in ("Dec.Quo", "Dec.QuoTruncate", "Dec.QuoRoundUp"):
                q["b"] = str(10 ** 36)
            reqs.append(q)
            exps.append(("ok", str(o["v"])) if o["ok"] else ("panic", None))
            labels.append(name)
        out.sample({"apalache_witness": name, "x": str(x),
                    "spec_outcomes": dict(zip(WIT_OPS, [str(o["v"]) if o["ok"] else "panic" for o in w]))}, limit=6)
    resp = _drive(reqs, "apalache witnesses")
    ncmp = 0
    for r, q, exp, lab in zip(resp, reqs, exps, labels):
        ncmp += 1
        got = (r["k"], r.get("v") if r["k"] == "ok" else None)
        if got != exp:
            # the only code outcome that may legitimately be named: Ceil returning the right
            # value where a panic is required
            matches_code = q["op"] == "Dec.Ceil" and exp[0] == "panic" and got[0] == "ok"
            sig, cause = _classify(q["op"], matches_code)
            find.add(sig, q["op"], cause, "apalache-witness",
                     "%s on the real type differs from the specification's outcome for an Apalache witness" % q["op"],
                     {"witness": lab, "a": q["a"], "b": q.get("b"), "required": exp, "observed": got},
                     _repro([q], {"k": exp[0], "v": exp[1]}))
        if r.get("a2") != q["a"]:
            find.add("operand-mutated", q["op"], "aliasing", "apalache-witness", "operand changed by the call",
                     {"a": q["a"], "a2": r.get("a2")}, _repro([q], {"operands": "unchanged"}))
    notes["apalache_witnesses"] = len(wit_names)
    notes["apalache_witness_cases_replayed"] = ncmp
    return ncmp


# ------------------------------------------------------------------------------------------------
# (iii b): seeded samples from the real code, evaluated against the specification by Apalache


def _py_required(op, a, b, P=10 ** 18):
    """Cross-check only (never the verdict): the required outcome with python's exact rationals.
    Returns ("ok", value) | ("panic", None) | None when python does not model the operation."""
    IM, UM, DM = 2 ** 255 - 1, 2 ** 256 - 1, 2 ** 315 - 1
    I64 = (-(2 ** 63), 2 ** 63 - 1)

    def he(n, d):
        fr = Fraction(n, d)
        fl = math.floor(fr)
        r = fr - fl
        if r < Fraction(1, 2):
            return fl
        if r > Fraction(1, 2):
            return fl + 1
        return fl if fl % 2 == 0 else fl + 1

    def tr(n, d):
        q = abs(n) // abs(d)
        return q if (n < 0) == (d < 0) else -q

    def up(n, d):
        return math.ceil(Fraction(n, d))

    def lim(v, kind):
        ok = {"I": abs(v) <= IM, "U": 0 <= v <= UM, "D": abs(v) <= DM, "6": I64[0] <= v <= I64[1],
              "u": 0 <= v <= 2 ** 64 - 1, "": True}[kind]
        return ("ok", v) if ok else ("panic", None)

    base = BASE.get(op, op)
    try:
        if base == "Dec.Add":
            return lim(a + b, "D")
        if base == "Dec.Sub":
            return lim(a - b, "D")
        if base == "Dec.Mul":
            return lim(he(a * b, P), "D")
        if base == "Dec.MulTruncate":
            return lim(tr(a * b, P), "D")
        if base == "Dec.MulInt":
            return lim(a * b, "D")
        if base in ("Dec.Quo", "Dec.QuoTruncate", "Dec.QuoRoundUp", "Dec.QuoInt", "Int.Quo", "Uint.Quo") and b == 0:
            return ("panic", None)
        if base == "Dec.Quo":
            return lim(he(a * P, b), "D")
        if base == "Dec.QuoTruncate":
            return lim(tr(a * P, b), "D")
        if base == "Dec.QuoRoundUp":
            return lim(up(a * P, b), "D")
        if base == "Dec.QuoInt":
            return lim(tr(a, b), "D")
        if base == "Dec.RoundInt":
            return lim(he(a, P), "I")
        if base == "Dec.RoundInt64":
            return lim(he(a, P), "6")
        if base == "Dec.TruncateInt":
            return lim(tr(a, P), "I")
        if base == "Dec.TruncateInt64":
            return lim(tr(a, P), "6")
        if base == "Dec.TruncateDec":
            return lim(tr(a, P) * P, "D")
        if base == "Dec.Ceil":
            return lim(up(a, P) * P, "D")
        if base == "Int.Add":
            return lim(a + b, "I")
        if base == "Int.Sub":
            return lim(a - b, "I")
        if base == "Int.Mul":
            return lim(a * b, "I")
        if base == "Int.Quo":
            return lim(tr(a, b), "I")
        if base == "Uint.Add":
            return lim(a + b, "U")
        if base == "Uint.Sub":
            return lim(a - b, "U")
        if base == "Uint.Mul":
            return lim(a * b, "U")
        if base == "Uint.Quo":
            return lim(tr(a, b), "U")
    except ZeroDivisionError:
        return ("panic", None)
    return None


def _sample_module(name, rows):
    """rows: list of (op, a, b, k, v). One definition per sample (Snowcat is much faster this way)."""
    defs, algs = [], []
    for i, (op, a, b, k, v) in enumerate(rows):
        o = "O(%s, %s)" % ("TRUE" if k == "ok" else "FALSE", _lit(v) if k == "ok" else "0")
        base = BASE.get(op, op)
        if op in DIVOPS and b is not None and int(b) == 0:
            e = "Req_DivByZero(%s)" % o
        else:
            args = [_lit(a)] + ([_lit(b)] if b is not None else [])
            e = "%s(%s, %s)" % (REQ[op], ", ".join(args), o)
        defs.append("S%d == %s" % (i, e))
        if base in ALG and not (b is not None and int(b) == 0):
            args = [_lit(a)] + ([_lit(b)] if b is not None else [])
            algs.append("A%d == %s(%s) = %s" % (i, ALG[base], ", ".join(args), o))
        else:
            algs.append("A%d == TRUE" % i)
    n = len(rows)
    return """---- MODULE %s ----
\\* generated at run time: operands and outcomes observed on the real sdk types, as constants
EXTENDS Arith
VARIABLES
    \\* @type: Seq(Bool);
    req,
    \\* @type: Seq(Bool);
    alg
\\* @type: (Bool, Int) => { ok: Bool, v: Int };
O(k, val) == [ok |-> k, v |-> val]
%s
%s
\\* @type: Seq(Bool);
ReqVec == << %s >>
\\* @type: Seq(Bool);
AlgVec == << %s >>
SInit == x = 0 /\\ y = 0 /\\ req = ReqVec /\\ alg = AlgVec
SNext == UNCHANGED <<x, y, req, alg>>
\\* every observed outcome is the one the property requires
AllReq == \\A i \\in DOMAIN req : req[i]
====
""" % (name, "\n".join(defs), "\n".join(algs), ", ".join("S%d" % i for i in range(n)), ", ".join("A%d" % i for i in range(n)))


def _prepare_samples(d, tier, seed, find):
    """Run the seeded generator on the real code, write the generated modules; returns the
    Apalache jobs and what is needed to interpret their results."""
    cfg = TIERS[tier]
    p = common.run_driver("arithdrv", ["gen", "-seed", str(seed), "-n", str(cfg["samples"])], timeout=600)
    if p.returncode != 0:
        raise common.ToolError("arithdrv gen died: " + p.stderr[-1500:])
    resp = [json.loads(l) for l in p.stdout.splitlines() if l.strip()]
    fixed = [{"id": i, "op": op, "a": a, **({"b": b} if b else {}), "cat": "fixed-witness"} for i, (op, a, b) in enumerate(FIXED)]
    resp = _drive(fixed, "fixed witnesses") + resp
    rows, meta = [], []
    cats = {}
    for r in resp:
        if r["k"] == "skip":
            continue
        a = r["a"]
        b = r.get("b") or None
        if r.get("a2") != a or (b is not None and r.get("b2") != b):
            find.add("operand-mutated", r["op"], "aliasing", "sample", "operand changed by the call",
                     {"a": a, "b": b, "a2": r.get("a2"), "b2": r.get("b2")},
                     _repro([{"id": 0, "op": r["op"], "a": a, **({"b": b} if b else {})}], {"operands": "unchanged"}))
        for (op, k, v) in [(r["op"], r["k"], r.get("v"))] + [(x["op"], x["k"], x.get("v")) for x in r.get("alts", [])]:
            if op not in REQ:
                raise common.ToolError("sample with unknown operation " + op)
            rows.append((op, a, b, k, v))
            meta.append({"op": op, "a": a, "b": b, "k": k, "v": v, "cat": r.get("cat")})
            cats[(op, r.get("cat"))] = cats.get((op, r.get("cat")), 0) + 1
    batches = [list(range(i, min(i + cfg["batch"], len(rows)))) for i in range(0, len(rows), cfg["batch"])]
    jobs = []
    for bi, idx in enumerate(batches):
        name = "ArithSamples%d" % bi
        with open(os.path.join(d, name + ".tla"), "w") as fh:
            fh.write(_sample_module(name, [rows[i] for i in idx]))
        jobs.append(("smp", bi, (d, name, "SInit", "SNext", "AllReq", cfg["apa_timeout"] * 2, name)))
    return jobs, dict(rows=rows, meta=meta, cats=cats, batches=batches, nfixed=len(fixed))


def _finish_samples(results, prep, out, find, notes):
    rows, meta, cats, batches = prep["rows"], prep["meta"], prep["cats"], prep["batches"]
    nfail = 0
    walls = []
    crosscheck_disagree = []
    for bi, idx in enumerate(batches):
        r = results[("smp", bi)]
        walls.append(round(r.wall, 1))
        if r.status == "ok":
            reqv = [True] * len(idx)
            algv = [True] * len(idx)
        elif r.status == "violated":
            st = _itf(r.itf["states"][0])
            reqv, algv = st["req"], st["alg"]
            if len(reqv) != len(idx):
                raise common.ToolError("Apalache sample batch %d: vector length %d for %d samples" % (bi, len(reqv), len(idx)))
        else:
            raise common.ToolError("Apalache %s on sample batch %d (%d samples): %s" % (r.status, bi, len(idx), r.log[-1500:]))
        for pos, i in enumerate(idx):
            m = meta[i]
            ok = bool(reqv[pos])
            # python cross-check of the tool (not a verdict)
            pr = _py_required(m["op"], int(m["a"]), int(m["b"]) if m["b"] is not None else 0)
            if pr is not None:
                py_ok = (m["k"], int(m["v"]) if m["k"] == "ok" else None) == pr
                if py_ok != ok:
                    crosscheck_disagree.append({"sample": m, "apalache": ok, "python_required": [pr[0], str(pr[1])]})
            if not ok:
                nfail += 1
                sig, cause = _classify(m["op"], BASE.get(m["op"], m["op"]) in ALG and bool(algv[pos]))
                q = {"id": 0, "op": BASE.get(m["op"], m["op"]), "a": m["a"]}
                if m["b"] is not None:
                    q["b"] = m["b"]
                find.add(sig, m["op"], cause, "sample",
                         "%s: the outcome observed on the real type violates %s of Arith.tla (P = 10^18)" % (m["op"], REQ[m["op"]]),
                         {"a": m["a"], "b": m["b"], "observed": [m["k"], m["v"]], "cat": m["cat"],
                          "python_crosscheck_required": None if pr is None else [pr[0], str(pr[1])]},
                         _repro([q], {"requirement": REQ[m["op"]]} if pr is None else
                                {"requirement": REQ[m["op"]], "k": pr[0], "v": None if pr[1] is None else str(pr[1])}))
    if crosscheck_disagree:
        raise common.ToolError("Apalache's evaluation of the specification and the exact-rational cross-check disagree "
                               "(tool problem, not a verdict): " + json.dumps(crosscheck_disagree[:3]))
    notes["samples_evaluated_by_apalache"] = len(rows)
    notes["sample_batches"] = len(batches)
    notes["sample_batch_wall_s"] = walls
    notes["samples_violating_requirement"] = nfail
    notes["sample_categories"] = {"%s/%s" % k: v for k, v in sorted(cats.items())}
    for m in meta[prep["nfixed"]:prep["nfixed"] + 2]:
        out.sample({"sample": m})
    return len(rows)


# ------------------------------------------------------------------------------------------------
# coins


def _denoms(seed, nd):
    rnd = random.Random(seed * 31337 + 5)
    alpha = "abcdefghijklmnopqrstuvwxyz"
    alnum = alpha + "0123456789"
    ds = set()
    # a prefix pair and a digit/letter neighbour are always worth having
    base = rnd.choice(alpha) + "".join(rnd.choice(alnum) for _ in range(2))
    ds.add(base)
    if nd >= 2:
        ds.add(base + rnd.choice(alnum))
    while len(ds) < nd:
        n = rnd.choice([3, 3, 4, 8, 16])
        ds.add(rnd.choice(alpha) + "".join(rnd.choice(alnum) for _ in range(n - 1)))
    good = sorted(ds)  # python compares code points; all ASCII, same as Go's byte order
    bad = rnd.choice(["Abc", "Xyz9", "Upokt"])
    return [bad] + good


def _coins_cases(text):
    cases = []
    for line in text.splitlines():
        if line.startswith('"{'):
            try:
                cases.append(json.loads(json.loads(line)))
            except ValueError:
                continue
    return cases


def _run_coins(d, tier, seed, out, find, notes):
    cfg = TIERS[tier]
    res = _tlc("Coins", cfg["coins"], d, "Coins design", cfg["tlc_timeout"], coverage=cfg["coverage"])
    common.require_tlc_ok(res, "Coins " + cfg["coins"])
    out.add_tlc(res, "Coins %s (Dev = {}): transcription = per-denomination meaning, all cases" % cfg["coins"])
    resc = _tlc("Coins", cfg["coins_code"], d, "Coins code", cfg["tlc_timeout"])
    common.require_tlc_ok(resc, "Coins " + cfg["coins_code"])
    out.add_tlc(resc, "Coins %s (code as it is)" % cfg["coins_code"])
    cases = _coins_cases(res.out)
    code_cases = {json.dumps([c["kind"], c["A"], c.get("B")]): c for c in _coins_cases(resc.out)}
    if not cases:
        raise common.ToolError("Coins: no case printed by TLC")
    nd = max([cn[0] for c in cases for cn in c["A"]] + [1])
    den = _denoms(seed, nd)
    rnd = random.Random(seed * 65537 + 11)
    K = rnd.choice([1, 1, 10 ** 6, 2 ** 64 + 1, 10 ** 30, (1 << 240) + 12345, rnd.getrandbits(200) + 1])
    notes["coins_denoms"] = den
    notes["coins_amount_scale"] = str(K)

    def real(seq):
        return [[den[c[0]], str(c[1] * K)] for c in seq]

    reqs = []
    for c in cases:
        if c["kind"] == "pair":
            reqs.append({"id": len(reqs), "op": "Coins.Pair", "A": real(c["A"]), "B": real(c["B"])})
        else:
            reqs.append({"id": len(reqs), "op": "Coins.One", "A": real(c["A"]), "denoms": den})
    resp = _drive(reqs, "coins")
    ncmp = 0
    observed_notes = {}
    panics = [0]

    def bad(c, q, opname, required, observed, cause="unexplained", sig=None):
        find.add(sig or ("coins-" + opname.lower().split(":")[0] + "-wrong-result"), "Coins." + opname.split(":")[0], cause, "tlc-case",
                 "Coins.%s on the real type differs from what Coins.tla requires" % opname,
                 {"A": q["A"], "B": q.get("B"), "required": required, "observed": observed},
                 _repro([q], {opname: required}))

    for c, q, r in zip(cases, reqs, resp):
        o = r["coins"]
        cc = code_cases.get(json.dumps([c["kind"], c["A"], c.get("B")]), {})
        for name, ro in o.items():
            if not ro.get("same", False):
                # operands of the unary table may be invalid sequences; only valid operands are normative
                if c["kind"] == "pair" or c.get("IsValid") == "T":
                    find.add("coins-operand-mutated", "Coins." + name.split(":")[0], "aliasing", "tlc-case",
                             "a valid Coins operand was changed by the call", {"A": q["A"], "B": q.get("B")}, _repro([q], {"operands": "unchanged"}))

        def coins_out(name, exp):
            nonlocal ncmp
            ncmp += 1
            ro = o[name]
            if exp["p"]:
                if ro["k"] != "panic":
                    bad(c, q, name, "panic", ro)
                return
            want = real(exp["c"])
            if ro["k"] != "ok" or ro.get("c", []) != want:
                bad(c, q, name, want, ro)
            elif name != "SafeSub" and ro.get("valid") is not True:
                bad(c, q, name, "IsValid() of the result", ro, sig="coins-result-not-canonical")

        def flag_out(name, exp):
            nonlocal ncmp
            if exp == "any":
                observed_notes.setdefault(name + " on (empty, empty): not normative, observed", set()).add(str(o[name].get("f")))
                return
            ncmp += 1
            ro = o[name]
            if exp == "F|panic":
                # equal length, different denominations: false or the test-pinned panic
                if ro["k"] == "panic":
                    observed_notes.setdefault("IsEqual on equal length / different denoms: false or panic accepted, observed", set()).add("panic")
                    panics[0] += 1
                    return
                exp = "F"
            want = exp == "T"
            if ro["k"] != "ok" or ro.get("f") is not want:
                bad(c, q, name, want, ro)

        if c["kind"] == "pair":
            for name in ("Add", "Sub", "SafeSub", "AddSub", "SubAdd"):
                coins_out(name, c[name])
            flag_out("SafeSub", c["SafeSubNeg"])
            for name in ("IsAllGT", "IsAllGTE", "IsAllLT", "IsAllLTE", "IsAnyGT", "IsAnyGTE", "IsEqual", "DenomsSubsetOf"):
                flag_out(name, c[name])
        else:
            for name in ("IsValid", "IsZero", "Empty", "IsAllPositive", "IsAnyNegative"):
                flag_out(name, c[name])
            coins_out("NewCoins", c["NewCoins"])
            for di, exp in enumerate(c["AmountOf"]):
                ncmp += 1
                ro = o["AmountOf:" + den[di]]
                if exp == "panic":
                    if ro["k"] != "panic":
                        bad(c, q, "AmountOf:" + den[di], "panic", ro)
                elif ro["k"] != "ok" or ro.get("v") != str(int(exp) * K):
                    bad(c, q, "AmountOf:" + den[di], str(int(exp) * K), ro)
    notes["coins_cases"] = len(cases)
    notes["coins_results_compared"] = ncmp
    notes["coins_isequal_panics_accepted"] = panics[0]
    notes["coins_not_normative_observed"] = {k: sorted(v) for k, v in observed_notes.items()}
    if cfg["coverage"]:
        notes["coins_tlc_coverage"] = _coverage_summary(res.out, "Coins")
    out.sample({"coins_case": cases[len(cases) // 3], "request": reqs[len(cases) // 3]}, limit=8)
    return ncmp


# ------------------------------------------------------------------------------------------------


def _coverage_summary(text, module):
    sites, zero = 0, []
    for m in re.finditer(r"line (\d+), col (\d+) to line (\d+), col (\d+) of module %s: (\d+)" % module, text):
        sites += 1
        if int(m.group(5)) == 0:
            zero.append("line %s col %s-%s" % (m.group(1), m.group(2), m.group(4)))
    return {"expression_sites": sites, "never_evaluated": sorted(set(zero))[:20]}


ASSUMPTIONS = [
        "INTERPRETATION (project lead): the half-to-even clause binds Dec.Mul and Dec.Quo (with their Truncate and "
        "RoundUp variants); Dec.QuoInt / Dec.QuoInt64 are the truncating integer quotient of the underlying integer "
        "(documented only as 'quotient', a bare big.Int.Quo) and are required to round toward zero.",
        "Dec's representable range is |units| <= 2^315 - 1 (the bit-length bound of Add/Sub/Mul/Quo); Int is "
        "|v| <= 2^255 - 1, Uint is 0..2^256 - 1.",
        "Two-variable Quo relations are not proved symbolically (Apalache stalls): unbounded proof covers the chop "
        "step, Mul/MulTruncate, DivHalfEven and the range checks; the composition for Quo is bound by TLC's complete "
        "small ranges, the rescaled replay and the seeded samples.",
        "INTERPRETATION (project lead): Coins.IsEqual on two sets of equal length over different denominations may "
        "return false or panic (the repository's TestEqualCoins pins the panic of Coin.IsEqual); everywhere else it "
        "must equal the per-denomination comparison.",
        "Modelled as the code does and not normative: Coins{}.IsAllGT(Coins{}) = false (doc comment read literally is "
        "vacuously true; pinned by the repository's tests); Coins.IsValid applies the denomination regex to the first "
        "coin only; NewDecFromStr / NewDecFromBigInt have no range check; DecCoins is not covered.",
        "A panic of the small TLC model that stems from its narrow bit widths is not replayed at real scale "
        "(range behaviour at the real bounds is bound by Apalache witnesses and the seeded samples).",
]


def run(prop, tier, seed):
    cfg = TIERS[tier]
    out = common.Outcome(prop, tier, seed)
    find = Findings()
    notes = out.notes
    phase = notes.setdefault("phase_wall_s", {})
    common.build_harness(["arithdrv"])
    with common.Scratch() as d:
        t0 = time.time()
        # ---- Apalache runs start in the background (few JVMs at a time), TLC runs in the foreground
        ad = os.path.join(d, "apalache")
        os.makedirs(ad)
        jobs, wit_names = _apalache_jobs(ad, tier, seed)
        sjobs, prep = _prepare_samples(ad, tier, seed, find)
        pool = cf.ThreadPoolExecutor(max_workers=4)
        futs = {pool.submit(_apalache, *args): (kind, label) for kind, label, args in jobs + sjobs}
        phase["prepare"] = round(time.time() - t0, 1)
        try:
            t0 = time.time()
            # ---- TLC: laws on tight bounds
            for c in cfg["laws"]:
                res = _tlc("Arith", c, d, c, cfg["tlc_timeout"], coverage=cfg["coverage"])
                common.require_tlc_ok(res, "Arith " + c)
                out.add_tlc(res, "Arith %s (Dev = {}): algorithm = definition on the complete range" % c)
                if cfg["coverage"]:
                    notes.setdefault("arith_tlc_coverage", {})[c] = _coverage_summary(res.out, "Arith")
            # ---- TLC: every named deviation alone is refuted by its invariant
            refuted = {}
            for c in cfg["devs"]:
                res = _tlc("Arith", c, d, c, cfg["tlc_timeout"])
                if res.error:
                    raise common.ToolError("Arith %s: TLC error %s" % (c, res.error))
                if DEV_EXPECT[c] not in res.violated:
                    raise common.ToolError("Arith %s: expected a counterexample of %s, TLC reports %s"
                                           % (c, DEV_EXPECT[c], res.violated or "none"))
                m = re.findall(r"/\\ x = (-?\d+)\s*\n/\\ y = (-?\d+)", res.out)
                refuted[c] = {"invariant": DEV_EXPECT[c], "model_counterexample_xy": m[-1] if m else None}
            notes["deviation_counterexamples_at_model_scale"] = refuted
            # ---- TLC: case tables
            rt = _tlc("Arith", cfg["table"], d, cfg["table"], cfg["tlc_timeout"])
            common.require_tlc_ok(rt, "Arith " + cfg["table"])
            out.add_tlc(rt, "Arith %s: required outcomes, printed" % cfg["table"])
            rc = _tlc("Arith", cfg["code"], d, cfg["code"], cfg["tlc_timeout"])
            common.require_tlc_ok(rc, "Arith " + cfg["code"])
            out.add_tlc(rc, "Arith %s: the code's deviations, printed" % cfg["code"])
            phase["tlc_arith"] = round(time.time() - t0, 1)
            t0 = time.time()
            table, classes, uclasses, nrows, nurows = _parse_table(rt.out)
            code_table, _, _, _, _ = _parse_table(rc.out)
            diff = {}
            for k, v in table.items():
                if code_table.get(k) != v:
                    diff[k[0]] = diff.get(k[0], 0) + 1
            notes["code_vs_required_cells_differing_at_model_scale"] = diff
            cls = {"product": {}, "quotient": {}, "value": {}}
            for (x, y), (c1, c2, c3) in classes.items():
                cls["product"][c1] = cls["product"].get(c1, 0) + 1
                cls["quotient"][c2] = cls["quotient"].get(c2, 0) + 1
            for x, c3 in uclasses.items():
                cls["value"][c3] = cls["value"].get(c3, 0) + 1
            notes["rounding_branch_counts_in_table"] = cls
            for part in ("product", "quotient", "value"):
                for need in ("exact", "below", "above", "tie-even", "tie-odd"):
                    if not cls[part].get(need):
                        raise common.ToolError("vacuity: no %s case with rounding branch %s in the TLC table" % (part, need))
            notes["table_rows"] = {"binary": nrows, "unary": nurows}
            n1 = _replay_table(out, find, table, code_table, cfg["pdigits"], seed, notes)
            phase["replay_table"] = round(time.time() - t0, 1)
            # ---- Coins
            t0 = time.time()
            n2 = _run_coins(d, tier, seed, out, find, notes)
            phase["coins"] = round(time.time() - t0, 1)
            # ---- Apalache results: theorems, witnesses, samples
            t0 = time.time()
            results = {}
            for fu in cf.as_completed(futs):
                results[futs[fu]] = fu.result()
            phase["wait_for_apalache"] = round(time.time() - t0, 1)
        finally:
            pool.shutdown(wait=True, cancel_futures=True)
        n3 = _finish_apalache_part({k: v for k, v in results.items() if k[0] != "smp"}, wit_names, out, find, notes)
        n4 = _finish_samples(results, prep, out, find, notes)
    out.cov["traces_validated_against_impl"] = n1 + n2 + n3 + n4
    out.cov["exhaustive"] = True
    out.assumptions += ASSUMPTIONS
    find.flush(out)
    return out


def replay(prop, path):
    with open(path) as fh:
        rec = json.load(fh)
    v = rec["violation"]
    rp = v.get("repro") or {}
    common.build_harness(["arithdrv"])
    lines = rp.get("stdin", [])
    p = common.run_driver("arithdrv", rp.get("args", ["eval"]), stdin="\n".join(lines) + "\n", timeout=300)
    print("violation: sig=%s op=%s cause=%s" % (v.get("sig"), v.get("op"), v.get("cause")))
    print("requests :", *lines, sep="\n  ")
    print("real code:", p.stdout.strip())
    print("required :", json.dumps(rp.get("expected")))
    exp = rp.get("expected") or {}
    still = True
    try:
        r = json.loads(p.stdout.splitlines()[0])
        if "k" in exp:
            still = not (r.get("k") == exp["k"] and (exp["k"] != "ok" or r.get("v") == exp.get("v")))
    except (ValueError, IndexError):
        pass
    print("the real outcome %s the required one" % ("still differs from" if still else "now equals"))
    return 1 if still else 0
