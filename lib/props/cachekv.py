"""C15 - cache-wrapped stores behave like an overlay that is applied atomically.

Technique (DESIGN.md 4.4, 5, 7/C15): model-based verification with explicit TLA+ specifications.
  spec/CacheKV.tla      abstract overlay tree (views, iterators as snapshots, Write, discard)
  spec/CacheKVImpl.tla  transcription of store/cachekv/{store,memiterator,mergeiterator}.go run in
                        lock step with the abstract module; TLC checks refinement + the C15 clauses
  spec/Trace_CacheKV.tla      trace validation of random programs with richer keys (code -> spec)
  spec/Trace_CacheKVConc.tla  linearizability search for concurrent Get/Has/Set/Delete histories
Binding: TLC-generated behaviours (transition tours over the labelled state graph, simulated
behaviours of the implementation-level spec) are replayed by harness/cmd/kvdrv on real
cachekv.Store stacks over dbadapter.Store{MemDB} and on cachemulti stores; every return value is
compared with the specification's.  The python code here only orchestrates and compares for
equality; every expected value comes out of TLC.
Refused calls (Set with a nil value, Get/Has/Set/Delete with a nil key on a wrapper; operator
Refused of CacheKV.tla, labels REFUSED below) are part of all three sources of programs: the
specification's result is "panic" and no variable changes, kvdrv recovers the panic and keeps using
the same stores, so an effect of a refused call surfaces in the reads, iterations, Write and reads
of the parent that follow it.
"""
import json
import os
import random
import re
import time

import common

WORKERS = min(8, common.NCPU)   # shared machine: never more than 8 TLC workers
REFUSED = ("SetNil", "GetNoKey", "HasNoKey", "DeleteNoKey", "SetNoKey")   # RefusedOps of CacheKV.tla

NEEDS = {"cmds": ["kvdrv"],
         "specs": ["CacheKV", "CacheKVImpl", "Trace_CacheKV", "Trace_CacheKVConc"]}

# ------------------------------------------------------------------------------------------------
# getting values out of TLC


def iter_tlc_json_lines(out, tag):
    """PrintT(<<tag, ToJson(x)>>) lines -> decoded x, one at a time."""
    import io
    pre = '<<"%s", ' % tag
    for line in io.StringIO(out):
        if not line.startswith(pre):
            continue
        line = line.rstrip("\n")
        if not line.endswith(">>"):
            raise common.ToolError("truncated %s line in TLC output" % tag)
        try:
            yield json.loads(json.loads(line[len(pre):-2]))
        except ValueError as e:
            raise common.ToolError("cannot parse %s line from TLC: %s: %.200s" % (tag, e, line))


def tlc_json_lines(out, tag):
    return list(iter_tlc_json_lines(out, tag))


def tla_key(s):
    """'<<1, 1>>' -> [1, 1]"""
    return [int(x) for x in re.findall(r"-?\d+", s)]


def init_of_base(base):
    """ToJson of [Keys -> optional value] -> driver init list"""
    return [{"k": tla_key(k), "v": v[0]} for k, v in sorted(base.items()) if v]


# ------------------------------------------------------------------------------------------------
# programs


def op_for_driver(act, res, rng):
    op = {k: act[k] for k in ("op", "s", "k", "v", "st", "en", "asc", "it")}
    if act["op"] == "CacheWrap":
        op["n"] = res
    if act["op"] in ("IterAll", "IterOpen", "IterNext"):
        op["pat"] = rng.randrange(4)
    return op


def drops(ws_pre, ws_post, live_pre, live_post, act):
    """operations that tell the driver which objects the specification dropped because they
    left the contract (no result is expected from them)"""
    extra = []
    for i in sorted(live_pre - live_post):
        if not (act["op"] == "IterClose" and act["it"] == i):
            extra.append({"op": "DropIt", "it": i})
    for w in range(len(ws_pre)):
        if ws_pre[w] != -1 and ws_post[w] == -1 and not (act["op"] == "Discard" and act["s"] == w + 1):
            extra.append({"op": "DropW", "s": w + 1})
    return extra


class Graph:
    """labelled state graph printed by the EdgeOut action constraint of CacheKV.tla"""

    def __init__(self, edges, keys):
        self.keys = keys
        self.ids = {}
        self.states = []
        self.out = {}  # node -> list of (act, res, dst)
        self.n_edges = 0
        for pre, act, res, post in edges:
            a, b = self.node(pre), self.node(post)
            # label and result are kept as JSON text (half a million edges in the thorough tier), decoded on use
            self.out.setdefault(a, []).append((json.dumps(act), json.dumps(res), b))
            self.n_edges += 1

    def node(self, st):
        key = json.dumps(st, sort_keys=True)
        i = self.ids.get(key)
        if i is None:
            i = self.ids[key] = len(self.states)
            self.states.append(st)
        return i

    def initial(self):
        res = []
        for i, st in enumerate(self.states):
            base, par, ov, used, its = st
            if all(p == -1 for p in par) and all(v in ([], ["a"]) for v in base):
                res.append(i)
        return res


def tours(g, rng, want=None, max_len=60, loops_per_visit=6):
    """Walks from initial states that together cover the edges in `want` (default: all).
    Returns a list of walks; a walk is (initial node, [(src, act, res, dst), ...])."""
    inits = g.initial()
    if not inits:
        raise common.ToolError("state graph has no initial state")
    # BFS tree from the initial states over non-loop edges
    how = {i: None for i in inits}
    frontier = list(inits)
    while frontier:
        nxt = []
        for u in frontier:
            for j, (act, res, v) in enumerate(g.out.get(u, [])):
                if v not in how:
                    how[v] = (u, j)
                    nxt.append(v)
        frontier = nxt
    todo = {}  # node -> set of edge indices still to cover
    for u, es in g.out.items():
        idx = set(range(len(es))) if want is None else {j for j in range(len(es)) if (u, j) in want}
        if idx:
            todo[u] = idx
    unreachable = [u for u in todo if u not in how]
    if unreachable:
        raise common.ToolError("%d states with edges are unreachable from the initial states" % len(unreachable))
    walks = []
    order = sorted(todo)
    rng.shuffle(order)
    for target in order:
        while todo.get(target):
            path = []
            u = target
            while how[u] is not None:
                p, j = how[u]
                path.append((p, j))
                u = p
            start = u
            path.reverse()
            walk = []
            for p, j in path:
                act, res, v = g.out[p][j]
                walk.append((p, json.loads(act), json.loads(res), v))
                if p in todo:
                    todo[p].discard(j)
            u = target
            while len(walk) < max_len:
                es = g.out.get(u, [])
                mine = todo.get(u, set())
                loops = [j for j in mine if es[j][2] == u]
                moves = [j for j in mine if es[j][2] != u]
                took = False
                for j in sorted(loops)[:loops_per_visit]:
                    act, res, v = es[j]
                    walk.append((u, json.loads(act), json.loads(res), v))
                    mine.discard(j)
                    took = True
                if moves:
                    j = rng.choice(sorted(moves))
                    act, res, v = es[j]
                    walk.append((u, json.loads(act), json.loads(res), v))
                    mine.discard(j)
                    # observe the stores around a Write / Discard when that is a self-loop of the graph
                    u = v
                    took = True
                elif not took:
                    break
                elif not loops[loops_per_visit:]:
                    # nothing left here: move along any edge that leads to a node with work
                    cand = [j for j in range(len(es)) if es[j][2] != u and todo.get(es[j][2])]
                    if not cand:
                        break
                    j = rng.choice(cand)
                    act, res, v = es[j]
                    walk.append((u, json.loads(act), json.loads(res), v))
                    u = v
            walks.append((start, walk))
            for k in [k for k, s in todo.items() if not s]:
                del todo[k]
    return walks


def observe_around_writes(g, walk):
    """Insert full iterations of the parent (self-loop edges of the graph, hence still a walk of the
    graph) before and after every Write and after every Discard: 'parent unchanged until Write',
    'after Write the parent holds the view', 'discard leaves no effect'."""
    def full_iter(u, s):
        for act, res, v in g.out.get(u, []):
            if v == u and '"IterAll"' in act:
                a = json.loads(act)
                if a["s"] == s and a["st"] == [] and a["en"] == [] and a["asc"]:
                    return (u, a, json.loads(res), v)
        return None
    res = []
    for (u, act, r, v) in walk:
        if act["op"] in ("Write", "Discard"):
            p = g.states[u][1][act["s"] - 1]
            e = full_iter(u, p)
            if e:
                res.append(e)
            res.append((u, act, r, v))
            e = full_iter(v, p)
            if e:
                res.append(e)
        else:
            res.append((u, act, r, v))
    return res


def observe_after_refused(g, walk):
    """Insert, after every refused call, reads of the same store that are self-loop edges of the graph
    (the walk stays a walk): Get/Has of the key of a refused Set and a full iteration in both
    directions.  'A refused call takes effect not at all': the expected results are the graph's."""
    def loops(u, s, k):
        got = []
        for act, res, v in g.out.get(u, []):
            if v != u or ('"Get"' not in act and '"Has"' not in act and '"IterAll"' not in act):
                continue
            a = json.loads(act)
            if a["s"] != s:
                continue
            if a["op"] in ("Get", "Has") and k is not None and a["k"] == k:
                got.append((u, a, json.loads(res), v))
            elif a["op"] == "IterAll" and a["st"] == [] and a["en"] == []:
                got.append((u, a, json.loads(res), v))
        return got
    res = []
    for (u, act, r, v) in walk:
        res.append((u, act, r, v))
        if act["op"] in REFUSED and u == v:
            res.extend(loops(u, act["s"], act["k"] if act["op"] == "SetNil" else None))
    return res


def program_from_walk(g, start, walk, pid, rng):
    base = {json.dumps(k): v for k, v in zip(g.keys, g.states[start][0])}
    ops, exp = [], []
    for (u, act, res, v) in walk:
        ops.append(op_for_driver(act, res, rng))
        exp.append(res)
        su, sv = g.states[u], g.states[v]
        live_u = {i + 1 for i, it in enumerate(su[4]) if it[0] != -1}
        live_v = {i + 1 for i, it in enumerate(sv[4]) if it[0] != -1}
        for d in drops(su[1], sv[1], live_u, live_v, act):
            ops.append(d)
            exp.append("ok")
    return {"id": pid, "init": init_of_base(base), "ops": ops, "exp": exp}


def program_from_hist(h, pid, rng):
    ops, exp = [], []
    ws, live = h[0]["ws"], set(h[0]["live"])
    for e in h[1:]:
        ops.append(op_for_driver(e["a"], e["r"], rng))
        exp.append(e["r"])
        for d in drops(ws, e["ws"], live, set(e["live"]), e["a"]):
            ops.append(d)
            exp.append("ok")
        ws, live = e["ws"], set(e["live"])
    return {"id": pid, "init": init_of_base(h[0]["r"]), "ops": ops, "exp": exp}


# ------------------------------------------------------------------------------------------------
# replay on the real code


def depth_of(prog, upto, s):
    par = {}
    for op in prog["ops"][:upto + 1]:
        if op["op"] == "CacheWrap":
            par[op["n"]] = op["s"]
    d = 0
    while s in par:
        s = par[s]
        d += 1
    return d


def run_programs(out, progs, mode, d, label, race=False):
    """execute programs on the real code and compare every result with the specification's"""
    path = os.path.join(d, "prog-%s-%s.ndjson" % (label, mode))
    with open(path, "w") as fh:
        for p in progs:
            fh.write(json.dumps({"id": p["id"], "init": p["init"], "ops": p["ops"]}) + "\n")
    out.notes.setdefault("_files", []).append(["seq", path, mode])
    pr = common.run_driver("kvdrv", ["seq", path, mode], timeout=1200, race=race)
    if pr.returncode != 0:
        raise common.ToolError("kvdrv seq failed (rc %d): %s" % (pr.returncode, pr.stderr[-2000:]))
    lines = [json.loads(x) for x in pr.stdout.splitlines() if x.strip()]
    if len(lines) != len(progs):
        raise common.ToolError("kvdrv returned %d results for %d programs" % (len(lines), len(progs)))
    nops = 0
    for p, r in zip(progs, lines):
        if r["id"] != p["id"] or len(r["res"]) != len(p["ops"]):
            raise common.ToolError("kvdrv result does not match program %s" % p["id"])
        nops += len(p["ops"])
        for i, (want, got) in enumerate(zip(p["exp"], r["res"])):
            if want != got:
                op = p["ops"][i]
                if isinstance(got, dict) and "driver" in got:
                    raise common.ToolError("driver/program mismatch in %s step %d: %s" % (p["id"], i, got))
                kind = "panic" if isinstance(got, dict) and "panic" in got else \
                    "substores-differ" if isinstance(got, dict) and "substores_differ" in got else "result"
                out.violation(
                    sig="seq-%s-%s" % (op["op"], kind),
                    what="%s on %s: %s returned %s, the specification (overlay view) requires %s [program %s step %d]"
                         % (op["op"], mode, json.dumps(op), json.dumps(got), json.dumps(want), p["id"], i),
                    kind="seq", mode=mode, op=op["op"], depth=depth_of(p, i, op.get("s", 0)),
                    asc=op.get("asc"), expected=want, observed=got, step=i,
                    program={"id": p["id"], "init": p["init"], "ops": p["ops"][:i + 1], "exp": p["exp"][:i + 1]})
                break
    out.cov["traces_validated_against_impl"] += len(progs)
    out.notes.setdefault("replayed", []).append({"what": label, "mode": mode, "programs": len(progs), "operations": nops})
    return nops


# ------------------------------------------------------------------------------------------------
# completeness evidence (not a verdict): Go statement coverage of the store packages under the
# generated programs


COVER_PKGS = ["cachekv", "cachemulti", "prefix", "gaskv", "tracekv", "types", "dbadapter"]


def go_coverage(d, runs, files_of_interest):
    """Rebuild kvdrv with -cover, rerun the given program files ([subcommand, path, mode...]) and
    return {file: {covered, total, uncovered_lines}} for the files of interest."""
    import subprocess
    exe = os.path.join(d, "kvdrv-cover")
    base = "github.com/pokt-network/posmint/store/"
    modflag = ["-modfile=" + os.path.join(common.BIN, "go.mod")] if common.REPO != "/repo" else []
    p = subprocess.run(["go", "build"] + modflag + ["-tags", "verif", "-cover", "-coverpkg=" + ",".join([base + x for x in COVER_PKGS] + ["verif/harness/cmd/kvdrv"]),   # main must be listed too
                        "-o", exe, "./cmd/kvdrv"], cwd=common.HARNESS, env=common.goenv(), capture_output=True, text=True)
    if p.returncode != 0:
        raise common.ToolError("coverage build failed: " + (p.stdout + p.stderr)[-2000:])
    covdir = os.path.join(d, "gocov")
    os.makedirs(covdir, exist_ok=True)
    env = common.goenv()
    env["GOCOVERDIR"] = covdir
    for args in runs:
        p = subprocess.run([exe] + args, env=env, capture_output=True, text=True, timeout=1200)
        if p.returncode != 0:
            raise common.ToolError("coverage run failed: " + p.stderr[-1000:])
    txt = os.path.join(d, "gocov.txt")
    p = subprocess.run(["go", "tool", "covdata", "textfmt", "-i=" + covdir, "-o=" + txt], env=common.goenv(), capture_output=True, text=True)
    if p.returncode != 0:
        raise common.ToolError("go tool covdata failed: " + p.stderr[-1000:])
    res = {}
    with open(txt) as fh:
        for line in fh:
            m = re.match(r"(\S+):(\d+)\.\d+,(\d+)\.\d+ (\d+) (\d+)", line)
            if not m:
                continue
            f = m.group(1).replace("github.com/pokt-network/posmint/", "")
            if f not in files_of_interest:
                continue
            r = res.setdefault(f, {"covered": 0, "total": 0, "uncovered_lines": []})
            r["total"] += int(m.group(4))
            if int(m.group(5)) > 0:
                r["covered"] += int(m.group(4))
            else:
                r["uncovered_lines"].append("%s-%s" % (m.group(2), m.group(3)))
    return res


# ------------------------------------------------------------------------------------------------
# random programs with richer keys, validated by TLC against the abstract specification


class Gen:
    """Seeded generator of contract-respecting programs (a conservative subset of what CacheKV.tla
    allows; if it ever leaves the contract the trace specification reports STUCK = tool error)."""

    KEYS = [[], [0], [0, 0], [0, 255], [1], [1, 0], [1, 1], [1, 1, 1], [1, 255], [2], [127], [255], [255, 0], [255, 255]]
    VALS = ["", "a", "b", "cc", "ddd", "éè", "0"]

    def __init__(self, rng, maxw=4, maxit=3, nkeys=7, stats=None):
        self.rng = rng
        self.maxw, self.maxit = maxw, maxit
        self.keys = rng.sample(self.KEYS, nkeys)
        self.bounds = self.keys + rng.sample(self.KEYS, 4) + [[1, 1, 0], [254], [0, 1]]
        self.par = {}      # wrapper -> parent
        self.used = {}
        self.its = {}      # slot -> [wrapper, remaining (unknown to us: we count steps only), exhausted?]
        self.dirty = {}    # wrapper -> {key: "set" | "del"}: only used to aim refused calls at clean / dirty keys
        self.stats = stats if stats is not None else {}

    def count(self, what):
        self.stats[what] = self.stats.get(what, 0) + 1

    def anc(self, s):
        r = []
        while s != 0:
            s = self.par[s]
            r.append(s)
        return r

    def desc(self, s):
        return [d for d in self.par if s in self.anc(d)]

    def touch(self, s):
        for x in [s] + self.anc(s):
            if x != 0:
                self.used[x] = True

    def gone(self, s, ex):
        below = [d for d in self.desc(s) if d not in ex]
        res = []
        for d in below:
            path = [x for x in [d] + self.anc(d) if x in below]
            if any(self.used[x] for x in path):
                res.append(d)
        return res

    def bound(self):
        return [] if self.rng.random() < 0.3 else [self.rng.choice(self.bounds)]

    def program(self, pid, n):
        rng = self.rng
        self.par, self.used, self.its, self.dirty = {}, {}, {}, {}
        init = [{"k": k, "v": rng.choice(self.VALS)} for k in self.keys if rng.random() < 0.5]
        ops = []
        while len(ops) < n:
            stores = [0] + sorted(self.par)
            leafs = [s for s in stores if not self.desc(s)]
            c = rng.choice(["get", "has", "set", "set", "del", "all", "all", "open", "next", "next", "next", "close",
                            "write", "wrap", "discard", "setany", "refuse"])
            if c in ("get", "has"):
                s = rng.choice(stores)
                ops.append({"op": "Get" if c == "get" else "Has", "s": s, "k": rng.choice(self.keys)})
                self.touch(s)
            elif c in ("set", "del", "setany"):
                s = rng.choice(leafs if c != "setany" else stores)
                if self.gone(s, []):
                    continue  # would push used wrappers out of the contract: not generated
                k = rng.choice(self.keys)
                if c == "del":
                    ops.append({"op": "Delete", "s": s, "k": k})
                else:
                    ops.append({"op": "Set", "s": s, "k": k, "v": rng.choice(self.VALS)})
                if s != 0:
                    self.dirty[s][tuple(k)] = "del" if c == "del" else "set"
                self.touch(s)
                self.kill_its(self.desc(s), ops)
            elif c == "all":
                s = rng.choice(stores)
                ops.append({"op": "IterAll", "s": s, "st": self.bound(), "en": self.bound(), "asc": rng.random() < 0.5,
                            "pat": rng.randrange(4)})
                self.touch(s)
            elif c == "open":
                free = [i for i in range(1, self.maxit + 1) if i not in self.its]
                ws = sorted(self.par)
                if not free or not ws:
                    continue
                s = rng.choice(ws)
                ops.append({"op": "IterOpen", "s": s, "st": self.bound(), "en": self.bound(), "asc": rng.random() < 0.5,
                            "it": free[0], "pat": rng.randrange(4)})
                self.its[free[0]] = s
                self.touch(s)
            elif c == "next":
                if not self.its:
                    continue
                i = rng.choice(sorted(self.its))
                ops.append({"op": "IterNext", "it": i, "s": self.its[i], "pat": rng.randrange(4), "ifvalid": True})
            elif c == "close":
                if not self.its:
                    continue
                i = rng.choice(sorted(self.its))
                ops.append({"op": "IterClose", "it": i, "s": self.its[i]})
                del self.its[i]
            elif c == "write":
                if not self.par:
                    continue
                self.write(rng.choice(sorted(self.par)), ops)
            elif c == "refuse":
                self.refuse(ops)
            elif c == "wrap":
                free = [i for i in range(1, self.maxw + 1) if i not in self.par]
                if not free:
                    continue
                s = rng.choice(stores)
                ops.append({"op": "CacheWrap", "s": s, "n": free[0]})
                self.par[free[0]] = s
                self.used[free[0]] = False
                self.dirty[free[0]] = {}
            elif c == "discard":
                if not self.par or rng.random() < 0.5:
                    continue
                w = rng.choice(sorted(self.par))
                gone = [w] + self.desc(w)
                ops.append({"op": "Discard", "s": w})
                self.kill_its(gone, ops)
                for x in gone:
                    del self.par[x]
                    del self.used[x]
                    del self.dirty[x]
        for op in ops:
            for f, dflt in (("s", 0), ("k", []), ("v", ""), ("st", []), ("en", []), ("asc", True), ("it", 0), ("n", 0)):
                op.setdefault(f, dflt)
        return {"id": pid, "init": init, "ops": ops}

    def write(self, w, ops):
        p = self.par[w]
        ex = [w] + self.desc(w)
        if self.gone(p, ex):
            return False  # would push used wrappers out of the contract: not generated
        ops.append({"op": "Write", "s": w})
        self.touch(w)
        self.used[w] = False
        if p != 0:
            self.dirty[p].update(self.dirty[w])
        self.dirty[w] = {}
        self.kill_its(self.desc(p), ops)
        return True

    def refuse(self, ops):
        """A call the wrapper must refuse (Refused in CacheKV.tla: res = "panic", nothing changes, not even
        `used`), in the middle of the program, on a wrapper of any depth (half of the time one of depth
        >= 2 if there is one), for a nil-value Set on a key that is clean, dirty-set or dirty-deleted in
        that wrapper; then what makes an effect of the refused call observable: Get/Has of the key,
        full iterations in both directions, Write and reads of the parent."""
        rng = self.rng
        ws = sorted(self.par)
        if not ws:
            return
        deep = [w for w in ws if len(self.anc(w)) >= 2]
        s = rng.choice(deep) if deep and rng.random() < 0.5 else rng.choice(ws)
        depth = len(self.anc(s))
        if rng.random() < 0.25:
            o = rng.choice(["GetNoKey", "HasNoKey", "DeleteNoKey", "SetNoKey"])
            ops.append({"op": o, "s": s, "v": rng.choice(self.VALS) if o == "SetNoKey" else ""})
            k = rng.choice(self.keys)
            self.count("nil_key")
        else:
            cats = {"clean": [k for k in self.keys if tuple(k) not in self.dirty[s]],
                    "dirty_set": [k for k in self.keys if self.dirty[s].get(tuple(k)) == "set"],
                    "dirty_deleted": [k for k in self.keys if self.dirty[s].get(tuple(k)) == "del"]}
            cat = rng.choice(sorted(c for c in cats if cats[c]))
            k = rng.choice(cats[cat])
            ops.append({"op": "SetNil", "s": s, "k": k})
            self.count("nil_value_on_%s_key" % cat)
            self.count("nil_value_at_depth_%s" % (depth if depth < 3 else "3+"))
        self.count("refused_at_depth_%s" % (depth if depth < 3 else "3+"))
        if rng.random() < 0.8:
            ops.append({"op": "Get", "s": s, "k": k})
            self.touch(s)
        if rng.random() < 0.5:
            ops.append({"op": "Has", "s": s, "k": k})
            self.touch(s)
        for asc in (True, False):
            if rng.random() < 0.6:
                full = rng.random() < 0.7
                ops.append({"op": "IterAll", "s": s, "st": [] if full else self.bound(), "en": [] if full else self.bound(),
                            "asc": asc, "pat": rng.randrange(4)})
                self.touch(s)
        if rng.random() < 0.5 and self.write(s, ops):
            p = self.par[s]
            self.count("refused_then_write")
            ops.append({"op": "Get", "s": p, "k": k})
            ops.append({"op": "IterAll", "s": p, "st": [], "en": [], "asc": rng.random() < 0.5, "pat": rng.randrange(4)})
            self.touch(p)
            if rng.random() < 0.5:
                ops.append({"op": "Get", "s": s, "k": k})
                self.touch(s)

    def kill_its(self, stores, ops):
        for i in [i for i, w in self.its.items() if w in stores]:
            ops.append({"op": "DropIt", "it": i, "s": self.its[i]})
            del self.its[i]


def validate_random(out, d, seed, n_prog, n_ops):
    """code -> spec: random programs with richer keys run on the real code; the ndjson trace
    (operation, arguments, real result) is validated by TLC against CacheKV.tla (Trace_CacheKV.tla)."""
    rng = random.Random(seed * 7919 + 13)
    progs = []
    stats = {}
    for i in range(n_prog):
        g = Gen(rng, stats=stats)
        progs.append(g.program("r%d" % i, n_ops))
    need = ["nil_key", "nil_value_on_clean_key", "nil_value_on_dirty_set_key", "nil_value_on_dirty_deleted_key",
            "nil_value_at_depth_1", "nil_value_at_depth_2", "refused_then_write"]
    if n_prog >= 100 and [x for x in need if not stats.get(x)]:
        raise common.ToolError("vacuity: the random programs contain no refused call of kind %s" % [x for x in need if not stats.get(x)])
    results = {}
    for mode in ("cachekv", "cachemulti"):
        path = os.path.join(d, "rand-%s.ndjson" % mode)
        with open(path, "w") as fh:
            for p in progs:
                fh.write(json.dumps(p) + "\n")
        out.notes.setdefault("_files", []).append(["seq", path, mode])
        pr = common.run_driver("kvdrv", ["seq", path, mode], timeout=600)
        if pr.returncode != 0:
            raise common.ToolError("kvdrv seq (random) failed: %s" % pr.stderr[-2000:])
        results[mode] = [json.loads(x) for x in pr.stdout.splitlines() if x.strip()]
    total = 0
    for mode in ("cachekv", "cachemulti"):
        events = []
        index = []   # event line -> (program, op index)
        for p, r in zip(progs, results[mode]):
            events.append({"op": "Reset", "s": 0, "k": [], "v": "", "st": [], "en": [], "asc": True, "it": 0, "n": 0,
                           "init": p["init"], "res": "ok"})
            index.append((p, -1))
            for j, (op, res) in enumerate(zip(p["ops"], r["res"])):
                e = dict(op)
                e.pop("pat", None)
                e.pop("ifvalid", None)
                e.setdefault("init", [])
                e["res"] = res
                if op.get("ifvalid"):
                    e["op"] = "IterNextIfValid"
                events.append(e)
                index.append((p, j))
        keys = sorted({tuple(e["k"]) for e in events if e["op"] in ("Get", "Has", "Set", "Delete")} |
                      {tuple(kv["k"]) for e in events for kv in e["init"]})
        events.insert(0, {"op": "Header", "keys": [list(k) for k in keys]})
        index.insert(0, (None, -1))
        trace = "\n".join(json.dumps(e) for e in events) + "\n"
        res = common.run_tlc("Trace_CacheKV", "Trace_CacheKV.cfg", d, workers=1, timeout=900,
                             files={"trace.ndjson": trace}, deadlock=False)
        if res.error:
            raise common.ToolError("trace validation (%s): TLC error: %s\n%s" % (mode, res.error, res.out[-2000:]))
        done = re.findall(r'<<"DONE", (\d+)>>', res.out)
        stuck = re.findall(r'<<"STUCK", (\d+)', res.out)
        if stuck or not done or int(done[-1]) != len(events):
            raise common.ToolError("trace validation (%s) did not consume the trace (generator left the contract?) "
                                   "stuck=%s done=%s of %d\n%s" % (mode, stuck[:3], done[-1:], len(events), res.out[-1500:]))
        out.add_tlc(res, "trace validation of %d random programs (%s), %d events" % (len(progs), mode, len(events)))
        seen = set()
        for m in re.finditer(r'<<"MISMATCH", (\d+), "((?:[^"\\]|\\.)*)", "((?:[^"\\]|\\.)*)">>', res.out):
            line = int(m.group(1))
            p, j = index[line - 1]
            if p["id"] in seen:
                continue
            seen.add(p["id"])
            want = json.loads(json.loads('"%s"' % m.group(2)))
            got = json.loads(json.loads('"%s"' % m.group(3)))
            op = p["ops"][j]
            kind = "panic" if isinstance(got, dict) and "panic" in got else "result"
            out.violation(sig="seq-%s-%s" % (op["op"], kind),
                          what="%s on %s (random program %s step %d): %s returned %s, the specification requires %s"
                               % (op["op"], mode, p["id"], j, json.dumps(op), json.dumps(got), json.dumps(want)),
                          kind="seq", mode=mode, op=op["op"], asc=op.get("asc"), expected=want, observed=got, step=j,
                          depth=depth_of(p, j, op.get("s", 0)),
                          program={"id": p["id"], "init": p["init"], "ops": p["ops"][:j + 1]})
        total += len(progs)
        out.cov["traces_validated_against_impl"] += len(progs)
    out.notes["random_trace_validation"] = {"programs": len(progs), "ops_each": n_ops, "modes": 2,
                                            "refused_calls": dict(sorted(stats.items()))}
    return total


# ------------------------------------------------------------------------------------------------


SIZES = {
    "quick": dict(refine_cfgs=["MC_CacheKVImpl_q.cfg"], edge_cfgs=["MC_CacheKV_edges_q.cfg"], edge_frac=0.35,
                  sim_num=150, sim_depth=30, sim_keep=2, rand_prog=150, rand_ops=60,
                  conc_cases=60, conc_reps=30),
    "thorough": dict(refine_cfgs=["MC_CacheKVImpl_q.cfg", "MC_CacheKVImpl.cfg", "MC_CacheKVImpl_it.cfg", "MC_CacheKVImpl_nest.cfg"],
                     edge_cfgs=["MC_CacheKV_edges_q.cfg", "MC_CacheKV_edges1.cfg", "MC_CacheKV_edges2.cfg"], edge_frac=1.0,
                     sim_num=600, sim_depth=40, sim_keep=3, rand_prog=1500, rand_ops=80,
                     conc_cases=400, conc_reps=60),
}


def run(prop, tier, seed):
    out = common.Outcome(prop, tier, seed)
    sz = SIZES[tier]
    rng = random.Random(seed)
    common.build_harness(["kvdrv"])
    with common.Scratch() as d:
        # 1. TLC: implementation-level transcription refines the abstract overlay; C15 clauses hold
        for cfg in sz["refine_cfgs"]:
            res = common.run_tlc("CacheKVImpl", cfg, d, workers=WORKERS, timeout=2400)
            common.require_tlc_ok(res, "refinement " + cfg)
            out.add_tlc(res, "CacheKVImpl refinement + C15 invariants, exhaustive, " + cfg)
        probe_branches(out, d, seed)
        # 2. spec -> code: transition tours over the labelled state graph of the abstract spec
        for cfg in sz["edge_cfgs"]:
            res = common.run_tlc("CacheKV", cfg, d, workers=WORKERS, timeout=1800)
            common.require_tlc_ok(res, "state graph " + cfg)
            out.add_tlc(res, "CacheKV labelled state graph, " + cfg)
            keys = tlc_json_lines(res.out[:100000], "KEYS")
            g = Graph(iter_tlc_json_lines(res.out, "EDGE"), keys[0])
            res.out = res.out[-5000:]
            if not g.n_edges:
                raise common.ToolError("no EDGE lines from " + cfg)
            want = None
            if sz["edge_frac"] < 1.0:
                rare = {"Write", "Discard", "CacheWrap", "IterOpen", "IterNext", "IterClose"} | set(REFUSED)
                want = set()
                for u, es in g.out.items():
                    for j, (act, r, v) in enumerate(es):
                        if json.loads(act)["op"] in rare and rng.random() < 0.6 or rng.random() < sz["edge_frac"]:
                            want.add((u, j))
            ws = tours(g, rng, want)
            progs = [program_from_walk(g, s, observe_after_refused(g, observe_around_writes(g, w)), "%s-%d" % (cfg[3:-4], i), rng)
                     for i, (s, w) in enumerate(ws)]
            covered = len({(u, json.dumps(a, sort_keys=True)) for s, w in ws for (u, a, r, v) in w})
            out.notes.setdefault("state_graphs", []).append(
                {"cfg": cfg, "states": len(g.states), "edges": g.n_edges, "edges_wanted": g.n_edges if want is None else len(want),
                 "distinct_edges_in_tours": covered, "tours": len(progs)})
            if want is None:
                out.cov["exhaustive"] = True
            for mode in ("cachekv", "cachemulti"):
                run_programs(out, progs, mode, d, cfg[3:-4])
            if out.violations:
                out.notes.pop("_files", None)
                return out        # a violation is a verdict; later stages could only add to it
            if progs:
                out.sample({"tour": progs[0]["id"], "init": progs[0]["init"], "first_ops": progs[0]["ops"][:6],
                            "expected": progs[0]["exp"][:6]})
            del g
        # 3. spec -> code: simulated behaviours of the implementation-level spec (depth 3, 2 iterators)
        res = common.run_tlc("CacheKVImpl", "MC_CacheKVImpl_sim.cfg", d, simulate="num=%d" % sz["sim_num"],
                             depth=sz["sim_depth"] + 1, seed=seed, timeout=1500, workers=WORKERS,
                             files={"MC_CacheKVImpl_sim.cfg": sim_cfg(sz["sim_depth"])})
        common.require_tlc_ok(res, "simulation")
        hists = tlc_json_lines(res.out, "HIST")
        byprefix = {}
        for h in hists:
            byprefix.setdefault(json.dumps(h[:-1], sort_keys=True), []).append(h)
        progs = []
        for k in sorted(byprefix):
            for h in byprefix[k][:sz["sim_keep"]]:
                progs.append(program_from_hist(h, "sim%d" % len(progs), rng))
        m = re.search(r"The number of states generated: (\d+)", res.out)
        res.distinct, res.generated = 0, int(m.group(1)) if m else 0   # simulation: no distinct-state count
        out.add_tlc(res, "CacheKVImpl simulation (MaxW=3, depth 3, 2 open iterators), %d behaviours" % len(byprefix))
        if not progs:
            raise common.ToolError("simulation produced no behaviours")
        for mode in ("cachekv", "cachemulti"):
            run_programs(out, progs, mode, d, "sim")
        if out.violations:
            out.notes.pop("_files", None)
            return out
        out.notes["sim_max_nesting"] = max(sum(1 for x in e["ws"] if x != -1) for h in hists for e in h)
        # 4. code -> spec: random programs with richer keys, validated by TLC
        validate_random(out, d, seed, sz["rand_prog"], sz["rand_ops"])
        if out.violations:
            out.notes.pop("_files", None)
            return out
        # 5. concurrency clause
        concurrency(out, d, seed, sz)
        # completeness evidence: Go statement coverage of cachekv/cachemulti under the generated sequential programs
        files = out.notes.pop("_files", [])
        if not out.violations and (tier == "thorough" or os.environ.get("VERIF_GOCOVER")):
            out.notes["go_statement_coverage"] = go_coverage(
                d, files, {"store/cachekv/store.go", "store/cachekv/memiterator.go", "store/cachekv/mergeiterator.go",
                           "store/cachemulti/store.go"})
    out.notes.pop("_files", None)
    out.assumptions += [
        "base store is dbadapter.Store over tm-db MemDB (its iterator is a key snapshot); IAVL-backed parents are C12-C14's subject",
        "out of contract and therefore not generated: reading an iterator after a store it reads through was mutated or its wrapper "
        "written; using a wrapper that was used since its creation/last Write after an ancestor was mutated (cachekv memoises reads)",
        "'free of data races' is observed by the Go race detector on spec-generated overlapping calls (DESIGN.md 7/C15)",
    ]
    return out


def sim_cfg(depth):
    with open(os.path.join(common.SPEC, "MC_CacheKVImpl_sim.cfg")) as fh:
        return re.sub(r"HistLen = \d+", "HistLen = %d" % depth, fh.read())


BRANCHES = ["GetHit", "GetMiss", "WriteDelete", "WriteSet", "DirtyPushBack", "DirtyInsertBefore", "DirtyAdvance",
            "DirtyReplace", "SkipParentInvalid", "SkipCacheInvalid", "SkipParentFirst", "SkipEqualDeleted",
            "SkipEqualExists", "SkipCacheFirstDeleted", "SkipCacheFirstExists", "NextCacheOnly", "NextParentOnly",
            "NextParentFirst", "NextBoth", "NextCacheFirst", "ValueCacheOnly", "ValueParentOnly", "ValueParentFirst",
            "ValueCache", "SetNilValue", "SetNilKey", "NilKey"]


def probe_branches(out, d, seed):
    """Vacuity / which case splits are reached: a small simulation of the implementation-level spec
    with Probe = TRUE prints one HIT line per evaluation of a labelled branch of the transcription
    (TLC's -coverage does not terminate on the mutually recursive iterator operators)."""
    counts, ops = {}, {}
    for attempt in range(4):       # rare branches (e.g. NextCacheFirst) may need more behaviours: widen before giving up
        res = common.run_tlc("CacheKVImpl", "MC_CacheKVImpl_probe.cfg", d, simulate="num=%d" % (40 * (attempt + 1)), depth=31,
                             seed=seed + 1000 * attempt, workers=2, timeout=600)
        common.require_tlc_ok(res, "branch probe")
        for m in re.finditer(r'<<"HIT", "(\w+)">>', res.out):
            counts[m.group(1)] = counts.get(m.group(1), 0) + 1
        for h in tlc_json_lines(res.out, "HIST"):
            for e in h[1:]:
                ops[e["a"]["op"]] = ops.get(e["a"]["op"], 0) + 1
        if all(counts.get(b) for b in BRANCHES):
            break
    missing = [b for b in BRANCHES if not counts.get(b)]
    out.notes["spec_branch_probe"] = {"branch_evaluations": counts, "branches_not_taken": missing,
                                      "note": "WriteSkipNil is dead through the public API (Set refuses nil values)"}
    all_ops = {"Get", "Has", "Set", "Delete", "IterAll", "IterOpen", "IterNext", "IterClose", "Write", "Discard", "CacheWrap"} | set(REFUSED)
    if missing or all_ops - set(ops):
        raise common.ToolError("vacuity: branches of the transcription never evaluated: %s; actions never taken: %s"
                               % (missing, sorted(all_ops - set(ops))))


# ------------------------------------------------------------------------------------------------
# concurrency clause


def concurrency(out, d, seed, sz):
    """'concurrent Get/Has/Set/Delete calls on one wrapper from several goroutines are free of data races
    and each take effect atomically': the specification's concurrent configuration (every call one atomic
    action) yields sets of overlapping calls; kvdrv issues them from real goroutines on one cachekv.Store
    and logs inv/ret events; TLC (Trace_CacheKVConc, LSpec) searches a linearization of every distinct
    observed history; the same runs under the Go race detector observe the data-race clause."""
    res = common.run_tlc("Trace_CacheKVConc", "MC_CacheKVConc_gen.cfg", d, simulate="num=%d" % max(10, sz["conc_cases"] // 4),
                         depth=24, seed=seed, workers=2, timeout=600, deadlock=False, files={"conc.ndjson": "{}\n"})
    common.require_tlc_ok(res, "concurrent configuration")
    m = re.search(r"The number of states generated: (\d+)", res.out)
    res.distinct, res.generated = 0, int(m.group(1)) if m else 0
    out.add_tlc(res, "CacheKV concurrent configuration (3 goroutines x <= 2 atomic calls), simulation")
    cases, seen = [], set()
    for h in tlc_json_lines(res.out, "CASE"):
        init = init_of_base(json.loads(h[0]["r"]))
        pre = [{"op": e["op"], "k": e["k"], "v": e["v"]} for e in h if e["e"] == "pre"]
        threads = {}
        for e in h:
            if e["e"] == "inv":
                threads.setdefault(e["t"], []).append({"op": e["op"], "k": e["k"], "v": e["v"]})
        th = [threads[t] for t in sorted(threads)]
        if len(th) < 2:
            continue
        key = json.dumps([init, pre, th], sort_keys=True)
        if key in seen:
            continue
        seen.add(key)
        cases.append({"id": "c%d" % len(cases), "init": init, "pre": pre, "threads": th})
    rng = random.Random(seed + 31)
    rng.shuffle(cases)
    cases = cases[:sz["conc_cases"]]
    if not cases:
        raise common.ToolError("the concurrent configuration produced no case")
    for i, c in enumerate(cases):
        c["seed"] = seed * 1000 + i
    common.build_harness(["kvdrv"], race=True)
    histories = {}      # distinct history -> [case, count]
    overlaps = total_runs = 0
    for race, reps in ((False, sz["conc_reps"]), (True, max(5, sz["conc_reps"] // 4))):
        path = os.path.join(d, "conc-cases-%d.ndjson" % race)
        with open(path, "w") as fh:
            for c in cases:
                fh.write(json.dumps(dict(c, reps=reps)) + "\n")
        pr = common.run_driver("kvdrv", ["conc", path], timeout=1200, race=race,
                               env_extra={"GORACE": "halt_on_error=0 exitcode=66"})
        racy = "WARNING: DATA RACE" in pr.stderr
        fatal = re.search(r"fatal error: concurrent map [\w ]+", pr.stderr)
        if racy or fatal:
            first = pr.stderr[pr.stderr.find("WARNING: DATA RACE"):][:1500] if racy else pr.stderr[:1500]
            frames = re.findall(r"posmint/store/[\w/]+\.\(\*?\w+\)\.\w+|posmint/store/[\w/]+\.\w+", first)
            out.violation(sig="data-race",
                          what="concurrent Get/Has/Set/Delete on one cachekv.Store: %s\n%s"
                               % ("Go race detector report" if racy else fatal.group(0), first),
                          kind="conc", detector="race-detector" if racy else "runtime-fatal", frames=sorted(set(frames))[:8],
                          cases=[dict(c, reps=reps) for c in cases[:40]], race_build=race)
            return
        if pr.returncode != 0:
            raise common.ToolError("kvdrv conc failed (rc %d): %s" % (pr.returncode, pr.stderr[-2000:]))
        for line in pr.stdout.splitlines():
            if not line.strip():
                continue
            r = json.loads(line)
            c = next(x for x in cases if x["id"] == r["id"])
            overlaps += r["overlaps"]
            for h in r["histories"]:
                total_runs += h["count"]
                key = json.dumps([c["init"], h["ev"]], sort_keys=True)
                if key in histories:
                    histories[key][1] += h["count"]
                else:
                    histories[key] = [c, h["count"], h["ev"]]
    runs = [{"id": v[0]["id"], "init": v[0]["init"], "ev": v[2]} for v in histories.values()]
    trace = "".join(json.dumps(r) + "\n" for r in runs)
    res = common.run_tlc("Trace_CacheKVConc", "Trace_CacheKVConc.cfg", d, workers=WORKERS, timeout=1200, deadlock=False,
                         files={"conc.ndjson": trace})
    if res.error:
        raise common.ToolError("linearizability search: TLC error: %s\n%s" % (res.error, res.out[-2000:]))
    lin = {int(x) for x in re.findall(r'<<"LIN", (\d+)>>', res.out)}
    out.add_tlc(res, "linearizability search over %d distinct observed histories" % len(runs))
    for i, r in enumerate(runs, 1):
        if i not in lin:
            out.violation(sig="not-atomic",
                          what="history of concurrent calls on one cachekv.Store that no order of atomic Get/Has/Set/Delete explains: %s"
                               % json.dumps(r["ev"])[:1500],
                          kind="conc", case=next(c for c in cases if c["id"] == r["id"]), history=r)
    out.cov["traces_validated_against_impl"] += len(runs)
    out.notes["concurrency"] = {"cases": len(cases), "runs": total_runs, "runs_with_really_overlapping_calls": overlaps,
                                "distinct_histories": len(runs), "linearized": len(lin & set(range(1, len(runs) + 1))),
                                "race_detector_runs": len(cases) * max(5, sz["conc_reps"] // 4)}
    if overlaps == 0:
        raise common.ToolError("no run had overlapping calls: the concurrency clause was not exercised")


def replay(prop, path):
    with open(path) as fh:
        v = json.load(fh)["violation"]
    common.build_harness(["kvdrv"])
    if v.get("kind") == "seq":
        p = v["program"]
        with common.Scratch() as d:
            f = os.path.join(d, "p.ndjson")
            with open(f, "w") as fh:
                fh.write(json.dumps(p) + "\n")
            pr = common.run_driver("kvdrv", ["seq", f, v["mode"]])
        got = json.loads(pr.stdout.splitlines()[0])["res"][v["step"]]
        print("program %s on %s, step %d: %s" % (p["id"], v["mode"], v["step"], json.dumps(p["ops"][v["step"]])))
        print("  specification requires: %s" % json.dumps(v["expected"]))
        print("  real code returns     : %s" % json.dumps(got))
        return 1 if got != v["expected"] else 0
    if v.get("kind") == "conc" and v["sig"] == "data-race":
        common.build_harness(["kvdrv"], race=True)
        with common.Scratch() as d:
            f = os.path.join(d, "c.ndjson")
            with open(f, "w") as fh:
                for c in v["cases"]:
                    fh.write(json.dumps(c) + "\n")
            pr = common.run_driver("kvdrv", ["conc", f], race=True, env_extra={"GORACE": "halt_on_error=0 exitcode=66"})
        bad = "WARNING: DATA RACE" in pr.stderr or "fatal error: concurrent map" in pr.stderr
        print(pr.stderr[:3000] if bad else "no race report / fatal error in this run (scheduling dependent; rerun)")
        return 1 if bad else 0
    if v.get("kind") == "conc":
        print("history not explainable by atomic calls:")
        print(json.dumps(v["history"], indent=1)[:4000])
        with common.Scratch() as d:
            res = common.run_tlc("Trace_CacheKVConc", "Trace_CacheKVConc.cfg", d, workers=2, timeout=300, deadlock=False,
                                 files={"conc.ndjson": json.dumps(v["history"]) + "\n"})
        ok = '<<"LIN", 1>>' in res.out
        print("linearizable according to TLC: %s" % ok)
        return 0 if ok else 1
    print("cannot replay this record")
    return 2
